"""C16 — correspondence of the composite-observable model (QV.Model.Composite: build / Obs.apply / eval /
statisticsFromSamples) with the real operator overloads of qucumber.observables.ObservableBase, SumObservable and
ProdObservable, plus the property oracles (an independent interpreter of the expression tree over the leaves'
apply values) evaluated on the implementation.

The Python expression is built by applying the real Python operators to the real objects."""
import math

import numpy as np

from . import argforms as af
from . import qc
from .common import b2f, bits, f2b, unbits
from .layouts import DTYPES, LAYOUTS, make_batch, outside_untouched
from .qc import torch

from qucumber.observables import (NeighbourInteraction, ObservableBase, SigmaX, SigmaY, SigmaZ, SWAP)  # noqa: E402
from qucumber.observables.observable import ProdObservable, SumObservable  # noqa: E402

FILES = ["qucumber/observables/observable.py"]
EXTRA_TRUSTED = ["C16: CPython binary-operator dispatch (forward / reflected methods; numpy scalars and arrays on the left of an observable returning NotImplemented because of ObservableBase.__array_ufunc__ = None) is part of the model (pyAdd/pySub/pyMul, Kind.reflected), tied to the interpreter only by the correspondence"]
REQUIRED_THEOREMS = ["C16_apply_eq_eval", "C16_linear_iff_ok", "C16_error_kind", "C16_statistics", "C16_statistics_sampled",
                     "C16_constructor_sum", "C16_constructor_prod", "C16_constructor_value",
                     "C16_name_of_build", "C16_named_build_is_build", "C16_system_keys_of_built"]   # extension round 2: names / symbols
THEOREMS = {
    "apply": "C16_apply_eq_eval",
    "stats": "C16_statistics, C16_statistics_real",
    "sampled": "C16_statistics_sampled",
    "error": "C16_linear_iff_ok",                            # rejected-or-built (the KIND of exception is not compared: final pass, X-1)
    "ctor": "C16_constructor_sum, C16_constructor_prod",
    "ctor_value": "C16_constructor_value",
}
# operands that are real-number-like / array-like but NOT instances of float or int: rejected in EITHER operand position.
# On the LEFT this relies on ObservableBase.__array_ufunc__ = None (fix F16, APPLIED in /repo ac95f92; proposed/F-C16-numpy-left-operand.md
# is the text of that fix): without it numpy absorbs the observable (`np.array([1., 2.]) * obs` -> object array of composites,
# `np.int64(3) * obs` accepted) - the pre-fix behaviour is reported with this signature (seeded/F16_revert)
NUMPY_TAGS = ("npint64", "npint32", "npfloat32", "ndarray", "ndarray0", "ndarray_int")
SIG_NUMPY = "numpy-operand/not-rejected"
RULE = ("case = (leaf observables, batch of samples [+ state], expression tree); trees are generated top-down to depth <= 6 "
        "from the grammar leaf | const(bool/int/float/numpy.float64) | -e | e+e | e-e | e*e, constrained to be linear "
        "(valid stream) or unconstrained / fault-injected with None, str, complex operands and observable*observable "
        "(malformed stream); scalars include 0 and negatives and stand on either side; in a quarter of the valid cases and in the "
        "'shared' stream textually identical sub-expressions are ONE Python object used several times (a = 2*X; a - a). mock tier: integer-valued mock "
        "leaves, integer-valued scalars, model run over Int, exact comparison; numpy scalars that are not float/int instances, numpy "
        "arrays, tensors, lists, Fractions as operands in EITHER position (fixed + fault-injected; rejected on the left since fix F16, applied in "
        "/repo ac95f92); malformed expressions are judged as REJECTED-or-built only (a boolean; the exception class and which offending operand "
        "is reported are counters); empty batches (apply compared, statistics of nothing unconstrained: counted); the constructors "
        "SumObservable / ProdObservable called directly on every pair of operand classes; real tier: SigmaX/Y/Z, "
        "NeighbourInteraction, SWAP on random Positive/Complex/Density states, model run over Float; the sample batch is float64, float32 or "
        "int64 (contiguous / strided / transposed) and handed to the composite and to its parts alike: parts then return float32 (SigmaZ, "
        "NeighbourInteraction, user-written typed leaves) or float64 values (SigmaX/Y, SWAP), every composite shape x operand order of a "
        "float32-valued and a float64-valued part is a fixed case; the composite may round only where float32-only sub-expressions round "
        "(float64 parts enter with float64 precision); cases whose parts themselves refuse the element type are counted, not judged. "
        "non-trivial iff >= 3 operator nodes, a subtraction or negation, and a scalar operand; distinct by hash of "
        "(leaves, expression). history cases: one composite object built from a valid expression and used along a sequence (sample "
        "tensor overwritten in place, state re-parametrised in place, other batch length, other chain lengths, "
        "statistics_from_samples, statistics() for (num_samples, num_chains) incl. non-divisible / 0 / 1 / > num_samples with fresh or "
        "user chains (float64/float32, overwrite on/off) and nn_state.sample wrapped on the instance, composite.sample(k, num_samples | "
        "initial_state) compared with the expression on exactly the drawn batch, apply again). "
        "ARGUMENT FORMS (stream `af` of every generated leaf / state / statistics() call): num_samples, num_chains (no 0-d tensor: it would turn the "
        "running statistics into float32 tensors; no numpy.uint8: ceiling-division idioms negate it), burn_in, steps, the distance c of NeighbourInteraction (no numpy.uint8: `-c` wraps) and the state's "
        "sizes as Python int / numpy.int64 / int32 / intp / uint8 / 0-d numpy array / 0-d torch tensor; absolute, periodic_bcs, overwrite, gpu as bool / "
        "int / numpy.bool_ / numpy comparison result / 0-d numpy array / 0-d torch tensor; statistics() by keyword or positionally")

OPS2 = ("add", "sub", "mul")


# ---------------------------------------------------------------- leaves
class MockLeaf(ObservableBase):
    """cheap deterministic observable with integer values: samples @ w + off"""

    def __init__(self, w, off, idx):
        self.w = torch.tensor(w, dtype=torch.double)
        self.off = float(off)
        self.name = f"M{idx}"
        self.symbol = f"M{idx}"

    def apply(self, nn_state, samples):
        return samples.to(torch.double).matmul(self.w).add(self.off)


class TypedLeaf(ObservableBase):
    """a user-written observable with real (non-integer) values whose OUTPUT element type is fixed by the leaf ('f32' / 'f64'), whatever the
    batch's: samples @ w + off computed in that type.  (The built-in observables behave like this too: on a float32 batch SigmaZ /
    NeighbourInteraction return float32 values, SigmaX / SigmaY / SWAP float64 values.)"""

    def __init__(self, w, off, out, idx):
        self.dt = DTYPES[out]
        self.w = torch.tensor(w, dtype=self.dt)
        self.off = float(off)
        self.name = f"T{idx}"
        self.symbol = f"T{idx}"

    def apply(self, nn_state, samples):
        return samples.to(self.dt).matmul(self.w).add(self.off)


LEAF_CTX = {}   # {"ctx": Ctx} while the FIRST instances of a case's leaves are built (counters once per case, not per fresh instance)


def make_leaf(spec, idx):
    t = spec["type"]
    if t == "mock":
        return MockLeaf(spec["w"], spec["off"], idx)
    if t == "typed":
        return TypedLeaf(spec["w"], spec["off"], spec["out"], idx)
    # argument forms (round 5): the options of the built-in leaves as the objects callers pass (stream `af` of the leaf spec; the SAME
    # objects for every fresh instance of this leaf); specs without `af` (stored cases) get the Python literals
    fm = af.Forms(spec.get("af"), LEAF_CTX.get("ctx"), "leaf ")
    if t in ("SigmaX", "SigmaY", "SigmaZ"):
        cls = {"SigmaX": SigmaX, "SigmaY": SigmaY, "SigmaZ": SigmaZ}[t]
        ab = fm.f("absolute", bool(spec.get("absolute", False)))
        return cls(ab) if fm.pos(f"{t}(absolute)") else cls(absolute=ab)
    if t == "NI":
        per, c = fm.f("periodic_bcs", bool(spec["periodic"])), fm.i("c", spec["c"], af.NO_U8)
        return NeighbourInteraction(per, c) if fm.pos("NeighbourInteraction(periodic_bcs, c)") else NeighbourInteraction(periodic_bcs=per, c=c)
    if t == "SWAP":
        return SWAP(spec["A"])
    raise ValueError(t)


def make_state(s):
    if s is None:
        return None
    fm = af.Forms(s.get("af"))   # sizes and gpu of the state constructors in the case's argument forms
    n, h, gpu = fm.i("num_visible", s["n"]), fm.i("num_hidden", s["h"]), fm.gpu()
    if s["kind"] == "pos":
        return qc.make_positive(n, h, s["am"], gpu=gpu)
    if s["kind"] == "cplx":
        return qc.make_complex(n, h, s["am"], s["ph"], gpu=gpu)
    return qc.make_density(n, h, fm.i("num_aux", s["a"]), s["am"], s["ph"], gpu=gpu)


# ---------------------------------------------------------------- expression trees
def py_const(node):
    k, c = node[1], node[2]
    if k == "bool":
        return bool(c)
    if k == "int":
        return int(c)
    if k == "float":
        return float(c)
    if k == "npfloat":
        return np.float64(c)
    tag = node[3] if len(node) > 3 else "None"
    import fractions
    return {"None": None, "str": "a", "complex": 1j,
            # real scalars that are NOT float/int instances: refused by the constructors exactly like other non-numeric operands
            "npint64": np.int64(3), "npint32": np.int32(-2), "npfloat32": np.float32(2.5), "fraction": fractions.Fraction(3, 2),
            # arrays / tensors / lists: not scalars at all
            "ndarray": np.array([1.0, 2.0]), "ndarray0": np.array(2.0), "ndarray_int": np.arange(3),
            "tensor": torch.tensor([1.0, 2.0], dtype=torch.double), "tensor0": torch.tensor(2.0, dtype=torch.double), "list": [1, 2]}[tag]


def numpy_bad(node):
    """does the expression contain a numpy scalar / array operand that is not a float or int instance?"""
    if node[0] == "const":
        return node[1] == "bad" and len(node) > 3 and node[3] in NUMPY_TAGS
    return any(numpy_bad(k) for k in node[1:] if isinstance(k, list))


def py_build(node, leaves, shared=None):
    """evaluate the expression with the REAL Python operators on the real objects. With `shared` (a dict) textually identical
    sub-expressions are evaluated ONCE and the resulting Python object is reused wherever the sub-expression occurs again
    (`a = 2 * X; a - a`): building an expression must not modify its operands."""
    t = node[0]
    if t == "leaf":
        return leaves[node[1]]
    if t == "const":
        return py_const(node)
    key = None
    if shared is not None:
        import json
        key = json.dumps(node)
        if key in shared:
            return shared[key]
    if t == "neg":
        r = -py_build(node[1], leaves, shared)
    else:
        a = py_build(node[1], leaves, shared)
        b = py_build(node[2], leaves, shared)
        r = a + b if t == "add" else (a - b if t == "sub" else a * b)
    if shared is not None:
        shared[key] = r
    return r


def interp(node, leafvals):
    """independent interpreter of the expression over the leaves' per-sample values (numpy / python ints)"""
    t = node[0]
    if t == "leaf":
        return leafvals[node[1]]
    if t == "const":
        k, c = node[1], node[2]
        return {"bool": lambda: int(bool(c)), "int": lambda: int(c), "float": lambda: float(c),
                "npfloat": lambda: float(c)}[k]()
    if t == "neg":
        return -interp(node[1], leafvals)
    a = interp(node[1], leafvals)
    b = interp(node[2], leafvals)
    return a + b if t == "add" else (a - b if t == "sub" else a * b)


def interp_abs(node, leafabs):
    t = node[0]
    if t == "leaf":
        return leafabs[node[1]]
    if t == "const":
        return abs(float(node[2])) if node[1] != "bad" else 0.0
    if t == "neg":
        return interp_abs(node[1], leafabs)
    a = interp_abs(node[1], leafabs)
    b = interp_abs(node[2], leafabs)
    return a * b if t == "mul" else a + b


# ---- element types of the parts: what "exactly that arithmetic expression" means when the leaves' values are not all float64
# torch's arithmetic on a float32 and a float64 tensor is carried out in float64, on two float32 tensors (or a float32 tensor and a Python
# number) in float32.  A composite may therefore round where a float32-only sub-expression rounds, and nowhere else: in particular the
# float64 values of a leaf must enter the result with float64 precision.
EPS = {"f64": 1e-12, "f32": 2.5e-7, None: 1e-12}   # generous multiples of the unit round-offs 1.1e-16 / 6e-8


def promote(da, db):
    return "f64" if "f64" in (da, db) else ("f32" if "f32" in (da, db) else None)


def err_bound(node, leafabs, leafdt):
    """-> (bound on |value|, element type of the node's value (None: a Python number), rounding allowance): every operation may round to
    the element type torch gives ITS result (promotion of its operands' types), errors of the operands propagate"""
    t = node[0]
    if t == "leaf":
        return leafabs[node[1]], leafdt[node[1]], 0.0
    if t == "const":
        return (abs(float(node[2])) if node[1] != "bad" else 0.0), None, 0.0
    if t == "neg":
        return err_bound(node[1], leafabs, leafdt)
    A, da, ea = err_bound(node[1], leafabs, leafdt)
    B, db, eb = err_bound(node[2], leafabs, leafdt)
    d = promote(da, db)
    if t == "mul":
        v, e = A * B, ea * B + eb * A + ea * eb
    else:
        v, e = A + B, ea + eb
    return v, d, e + EPS[d] * v


def dtype_name(x):
    return {torch.float64: "f64", torch.float32: "f32"}.get(x.dtype, str(x.dtype).replace("torch.", ""))


def classify(node):
    """independent re-statement of 'linear, else which error' -> (value class, error name or None);
    value class in {'obs', 'num', 'bad'}"""
    t = node[0]
    if t == "leaf":
        return "obs", None
    if t == "const":
        return ("bad" if node[1] == "bad" else "num"), None
    if t == "neg":
        c, e = classify(node[1])
        if e:
            return None, e
        if c == "bad":
            return None, "TypeError"
        return c, None
    ca, ea = classify(node[1])
    if ea:
        return None, ea
    cb, eb = classify(node[2])
    if eb:
        return None, eb
    if "bad" in (ca, cb):
        return None, "TypeError"
    if t == "mul" and ca == "obs" and cb == "obs":
        return None, "ValueError"
    return ("obs" if "obs" in (ca, cb) else "num"), None


def stats_of(node):
    """operator count, depth, flags"""
    t = node[0]
    if t in ("leaf", "const"):
        return {"ops": 0, "depth": 0, "subneg": False, "scalar": t == "const", "tags": set()}
    kids = [stats_of(k) for k in node[1:3] if isinstance(k, list)]
    return {"ops": 1 + sum(k["ops"] for k in kids), "depth": 1 + max(k["depth"] for k in kids),
            "subneg": t in ("sub", "neg") or any(k["subneg"] for k in kids),
            "scalar": any(k["scalar"] for k in kids), "tags": {t}.union(*[k["tags"] for k in kids])}


def to_driver(node, carrier):
    t = node[0]
    if t == "leaf":
        return node
    if t == "const":
        c = node[2]
        return ["const", node[1], int(c) if carrier == "int" else f2b(float(c))]
    return [t] + [to_driver(k, carrier) for k in node[1:]]


def kind_of(x):
    if type(x) is bool:
        return "bool"
    if type(x) is int:
        return "int"
    if type(x) is float:
        return "float"
    if isinstance(x, np.float64):
        return "npfloat"
    return "bad"


def describe(o, leaves, carrier):
    """structure of the built object: .left/.right of Sum/Prod nodes, scalar types and values"""
    num = (lambda x: int(x)) if carrier == "int" else (lambda x: float(x) + 0.0)
    if isinstance(o, SumObservable):
        return ["sum"] + [describe(s, leaves, carrier) if isinstance(s, ObservableBase) else ["scal", kind_of(s), num(s)]
                          for s in (o.left, o.right)]
    if isinstance(o, ProdObservable):
        return ["prod", kind_of(o.left), num(o.left), describe(o.right, leaves, carrier)]
    for i, l in enumerate(leaves):
        if l is o:
            return ["leaf", i]
    return ["unknown", repr(o)]


def canon_tree(tr, carrier):
    """model tree -> same shape as describe()"""
    if carrier == "int":
        return tr
    t = tr[0]
    if t == "leaf":
        return tr
    if t == "scal":
        return ["scal", tr[1], b2f(tr[2]) + 0.0]
    if t == "prod":
        return ["prod", tr[1], b2f(tr[2]) + 0.0, canon_tree(tr[3], carrier)]
    return ["sum", canon_tree(tr[1], carrier), canon_tree(tr[2], carrier)]


# ---------------------------------------------------------------- generation
def gen_scalar(rng, mode, allow_bad=False):
    r = rng.random()
    if allow_bad and r < 0.5:
        return ["const", "bad", 0, "None"]
    kind = rng.choice(["int", "int", "float", "float", "npfloat", "bool"])
    if kind == "bool":
        return ["const", "bool", rng.choice([0, 1])]
    if kind == "int" or mode == "mock":
        c = rng.choice([0, 1, -1, 2, -2, 3, -3, 0, -1])
        return ["const", kind, c if kind == "int" else float(c)]
    c = rng.choice([0.0, -1.0, 0.5, -2.5, round(rng.gauss(0, 2), 3), round(rng.gauss(0, 2), 3)])
    return ["const", kind, c]


def gen_scal_expr(rng, mode, depth):
    if depth <= 0 or rng.random() < 0.75:
        return gen_scalar(rng, mode)
    if rng.random() < 0.3:
        return ["neg", gen_scalar(rng, mode)]
    return [rng.choice(OPS2), gen_scalar(rng, mode), gen_scalar(rng, mode)]


def gen_obs_expr(rng, mode, depth, nleaves, force_depth=True):
    """a LINEAR expression denoting an observable; with force_depth one branch reaches the full depth"""
    if depth <= 0 or (not force_depth and rng.random() < 0.25):
        return ["leaf", rng.randrange(nleaves)]
    op = rng.choice(["neg", "add", "add", "sub", "sub", "mul", "mul"])
    if op == "neg":
        return ["neg", gen_obs_expr(rng, mode, depth - 1, nleaves, force_depth)]
    deep = gen_obs_expr(rng, mode, depth - 1, nleaves, force_depth)
    if op == "mul":
        other = gen_scal_expr(rng, mode, 1)
    elif rng.random() < 0.5:
        other = gen_scal_expr(rng, mode, 1)
    else:
        other = gen_obs_expr(rng, mode, rng.randrange(0, depth), nleaves, False)
    return [op, deep, other] if rng.random() < 0.5 else [op, other, deep]


def gen_wild(rng, mode, depth, nleaves):
    """unconstrained tree (malformed stream): any operand anywhere, None operands"""
    if depth <= 0 or rng.random() < 0.2:
        return ["leaf", rng.randrange(nleaves)] if rng.random() < 0.6 else gen_scalar(rng, mode, allow_bad=rng.random() < 0.3)
    op = rng.choice(["neg", "add", "sub", "mul", "mul"])
    if op == "neg":
        return ["neg", gen_wild(rng, mode, depth - 1, nleaves)]
    return [op, gen_wild(rng, mode, depth - 1, nleaves), gen_wild(rng, mode, depth - 1, nleaves)]


def paths(node, pre=()):
    out = [pre]
    if node[0] not in ("leaf", "const"):
        for i in range(1, len(node)):
            if isinstance(node[i], list):
                out += paths(node[i], pre + (i,))
    return out


def get_at(node, p):
    for i in p:
        node = node[i]
    return node


def set_at(node, p, new):
    if not p:
        return new
    node = list(node)
    node[p[0]] = set_at(node[p[0]], p[1:], new)
    return node


def inject_fault(rng, tree, nleaves):
    """turn a valid tree into a malformed one at a random position"""
    ps = paths(tree)
    for _ in range(20):
        p = rng.choice(ps)
        sub = get_at(tree, p)
        kind = rng.choice(["obsobs", "bad_sibling", "none"])
        if kind == "obsobs" and classify(sub) == ("obs", None):
            return set_at(tree, p, ["mul", sub, ["leaf", rng.randrange(nleaves)]] if rng.random() < 0.5
                          else ["mul", ["leaf", rng.randrange(nleaves)], sub])
        if kind == "bad_sibling" and classify(sub) == ("obs", None):
            if rng.random() < 0.5:  # non-(float|int) real scalars, arrays, tensors, lists: in EITHER operand position
                bad = ["const", "bad", 0, rng.choice(["npint64", "npint32", "npfloat32", "fraction", "ndarray", "ndarray0", "ndarray_int",
                                                      "tensor", "tensor0", "list"])]
                op = rng.choice(OPS2)
                right = rng.random() < 0.4 and (op, bad[3]) != ("sub", "ndarray0")   # -np.array(2.0) is a numpy.float64 (numpy, not the library)
                return set_at(tree, p, [op, sub, bad] if right else [op, bad, sub])
            bad = ["const", "bad", 0, rng.choice(["None", "str", "complex"])]
            op = rng.choice(OPS2)
            return set_at(tree, p, [op, sub, bad] if rng.random() < 0.5 else [op, bad, sub])
        if kind == "none" and sub[0] == "const":
            return set_at(tree, p, ["const", "bad", 0, "None"])
    return ["mul", tree, ["leaf", 0]]


def gen_leaves(rng, mode, n, typed=False):
    k = rng.randrange(1, 4)
    if mode == "mock":
        return [{"type": "mock", "w": [rng.randrange(-3, 4) for _ in range(n)], "off": rng.randrange(-2, 3)} for _ in range(k)]
    pool = [
        lambda: {"type": "SigmaX", "absolute": rng.random() < 0.2},
        lambda: {"type": "SigmaY", "absolute": rng.random() < 0.2},
        lambda: {"type": "SigmaZ", "absolute": rng.random() < 0.2},
        lambda: {"type": "NI", "periodic": rng.random() < 0.5, "c": rng.randrange(1, max(2, n))},
        lambda: {"type": "SWAP", "A": sorted(rng.sample(range(n), rng.randrange(1, n)))},
    ]
    if typed:   # user-written observables with real values of a fixed element type
        pool.append(lambda: {"type": "typed", "w": [round(rng.gauss(0, 1), 3) for _ in range(n)], "off": round(rng.gauss(0, 1), 3),
                             "out": rng.choice(["f32", "f32", "f64"])})
    return [{**rng.choice(pool)(), "af": af.new_seed(rng)} for _ in range(k)]


DIAG, OFFDIAG = ("SigmaZ", "NI"), ("SigmaX", "SigmaY", "SWAP")


def dtype_ok(dt, leaves, state):
    """can the LEAVES themselves be evaluated on a batch of this element type? (their business, not the composite's: SigmaZ takes a mean, which
    torch refuses for integer tensors; the off-diagonal observables of a DensityMatrix multiply the batch with float64 matrices)"""
    types = [sp["type"] for sp in leaves]
    if dt == "i64" and "SigmaZ" in types:
        return False
    if dt != "f64" and state is not None and state["kind"] == "dens" and any(t in OFFDIAG for t in types):
        return False
    return True


def gen_dtype(rng, leaves, state):
    """element type of the sample batch: float64 (what `sample` returns), float32 (a data file read as float32), int64 (0 / 1 integers)"""
    want = rng.choice(["f64", "f64", "f32", "f32", "i64"])
    for dt in (want, "f32", "f64"):
        if dtype_ok(dt, leaves, state):
            return dt
    return "f64"


def gen_state(rng, n):
    kind = rng.choice(["pos", "cplx", "dens"])
    h = rng.randrange(1, 4)
    scale = rng.choice([0.1, 0.5, 1.0])
    if kind == "pos":
        return {"kind": kind, "n": n, "h": h, "am": qc.rand_rbm_params(rng, n, h, scale), "af": af.new_seed(rng)}
    if kind == "cplx":
        return {"kind": kind, "n": n, "h": h, "am": qc.rand_rbm_params(rng, n, h, scale), "ph": qc.rand_rbm_params(rng, n, h, scale),
                "af": af.new_seed(rng)}
    a = rng.randrange(1, 3)
    return {"kind": kind, "n": n, "h": h, "a": a, "am": qc.rand_prbm_params(rng, n, h, a, scale),
            "ph": qc.rand_prbm_params(rng, n, h, a, scale), "af": af.new_seed(rng)}


def gen_shared_expr(rng, mode, nleaves):
    """a linear expression in which one sub-expression `a` (a scaled / negated / composite observable) occurs several times; the harness
    evaluates `a` once and reuses the object"""
    c = gen_scalar(rng, mode)
    base = gen_obs_expr(rng, mode, rng.randrange(0, 3), nleaves, False)
    a = rng.choice([["mul", c, base], ["mul", base, c], ["neg", base], ["sub", c, base], ["mul", c, ["neg", base]], base])
    x = gen_obs_expr(rng, mode, rng.randrange(0, 2), nleaves, False)
    k = gen_scalar(rng, mode)
    return rng.choice([
        ["sub", a, a], ["add", ["neg", a], a], ["add", ["sub", k, a], a], ["sub", ["sub", x, a], a], ["add", ["mul", k, a], ["sub", a, x]],
        ["sub", ["neg", ["neg", a]], a], ["add", ["sub", a, x], ["sub", x, a]], ["add", ["mul", ["neg", a], k], ["add", a, a]],
    ])


def gen_case(rng, mode, stream, depth, dtypes=True):
    n = rng.randrange(2, 5)
    B = rng.choice([1, 2, 3, 4, 6, 1, 2, 3, 4, 6, 0])
    leaves = gen_leaves(rng, mode, n, typed=dtypes and mode == "real")
    if stream == "shared":
        expr = gen_shared_expr(rng, mode, len(leaves))
    elif stream == "valid":
        expr = gen_obs_expr(rng, mode, depth, len(leaves))
    elif stream == "fault":
        expr = inject_fault(rng, gen_obs_expr(rng, mode, max(1, depth - 1), len(leaves)), len(leaves))
    else:
        expr = gen_wild(rng, mode, depth, len(leaves))
    case = {"mode": mode, "stream": stream, "n": n, "leaves": leaves, "expr": expr,
            "samples": [[rng.randrange(2) for _ in range(n)] for _ in range(B)],
            "state": gen_state(rng, n) if mode == "real" else None, "layout": rng.choice(LAYOUTS),
            "share": stream == "shared" or (stream == "valid" and rng.random() < 0.25)}
    if dtypes:
        case["dtype"] = gen_dtype(rng, leaves, case["state"])
    return case


# ---------------------------------------------------------------- one case
def one_case(ctx, case):
    if case.get("ctor"):
        return ctor_case(ctx, case)
    mode, expr = case["mode"], case["expr"]
    carrier = "int" if mode == "mock" else "float"
    LEAF_CTX["ctx"] = ctx
    try:
        leaves = [make_leaf(s, i) for i, s in enumerate(case["leaves"])]
    finally:
        LEAF_CTX.pop("ctx", None)
    st = make_state(case["state"])
    dt = case.get("dtype", "f64")   # element type of the sample batch handed to the composite AND to its parts
    samples = make_batch(case["samples"], case["n"], "contig", dt)[0]
    B = len(case["samples"])
    st_info = stats_of(expr)
    cls, exp_err = classify(expr)
    nontriv = st_info["ops"] >= 3 and st_info["subneg"] and st_info["scalar"]
    ctx.case({"leaves": case["leaves"], "expr": expr}, nontrivial=nontriv,
             sample={"mode": mode, "stream": case["stream"], "expr": expr, "leaves": [s["type"] for s in case["leaves"]], "batch": B})
    ctx.count(f"mode={mode}"); ctx.count(f"stream={case['stream']}"); ctx.count(f"depth={st_info['depth']}")
    for tg in st_info["tags"]:
        ctx.count(f"op={tg}")
    ctx.count(f"expected={exp_err or cls}")
    if case["state"]:
        ctx.count(f"state={case['state']['kind']}")
    for s in case["leaves"]:
        ctx.count(f"leaf={s['type']}")

    # ---- leaves' own values (the parts) on a batch of the same element type, and the element type of each part's values
    ctx.count(f"batch_dtype={dt}")
    leaf_err = None
    try:
        # the parts see a batch of the same element type AND memory layout as the composite will (a float32 reduction inside a part may
        # round differently on a strided batch: that is the part's value on THAT batch)
        lts = [l.apply(st, make_batch(case["samples"], case["n"], case.get("layout", "contig"), dt)[0]).detach() for l in leaves]
        leafdt = [dtype_name(x) for x in lts]
        leafvals = [x.numpy().astype(np.float64).copy() for x in lts]
    except Exception as e:  # noqa: BLE001 - a PART refuses this batch (element type): nothing is said about the composite's value then
        leaf_err = type(e).__name__
        leafdt, leafvals = [], []
        ctx.count(f"a_leaf_refuses_the_batch:{dt}:{leaf_err}")
    dtype_regime = carrier == "float" and any(d != "f64" for d in leafdt)
    if dtype_regime:
        ctx.count("leaf_value_dtypes=" + "+".join(sorted(set(leafdt))))
    # ---- implementation: build with the real operators
    impl_err, obj = None, None
    try:
        obj = py_build(expr, leaves, {} if case.get("share") else None)
    except Exception as e:  # noqa: BLE001
        impl_err = type(e).__name__
    sig = f"{mode}/{case['stream']}"
    if case.get("share"):
        ctx.count("shared_subexpression_objects")
    # oracle: REJECTED (building raised any exception) or BUILT, as the independent classification says.  The property says "rejected when
    # built" and nothing about the class of the exception or about WHICH offending operand is reported when there are several: the kind
    # (TypeError / ValueError as the present code and the model have it) is an informational counter only, never a mismatch
    impl_rej, exp_rej = impl_err is not None, exp_err is not None
    np_unrejected = not impl_rej and exp_err == "TypeError" and numpy_bad(expr)
    if numpy_bad(expr):
        ctx.count("numpy_nonfloat_operand")
    if impl_rej and exp_rej:
        ctx.count("rejected:exception_kind_as_classified" if impl_err == exp_err else f"rejected:exception_kind_differs:{impl_err}_for_{exp_err}")
    ctx.oracle("rejected when built <=> not linear (a non-numeric operand or observable * observable)" if not np_unrejected else
               "a numpy scalar / array operand that is neither float nor int is rejected when the expression is built", impl_rej == exp_rej, case,
               detail={"impl_rejected": impl_rej, "impl_raised": impl_err, "expected_rejected": exp_rej,
                       "built": None if obj is None else type(obj).__name__ + ":" + repr(obj)[:120]},
               sig=SIG_NUMPY if np_unrejected else f"{sig}/build-outcome", theorem=THEOREMS["error"])
    if not impl_rej and not exp_rej:
        ctx.oracle("result is an observable iff the expression mentions one", isinstance(obj, ObservableBase) == (cls == "obs"), case,
                   detail={"type": type(obj).__name__, "class": cls}, sig=f"{sig}/result-kind", theorem="C16_result_is_observable")
    impl_apply = impl_stats = impl_stats_err = None
    if impl_rej != exp_rej:
        return  # already a violation; nothing sensible to evaluate further
    if leaf_err is not None or any(d not in ("f64", "f32") for d in leafdt):
        return  # the parts have no (floating-point) values on this batch: the value of the composite is not constrained
    # rounding allowance per sample (see err_bound): all parts float64 -> the usual 1e-9 * scale; otherwise only where float32 parts meet
    bnd = np.array([err_bound(expr, [abs(float(lv[k])) for lv in leafvals], leafdt)[2] for k in range(B)]) if carrier == "float" else np.zeros(B)
    root_dt = err_bound(expr, [1.0] * len(leaves), leafdt)[1] if leafdt else "f64"
    if isinstance(obj, ObservableBase):
        lay = case.get("layout", "contig")   # the batch handed to the composite: contiguous / strided view of a larger buffer / transposed
        ctx.count(f"layout={lay}")
        try:
            t1, back1 = make_batch(case["samples"], case["n"], lay, dt)
            impl_apply = obj.apply(st, t1).detach().numpy().astype(np.float64)
            t2, back2 = make_batch(case["samples"], case["n"], lay, dt)
            try:
                impl_stats = obj.statistics_from_samples(st, t2)
            except Exception as e:  # noqa: BLE001 - statistics of NOTHING (B = 0) are not constrained: any exception (or any returned value) is as good
                if B != 0:
                    raise
                impl_stats_err = type(e).__name__
            ctx.oracle("apply / statistics_from_samples leave the batch (and the rest of its buffer) unchanged",
                       bool(torch.equal(t1, samples)) and bool(torch.equal(t2, samples)) and outside_untouched(back1, lay)
                       and outside_untouched(back2, lay), case, sig=f"{sig}/no-mutation")
        except Exception as e:  # noqa: BLE001
            ctx.oracle("apply / statistics_from_samples of a built composite do not raise", False, case,
                       detail={"raised": type(e).__name__, "msg": str(e)[:200]}, sig=f"{sig}/apply-raised", theorem=THEOREMS["apply"])
            return
        if B == 0:
            # statistics of NOTHING are not constrained by the property: the library raises ZeroDivisionError (as the model does); any other
            # exception, undefined (nan) statistics or anything else returned is as good - counted, never compared (audit 2, C16-3)
            ctx.count("empty_batch"); ctx.count(f"empty_batch:statistics_from_samples:{impl_stats_err or 'returned'}")
            ctx.oracle("empty batch: apply returns no value", impl_apply.size == 0, case,
                       detail={"apply_shape": list(impl_apply.shape)}, sig=f"{sig}/empty-batch", theorem=THEOREMS["apply"])
        # oracle: apply == the arithmetic expression on the leaves' values
        if carrier == "int":
            ivals = [[int(v) for v in lv] for lv in leafvals]
            want = [interp(expr, [lv[s] for lv in ivals]) for s in range(B)]
            ok = all(float(v).is_integer() for v in impl_apply) and [int(v) for v in impl_apply] == [int(w) for w in want] \
                and all(float(w) == float(int(w)) for w in want)
            want_f = np.array([float(w) for w in want])
        else:
            want_f = np.array([float(interp(expr, [lv[s] for lv in leafvals])) for s in range(B)])
            sc = max([1.0] + [interp_abs(expr, [abs(float(lv[s])) for lv in leafvals]) for s in range(B)])
            tol = (bnd + 1e-12 * sc) if dtype_regime else 1e-9 * sc
            ok = impl_apply.shape == want_f.shape and bool(np.all(np.abs(impl_apply - want_f) <= tol))
        ctx.oracle("apply == expression(leaf values)" + (" (float64 parts enter with float64 precision; rounding only where float32 parts meet)"
                                                         if dtype_regime else ""), ok, case,
                   detail={"impl": impl_apply.tolist(), "expected": want_f.tolist(), "batch_dtype": dt, "leaf_value_dtypes": leafdt,
                           "max_abs_diff": float(np.max(np.abs(impl_apply - want_f))) if impl_apply.shape == want_f.shape and B else None,
                           "allowed": (float(np.max(bnd)) if dtype_regime and B else None)},
                   sig=f"{sig}/apply-oracle" + ("/mixed-dtypes" if dtype_regime else ""), theorem=THEOREMS["apply"])
        # oracle: statistics are those of the combined per-sample value (B >= 1; see above for B = 0)
        m = float(np.mean(want_f)) if B else float("nan")
        v = float(np.var(want_f, ddof=1)) if B > 1 else float("nan")
        se = math.sqrt(v / B) if B > 1 and v >= 0 else float("nan")
        vs = max([1.0] + [abs(float(x)) for x in want_f])
        # tolerances: float64 values -> 1e-9; values that are float32 tensors -> their statistics are float32 reductions; plus what the
        # per-sample rounding allowance can move a mean / a variance
        bmax = float(np.max(bnd)) if dtype_regime and B else 0.0
        tm = (1e-5 if (dtype_regime and root_dt == "f32") else 1e-9) * vs + bmax
        tv = (1e-5 if (dtype_regime and root_dt == "f32") else 1e-9) * vs * vs + 4 * vs * bmax
        tse = (1e-7 * vs) if not dtype_regime else (math.sqrt(tv / max(B, 1)) + 1e-7 * vs)
        okS = B == 0 or (impl_stats["num_samples"] == B and abs(impl_stats["mean"] - m) <= tm
               and ((math.isnan(v) and math.isnan(impl_stats["variance"]) and math.isnan(impl_stats["std_error"])) or
                    (abs(impl_stats["variance"] - v) <= tv and abs(float(impl_stats["std_error"]) - se) <= tse)))
        if B:
            ctx.oracle("statistics == statistics of expression(leaf values)", bool(okS), case,
                       detail={"impl": None if impl_stats is None else {k: float(x) for k, x in impl_stats.items()}, "expected": [m, v, se, B]},
                       sig=f"{sig}/stats-oracle", theorem=THEOREMS["stats"])

    # ---- model
    if ctx.driver is None:
        return
    if carrier == "int":
        vals = [[int(v) for v in lv] for lv in leafvals]
    else:
        vals = [bits(lv) for lv in leafvals]
    mod = ctx.driver.call("c16.build", carrier=carrier, expr=to_driver(expr, carrier), vals=vals, batch=B)
    mod_err = mod.get("error")
    # the model's error KIND (`firstError`: which offending node is met first, TypeError / ValueError) is reduced to rejected-or-built
    # before it is compared; whether the kinds agree is an informational counter
    ctx.point("rejected when built", "property", impl_rej, mod_err is not None, case, exact=True, theorem=THEOREMS["error"], sig=f"{sig}/rejected")
    if impl_rej and mod_err is not None:
        ctx.count("rejected:exception_kind_as_modelled" if impl_err == mod_err else f"rejected:exception_kind_not_as_modelled:{impl_err}_for_{mod_err}")
    if mod_err is not None or impl_rej:
        return
    if mod["kind"] == "scalar":
        # observable-free expression: plain Python arithmetic on both sides
        if kind_of(obj) == "bad":
            iv = 0 if carrier == "int" else 0.0
        else:
            iv = (int(obj) if carrier == "int" and float(obj).is_integer() else float(obj) + 0.0)
        mt = canon_tree(mod["tree"], carrier)
        ctx.point("scalar result", "aux", ["scal", kind_of(obj), iv], mt, case, exact=True, sig=f"{sig}/scalar")
        return
    if not isinstance(obj, ObservableBase):
        ctx.point("result kind", "property", type(obj).__name__, "observable", case, exact=True, sig=f"{sig}/result-kind",
                  theorem="C16_result_is_observable")
        return
    # the internal layout of the built object (.left/.right, stored scalar types) is NOT constrained by the property: a re-arrangement with
    # the same apply values is as good. Recorded in the input distribution only (never a mismatch)
    ctx.count("structure_as_modelled" if describe(obj, leaves, carrier) == canon_tree(mod["tree"], carrier) else "structure_differs_from_model")
    if carrier == "int":
        ia = [int(v) if float(v).is_integer() else float(v) for v in impl_apply]
        ctx.point("apply", "property", ia, mod["apply"], case, exact=True, theorem=THEOREMS["apply"], sig=f"{sig}/apply")
        ctx.point("model apply == model eval", "aux", mod["eval"], mod["apply"], case, exact=True, sig=f"{sig}/apply-eval")
        modf = ctx.driver.call("c16.build", carrier="float", expr=to_driver(expr, "float"), vals=[bits(lv) for lv in leafvals], batch=B)
        sc = max([1.0] + [abs(float(x)) for x in impl_apply])
    else:
        sc = max([1.0] + [interp_abs(expr, [abs(float(lv[s])) for lv in leafvals]) for s in range(B)])
        # mixed element types: the model (float64 throughout) and the implementation may differ by the rounding allowance, and by no more
        ptol = {"rtol": 1e-11, "atol": (float(np.max(bnd)) if B else 0.0) / sc + 1e-12} if dtype_regime else {}
        ctx.point("apply", "property", impl_apply, unbits(mod["apply"]), case, scale=sc, theorem=THEOREMS["apply"],
                  sig=f"{sig}/apply" + ("/mixed-dtypes" if dtype_regime else ""), **ptol)
        ctx.point("model apply == model eval", "aux", unbits(mod["eval"]), unbits(mod["apply"]), case, scale=sc, sig=f"{sig}/apply-eval")
        modf = mod
    if B == 0:
        return   # statistics of an empty batch: not constrained, not compared (the model's fromSamples reports ZeroDivisionError there)
    ms = modf["stats"]
    if "error" in ms:
        # B >= 1 and the implementation returned statistics (an exception would have been reported above): the MODEL has none
        ctx.point("statistics_from_samples: model has statistics", "property", "ok", ms.get("error"), case, exact=True, sig=f"{sig}/stats",
                  theorem=THEOREMS["stats"])
        return
    if dtype_regime:
        # statistics of values that are (partly) float32: float32 reductions / per-sample rounding allowance (see the stats oracle above)
        a = (1e-5 if root_dt == "f32" else 1e-9) + 4 * (float(np.max(bnd)) if B else 0.0) / sc
        stol, setol = {"atol": a}, {"rtol": 1e-5, "atol": math.sqrt(a) + 1e-7}
    else:
        stol, setol = {}, {"rtol": 1e-5, "atol": 1e-7}
    ctx.point("stats.mean", "property", [impl_stats["mean"]], unbits([ms["mean"]]), case, scale=sc, theorem=THEOREMS["stats"], sig=f"{sig}/stats", **stol)
    ctx.point("stats.variance", "property", [impl_stats["variance"]], unbits([ms["variance"]]), case, scale=sc * sc,
              theorem=THEOREMS["stats"], sig=f"{sig}/stats", **stol)
    ctx.point("stats.std_error", "property", [float(impl_stats["std_error"])], unbits([ms["std_error"]]), case, scale=sc,
              theorem=THEOREMS["stats"], sig=f"{sig}/stats", **setol)
    ctx.point("stats.num_samples", "property", impl_stats["num_samples"], ms["n"], case, exact=True, theorem=THEOREMS["stats"],
              sig=f"{sig}/stats")


# ---------------------------------------------------------------- the constructors called directly
def ctor_case(ctx, case):
    """`SumObservable(a, b)` / `ProdObservable(a, b)` called directly on operands obtained from the expressions `a`, `b` (observables, composites,
    scalars of every kind, non-numeric values): rejected or built (the exception class is counted, not compared), apply vs `a + b` / `a * b` on
    the leaves' values.
    Two plain numbers are ACCEPTED by SumObservable (no observable inside: outside the property; apply returns a Python float)."""
    which, ea, eb = case["ctor"], case["a"], case["b"]
    mode = case["mode"]
    carrier = "int" if mode == "mock" else "float"
    leaves = [make_leaf(sp, i) for i, sp in enumerate(case["leaves"])]
    st = make_state(case["state"])
    dt = case.get("dtype", "f64")
    samples = make_batch(case["samples"], case["n"], "contig", dt)[0]
    B = len(case["samples"])
    ca, cb = classify(ea), classify(eb)
    ctx.case({"ctor": which, "a": ea, "b": eb, "leaves": case["leaves"]}, nontrivial=ca[0] == "obs" or cb[0] == "obs",
             sample={"ctor": which, "a": ea, "b": eb})
    ctx.count(f"ctor={which}"); ctx.count(f"ctor_operands={ca[0]},{cb[0]}")
    if ca[1] or cb[1]:
        return  # operands are built with the operators first; their own failures are the business of one_case
    if ca[0] == "num" and cb[0] == "num":
        # no observable and no non-numeric operand involved: SumObservable(2, 3) is accepted (its apply returns one Python float and its
        # statistics_from_samples raises AttributeError), ProdObservable(2, 3) is a ValueError. Not an "observable built from observables
        # and scalars": outside the property, executed and recorded only
        try:
            (SumObservable if which == "sum" else ProdObservable)(py_build(ea, leaves), py_build(eb, leaves))
            ctx.count(f"ctor_{which}_of_two_numbers_accepted")
        except Exception as e:  # noqa: BLE001
            ctx.count(f"ctor_{which}_of_two_numbers_{type(e).__name__}")
        return
    va, vb = py_build(ea, leaves), py_build(eb, leaves)
    # independent classification of the constructor call
    if "bad" in (ca[0], cb[0]):
        exp_err = "TypeError"
    elif which == "prod" and (ca[0] == "obs") == (cb[0] == "obs"):
        exp_err = "ValueError"
    else:
        exp_err = None
    impl_err, obj = None, None
    try:
        obj = (SumObservable if which == "sum" else ProdObservable)(va, vb)
    except Exception as e:  # noqa: BLE001
        impl_err = type(e).__name__
    sig = f"ctor/{which}"
    impl_rej, exp_rej = impl_err is not None, exp_err is not None
    if impl_rej and exp_rej:   # the exception class: informational
        ctx.count("ctor_rejected:exception_kind_as_classified" if impl_err == exp_err else f"ctor_rejected:exception_kind_differs:{impl_err}_for_{exp_err}")
    ctx.oracle("constructor: rejected for a non-numeric operand and for a product of two observables, else built",
               impl_rej == exp_rej, case, detail={"impl_rejected": impl_rej, "impl_raised": impl_err, "expected_rejected": exp_rej},
               sig=f"{sig}/outcome", theorem=THEOREMS["ctor"])
    if impl_rej != exp_rej:
        return
    ctx.count(f"ctor_batch_dtype={dt}")
    try:
        lts = [l.apply(st, samples.clone()).detach() for l in leaves]
    except Exception as e:  # noqa: BLE001 - a part refuses this batch (element type): the composite's value is not constrained
        ctx.count(f"ctor:a_leaf_refuses_the_batch:{dt}:{type(e).__name__}")
        return
    leafdt = [dtype_name(x) for x in lts]
    if any(d not in ("f64", "f32") for d in leafdt):
        return
    leafvals = [x.numpy().astype(np.float64).copy() for x in lts]
    dtype_regime = carrier == "float" and any(d != "f64" for d in leafdt)
    spec = ["add" if which == "sum" else "mul", ea, eb]
    bnd = np.array([err_bound(spec, [abs(float(lv[k])) for lv in leafvals], leafdt)[2] for k in range(B)]) if dtype_regime else np.zeros(B)
    got = None
    if impl_err is None:
        got = obj.apply(st, samples.clone())
        got = got.detach().numpy().astype(np.float64)
        want = np.array([float(interp(spec, [lv[k] for lv in leafvals])) for k in range(B)])
        sc0 = max([1.0] + [interp_abs(spec, [abs(float(lv[k])) for lv in leafvals]) for k in range(B)])
        tol = (bnd + 1e-12 * sc0) if dtype_regime else 1e-9 * sc0
        ctx.oracle("constructor: apply == (a + b | a * b) on the leaves' values",
                   got.shape == want.shape and bool(np.all(np.abs(got - want) <= tol)), case,
                   detail={"impl": got.tolist(), "expected": want.tolist(), "batch_dtype": dt, "leaf_value_dtypes": leafdt},
                   sig=f"{sig}/apply-oracle" + ("/mixed-dtypes" if dtype_regime else ""), theorem=THEOREMS["ctor_value"])
    if ctx.driver is None:
        return
    vals = [[int(v) for v in lv] for lv in leafvals] if carrier == "int" else [bits(lv) for lv in leafvals]
    m = ctx.driver.call("c16.ctor", carrier=carrier, which=which, a=to_driver(ea, carrier), b=to_driver(eb, carrier), vals=vals, batch=B)
    if "operand_error" in m:
        ctx.point("constructor operands", "aux", None, m["operand_error"], case, exact=True, sig=f"{sig}/operands")
        return
    ctx.point("constructor: rejected", "property", impl_rej, "error" in m, case, exact=True, theorem=THEOREMS["ctor"], sig=f"{sig}/rejected")
    if impl_rej or "error" in m:
        return
    ctx.count("ctor_structure_as_modelled" if describe(obj, leaves, carrier) == canon_tree(m["tree"], carrier) else "ctor_structure_differs_from_model")
    if carrier == "int":
        ctx.point("constructor: apply", "property", [int(v) if float(v).is_integer() else float(v) for v in got], m["apply"], case, exact=True,
                  theorem=THEOREMS["ctor_value"], sig=f"{sig}/apply")
    else:
        scp = max([1.0] + [abs(float(x)) for x in got])
        ptol = {"rtol": 1e-11, "atol": (float(np.max(bnd)) if B else 0.0) / scp + 1e-12} if dtype_regime else {}
        ctx.point("constructor: apply", "property", got, unbits(m["apply"]), case, scale=scp,
                  theorem=THEOREMS["ctor_value"], sig=f"{sig}/apply" + ("/mixed-dtypes" if dtype_regime else ""), **ptol)
    ctx.point("constructor: model apply == model eval", "aux", m["eval"], m["apply"], case, exact=True, sig=f"{sig}/apply-eval")


# ---------------------------------------------------------------- fixed cases worth always running
def fixed_cases():
    mock = [{"type": "mock", "w": [1, -2, 3], "off": 1}, {"type": "mock", "w": [0, 2, -1], "off": -2}]
    samples = [[0, 1, 1], [1, 0, 0], [1, 1, 1], [0, 0, 0]]
    L0, L1 = ["leaf", 0], ["leaf", 1]
    exprs = [
        ["add", ["sub", ["neg", L0], ["mul", ["const", "int", 3], L1]], ["const", "int", 1]],  # the repo's smoke-test shape
        ["sub", ["const", "int", 2], L0], ["sub", ["const", "npfloat", 2.0], L0], ["sub", L0, ["const", "bool", 1]],
        ["sub", ["const", "float", -3.0], ["sub", ["const", "int", 1], ["sub", L0, L1]]],
        ["mul", ["const", "int", 0], L0], ["mul", L0, ["const", "npfloat", -2.0]], ["mul", ["const", "bool", 1], L1],
        ["neg", ["neg", ["sub", L0, L0]]], ["add", ["const", "int", 2], ["add", ["const", "int", 3], L0]],
        ["add", ["add", ["const", "int", 2], ["const", "float", 3.0]], L0],
        ["mul", L0, L1], ["mul", ["add", L0, ["const", "int", 1]], ["neg", L1]],
        ["add", L0, ["const", "bad", 0, "None"]], ["add", ["const", "bad", 0, "str"], L0], ["mul", ["const", "bad", 0, "str"], L0],
        ["sub", L0, ["const", "bad", 0, "complex"]], ["sub", L0, ["const", "bad", 0, "str"]], ["sub", ["const", "bad", 0, "None"], L0],
        ["neg", ["const", "bad", 0, "None"]], ["add", ["mul", L0, L1], ["const", "bad", 0, "None"]],
        ["mul", ["add", L0, ["const", "bad", 0, "None"]], L1], ["mul", ["const", "int", 2], ["const", "bad", 0, "None"]],
        ["mul", ["const", "int", 2], ["const", "float", 3.0]],
        # numpy.float64 (a float subclass) on the LEFT of each operator: accepted, the numpy scalar itself is stored
        ["add", ["const", "npfloat", 2.0], L0], ["sub", ["const", "npfloat", -1.0], L1], ["mul", ["const", "npfloat", 3.0], L0],
        ["mul", ["const", "npfloat", 2.0], ["sub", ["const", "npfloat", 1.0], L0]],
    ]
    # numpy scalars that are not float/int instances, arrays, tensors, lists: rejected in EITHER operand position of every operator
    for tag in ("ndarray", "ndarray_int", "ndarray0", "npint64", "npint32", "npfloat32", "tensor", "tensor0", "list", "fraction"):
        bad = ["const", "bad", 0, tag]
        for op in OPS2:
            exprs.append([op, bad, L0])
            if (op, tag) != ("sub", "ndarray0"):   # `obs - np.array(2.0)`: numpy's unary minus turns the 0-d array into a numpy.float64 first
                exprs.append([op, L1, bad])
        exprs.append(["add", ["mul", bad, ["sub", L0, ["const", "int", 1]]], L1])
    for e in exprs:
        yield {"mode": "mock", "stream": "fixed", "n": 3, "leaves": mock, "expr": e, "samples": samples, "state": None}
    A = ["mul", ["const", "int", 2], L0]
    for e in (["sub", A, A], ["add", ["neg", A], A], ["add", ["sub", ["const", "int", 1], A], A], ["sub", ["neg", ["neg", A]], A],
              ["add", ["sub", L1, ["neg", L0]], ["neg", L0]]):
        yield {"mode": "mock", "stream": "fixed", "n": 3, "leaves": mock, "expr": e, "samples": samples, "state": None, "share": True}
    # an empty batch (B = 0): apply returns an empty tensor, statistics_from_samples raises ZeroDivisionError
    for e in exprs[:3] + exprs[9:11]:
        yield {"mode": "mock", "stream": "fixed", "n": 3, "leaves": mock, "expr": e, "samples": [], "state": None}
    # the constructors called directly
    S = lambda k, c: ["const", k, c]  # noqa: E731
    bad = ["const", "bad", 0, "None"]
    operands = [L0, L1, ["neg", L0], ["mul", S("int", 2), L1], S("int", 2), S("float", -1.0), S("bool", 1), S("npfloat", 3.0), S("int", 0),
                bad, ["const", "bad", 0, "npint64"], ["const", "bad", 0, "ndarray"], ["const", "bad", 0, "str"]]
    for which in ("sum", "prod"):
        for a in operands:
            for b in operands:
                yield {"ctor": which, "mode": "mock", "stream": "ctor", "n": 3, "leaves": mock, "a": a, "b": b, "samples": samples, "state": None}


def fixed_dtype_cases():
    """element types of the batch and of the parts' values, systematically: every composite SHAPE (sum, difference, scalar on either side,
    nested sums, negation, scalar multiples) x every ORDER of a float32-valued part D and a float64-valued part O, on float32 / int64 batches
    (built-in observables: SigmaZ / NeighbourInteraction return the batch's float type (float32 for integers), SigmaX / SigmaY / SWAP
    float64) and on float64 batches with user-written parts of a fixed element type; all memory layouts"""
    import random

    rng = random.Random(1606)
    n = 3
    samples = [[0, 1, 1], [1, 0, 0], [1, 1, 1], [0, 0, 0], [1, 0, 1]]
    D, O = ["leaf", 0], ["leaf", 1]
    c1, c2, c3 = ["const", "float", 0.3], ["const", "int", 2], ["const", "npfloat", -1.7]
    shapes = [
        ["add", D, O], ["add", O, D], ["sub", D, O], ["sub", O, D], ["add", ["add", D, c1], O], ["sub", ["add", c2, D], O],
        ["add", O, ["sub", D, c1]], ["add", ["neg", O], ["add", D, O]], ["add", ["sub", D, c2], ["add", O, c1]],
        ["add", ["mul", c3, D], O], ["add", D, ["mul", O, c3]], ["sub", ["mul", D, c1], ["mul", c2, O]], ["sub", c1, ["add", D, O]],
        ["neg", ["add", D, O]], ["mul", c3, ["add", D, O]], ["mul", ["sub", O, D], c1], ["add", ["add", D, D], O], ["add", D, ["add", D, O]],
        ["sub", ["sub", c2, O], D], ["add", c1, ["add", c3, ["sub", D, O]]],
    ]
    typed32 = {"type": "typed", "w": [0.7, -1.3, 0.1], "off": 0.2, "out": "f32"}
    typed64 = {"type": "typed", "w": [-0.9, 0.4, 1.1], "off": -0.6, "out": "f64"}
    sets = [
        ("pos", "f32", [{"type": "SigmaZ", "absolute": False}, {"type": "SigmaX", "absolute": False}]),
        ("pos", "f32", [{"type": "NI", "periodic": False, "c": 1}, {"type": "SWAP", "A": [0, 2]}]),
        ("cplx", "f32", [{"type": "SigmaZ", "absolute": True}, {"type": "SigmaY", "absolute": False}]),
        ("cplx", "i64", [{"type": "NI", "periodic": True, "c": 2}, {"type": "SigmaX", "absolute": True}]),
        ("pos", "i64", [{"type": "NI", "periodic": False, "c": 2}, {"type": "SigmaX", "absolute": False}]),
        ("pos", "f64", [typed32, typed64]), ("cplx", "f64", [typed32, {"type": "SigmaY", "absolute": False}]),
        ("dens", "f32", [{"type": "SigmaZ", "absolute": False}, typed64]), ("dens", "i64", [{"type": "NI", "periodic": False, "c": 1}, typed64]),
    ]
    k = 0
    for kind, dt, leaves in sets:
        st = gen_state(rng, n)
        while st["kind"] != kind:
            st = gen_state(rng, n)
        for e in shapes:
            k += 1
            # the options of the built-in parts in this case's argument forms (stream chosen by the case index: fixed cases stay fixed)
            lv = [dict(sp, af=1606 * k + j) if sp["type"] in ("SigmaX", "SigmaY", "SigmaZ", "NI") else sp for j, sp in enumerate(leaves)]
            yield {"mode": "real", "stream": "dtype", "n": n, "leaves": lv, "expr": e, "samples": samples, "state": st,
                   "layout": LAYOUTS[k % len(LAYOUTS)], "dtype": dt, "share": k % 7 == 0}


def gen_cases(ctx, scale):
    rng = ctx.rng
    yield from fixed_cases()
    yield from fixed_dtype_cases()
    for _ in range(40 * scale):
        for depth in (1, 2, 3, 4, 5, 6):
            yield gen_case(rng, "mock", "valid", depth)
    for _ in range(12 * scale):
        for depth in (1, 2, 3, 4, 6):
            yield gen_case(rng, "real", "valid", depth)
    for _ in range(25 * scale):
        yield gen_case(rng, "mock", "fault", rng.randrange(1, 6))
        yield gen_case(rng, "mock", "wild", rng.randrange(1, 5))
    for _ in range(4 * scale):
        yield gen_case(rng, "real", "fault", rng.randrange(1, 5))
    # one sub-expression object used several times in the expression (building must not modify operands)
    for k in range(30 * scale):
        yield gen_case(rng, "real" if k % 5 == 4 else "mock", "shared", 0)
    # the constructors called directly on random operands (composites, scalars), mock and real leaves
    for k in range(12 * scale):
        mode = "real" if k % 3 == 2 else "mock"
        c = gen_case(rng, mode, "valid", 1)
        nl = len(c["leaves"])
        pick = lambda: (gen_obs_expr(rng, mode, rng.randrange(0, 3), nl, False) if rng.random() < 0.6 else gen_scal_expr(rng, mode, 1))  # noqa: E731
        del c["expr"]
        yield {**c, "stream": "ctor", "ctor": rng.choice(["sum", "prod"]), "a": pick(), "b": pick()}


# ---------------------------------------------------------------- call history on the same objects + statistics() of composites
STAT_PAIRS = [(10, 4), (7, 3), (5, 2), (9, 4), (6, 3), (4, 1), (3, 1), (5, 0), (3, 7), (2, 2), (1, 1), (8, 5), (1, 0), (6, 4)]


def rand_like(rng, s):
    """new parameters for the same architecture"""
    n, h, scale = s["n"], s["h"], rng.choice([0.1, 0.5, 1.0])
    if s["kind"] == "pos":
        return {**s, "am": qc.rand_rbm_params(rng, n, h, scale)}
    if s["kind"] == "cplx":
        return {**s, "am": qc.rand_rbm_params(rng, n, h, scale), "ph": qc.rand_rbm_params(rng, n, h, scale)}
    return {**s, "am": qc.rand_prbm_params(rng, n, h, s["a"], scale), "ph": qc.rand_prbm_params(rng, n, h, s["a"], scale)}


def reparam_in_place(st, s):
    if s["kind"] == "dens":
        qc.set_prbm(st.rbm_am, s["am"], inplace=True); qc.set_prbm(st.rbm_ph, s["ph"], inplace=True)
    else:
        qc.set_rbm(st.rbm_am, s["am"], inplace=True)
        if s["kind"] == "cplx":
            qc.set_rbm(st.rbm_ph, s["ph"], inplace=True)


def gen_history(rng, mode, depth):
    """a valid expression + the sequence of evaluations made with the one composite object built from it"""
    c = gen_case(rng, mode, "valid", depth, dtypes=False)
    n, B = c["n"], len(c["samples"])
    if c["state"] is None:   # mock leaves ignore the state, but statistics() needs a sampler
        c["state"] = {"kind": "pos", "n": n, "h": 2, "am": qc.rand_rbm_params(rng, n, 2, 0.5)}
    mk = lambda m, k: [[rng.randrange(2) for _ in range(m)] for _ in range(k)]  # noqa: E731
    c["hist"] = True
    c["state2"] = rand_like(rng, c["state"])
    c["samples2"] = mk(n, B)
    c["samples3"] = mk(n, rng.choice([b for b in (1, 2, 3, 5, 7) if b != B]))
    # chains of other lengths (real leaves only: a mock leaf's weight vector has a fixed length)
    c["others"] = []
    if mode == "real":
        need = max([max(sp["A"]) + 2 for sp in c["leaves"] if sp["type"] == "SWAP"] + [1])
        for m in (n + 1, n + 2, n - 1):
            if m >= need and m >= 1 and rng.random() < 0.8:
                c["others"].append({"state": gen_state(rng, m), "samples": mk(m, rng.choice([1, 2, 4]))})
    stats = []
    for (ns, nc) in rng.sample(STAT_PAIRS, 3) + [(rng.randrange(1, 10), rng.randrange(0, 11))]:
        user = rng.choice([None, None, "f64", "f32"])
        stats.append({"ns": ns, "nc": nc, "burn_in": rng.randrange(0, 3), "steps": rng.randrange(0, 3), "seed": rng.randrange(1 << 30),
                      "user": user, "rows": None if user is None else mk(n, rng.randrange(1, 4)), "overwrite": rng.random() < 0.5,
                      "af": af.new_seed(rng)})
    c["stats"] = stats
    # composite.sample(nn_state, k, num_samples | initial_state) (audit 2, C16-2): fresh chains or the caller's chains
    c["sample_calls"] = []
    for _ in range(2):
        own = rng.random() < 0.35
        c["sample_calls"].append({"k": rng.randrange(0, 4), "m": rng.randrange(1, 6), "seed": rng.randrange(1 << 30),
                                  "rows": mk(n, rng.randrange(1, 4)) if own else None, "overwrite": rng.random() < 0.5})
    return c


def leaf_values(leaf_specs, state_spec, rows):
    """values of FRESH leaf observables on a fresh state with the given parameters and a fresh tensor with the given content"""
    leaves = [make_leaf(sp, i) for i, sp in enumerate(leaf_specs)]
    st = make_state(state_spec)
    t = torch.tensor(rows, dtype=torch.double).reshape(len(rows), state_spec["n"])
    return [l.apply(st, t.clone()).detach().numpy().astype(np.float64).copy() for l in leaves]


def expected_values(ctx, expr, leaf_specs, state_spec, rows):
    """the composite's per-sample values as the property states them: the expression applied to the values of FRESH leaf
    observables on a fresh state with the given parameters and a fresh tensor with the given content; through the model when a
    driver is attached, else through the independent interpreter.  -> (values, scale)"""
    leaves = [make_leaf(sp, i) for i, sp in enumerate(leaf_specs)]
    st = make_state(state_spec)
    n = state_spec["n"]
    B = len(rows)
    t = torch.tensor(rows, dtype=torch.double).reshape(B, n)
    lv = [l.apply(st, t.clone()).detach().numpy().astype(np.float64).copy() for l in leaves]
    sc = max([1.0] + [interp_abs(expr, [abs(float(v[k])) for v in lv]) for k in range(B)])
    if ctx.driver is not None:
        mod = ctx.driver.call("c16.build", carrier="float", expr=to_driver(expr, "float"), vals=[bits(v) for v in lv], batch=B)
        return (unbits(mod["apply"]) if B else np.zeros(0)), sc
    return np.array([float(interp(expr, [v[k] for v in lv])) for k in range(B)]), sc


def history_case(ctx, case):
    """ONE composite object (and ONE state object, ONE sample tensor object) used along a sequence of calls:
    apply; apply after the sample tensor was overwritten in place; apply after the state was re-parametrised in place; a batch of
    another length; chains of other lengths; statistics_from_samples; statistics() for several (num_samples, num_chains) with
    nn_state.sample wrapped on the instance (chain states captured at every draw); apply once more.  Every result is compared with
    the expression over fresh leaves for the CURRENT parameters / content (model of C16) and, for statistics(), with the model of
    C13 (`c13.statistics`) and the exact one-pass statistics of all drawn values."""
    from .c13 import exact_stats, record_run, stat_close

    expr, specs, n = case["expr"], case["leaves"], case["n"]
    leaves = [make_leaf(sp, i) for i, sp in enumerate(specs)]
    obj = py_build(expr, leaves)
    if not isinstance(obj, ObservableBase):
        return
    sig = f"{case['mode']}/history"
    ctx.case({"hist": [specs, expr, case["samples"], case["stats"]]}, nontrivial=stats_of(expr)["ops"] >= 2,
             sample={"mode": case["mode"], "history": True, "expr": expr, "leaves": [sp["type"] for sp in specs],
                     "stats": [(q["ns"], q["nc"], q["user"]) for q in case["stats"]]})
    ctx.count("history_case"); ctx.count(f"history:mode={case['mode']}")
    cur = case["state"]
    st = make_state(cur)
    B = len(case["samples"])
    t = torch.tensor(case["samples"], dtype=torch.double).reshape(B, n)
    t3 = torch.tensor(case["samples3"], dtype=torch.double).reshape(len(case["samples3"]), n)

    def check_apply(step, state_obj, state_spec, tensor, rows):
        sub = {**case, "step": step}
        before = tensor.numpy().tobytes()
        try:
            got = obj.apply(state_obj, tensor).detach().numpy().astype(np.float64)
        except Exception as e:  # noqa: BLE001
            ctx.oracle("history: apply of a built composite does not raise", False, sub, detail={"raised": type(e).__name__, "msg": str(e)[:200]},
                       sig=f"{sig}/apply-raised", theorem=THEOREMS["apply"])
            return
        want, sc = expected_values(ctx, expr, specs, state_spec, rows)
        if ctx.driver is not None:
            ctx.point(f"history[{step}]: apply", "property", got, want, sub, scale=sc, theorem=THEOREMS["apply"], sig=f"{sig}/apply")
        else:
            ctx.oracle(f"history[{step}]: apply == expression(current leaf values)",
                       got.shape == want.shape and bool(np.all(np.abs(got - want) <= 1e-9 * sc)), sub,
                       detail={"impl": got.tolist(), "expected": want.tolist()}, sig=f"{sig}/apply-oracle", theorem=THEOREMS["apply"])
        ctx.oracle("history: apply leaves the sample tensor unchanged", tensor.numpy().tobytes() == before, sub, sig=f"{sig}/no-mutation")

    check_apply("first", st, cur, t, case["samples"])
    t.copy_(torch.tensor(case["samples2"], dtype=torch.double).reshape(B, n))
    check_apply("samples overwritten in place", st, cur, t, case["samples2"])
    cur = case["state2"]
    reparam_in_place(st, cur)
    check_apply("state re-parametrised in place", st, cur, t, case["samples2"])
    check_apply("other batch length", st, cur, t3, case["samples3"])
    for k, o in enumerate(case["others"]):
        so = make_state(o["state"])
        to = torch.tensor(o["samples"], dtype=torch.double).reshape(len(o["samples"]), o["state"]["n"])
        check_apply(f"other chain length #{k} (n={o['state']['n']})", so, o["state"], to, o["samples"])
    t.copy_(torch.tensor(case["samples"], dtype=torch.double).reshape(B, n))
    check_apply("back to the first content", st, cur, t, case["samples"])

    # ---- statistics_from_samples on the reused tensor, statistics() with several draws
    def check_stats(label, d, chunks, sub, T=None, c=None, ns=None, model_args=None):
        allv = [float(x) for ch in chunks for x in ch]
        M, V, N = exact_stats(allv)
        sc = max(1.0, max(abs(x) for x in allv))
        ok = (d["num_samples"] == N and stat_close(d["mean"], M, sc, 1e-9)
              and (stat_close(d["variance"], V, sc * sc, 1e-9) if V is not None else math.isnan(d["variance"]))
              and (stat_close(float(d["std_error"]), math.sqrt(max(float(V), 0.0) / N), sc, 1e-7) if V is not None
                   else math.isnan(float(d["std_error"]))))
        if T is not None:
            ok = ok and N == T * c and N >= ns
        ctx.oracle(f"{label} == one-pass statistics of expression(current leaf values) over every drawn sample", bool(ok), sub,
                   detail={"impl": {k: float(x) for k, x in d.items()}, "expected": [float(M), None if V is None else float(V),
                           None if V is None else math.sqrt(max(float(V), 0.0) / N), N]}, sig=f"{sig}/stats-oracle", theorem=THEOREMS["stats"])
        if ctx.driver is not None and model_args is not None:
            m = ctx.driver.call("c13.statistics", chunks=[[bits(ch) for ch in chunks]], **model_args)
            mres = m["result"][0]
            if "error" in mres:
                ctx.point(f"{label}: error kind", "property", None, mres["error"], sub, exact=True, sig=f"{sig}/stats-error", theorem=THEOREMS["stats"])
                return
            for key, lvl, mm in (("onepass", "property", m["onepass"][0]), ("stream", "aux", mres["stats"])):
                if "error" in mm:
                    ctx.point(f"{label}.{key}", lvl, "ok", mm["error"], sub, exact=True, sig=f"{sig}/{key}")
                    continue
                ctx.point(f"{label}.{key}.mean", lvl, [d["mean"]], unbits([mm["mean"]]), sub, scale=sc, theorem=THEOREMS["stats"], sig=f"{sig}/{key}")
                ctx.point(f"{label}.{key}.variance", lvl, [d["variance"]], unbits([mm["variance"]]), sub, scale=sc * sc, theorem=THEOREMS["stats"],
                          sig=f"{sig}/{key}")
                ctx.point(f"{label}.{key}.std_error", lvl, [float(d["std_error"])], unbits([mm["std_error"]]), sub, scale=sc, rtol=1e-5, atol=1e-7,
                          theorem=THEOREMS["stats"], sig=f"{sig}/{key}")
                ctx.point(f"{label}.{key}.num_samples", lvl, d["num_samples"], mm["n"], sub, exact=True, theorem=THEOREMS["stats"], sig=f"{sig}/{key}")
            ctx.point(f"{label}: draws and chains", "property", [T, c], [m["T"], m["c"]], sub, exact=True, sig=f"{sig}/T-c", theorem="C13_count")

    if B >= 1:
        sub = {**case, "step": "statistics_from_samples"}
        try:
            d = obj.statistics_from_samples(st, t)
            want, _ = expected_values(ctx, expr, specs, cur, case["samples"])
            check_stats("statistics_from_samples", d, [want.tolist()], sub)
        except Exception as e:  # noqa: BLE001
            ctx.oracle("history: statistics_from_samples does not raise", False, sub, detail={"raised": type(e).__name__, "msg": str(e)[:200]},
                       sig=f"{sig}/stats-raised", theorem=THEOREMS["stats"])
    for qi, q in enumerate(case["stats"]):
        sub = {**case, "step": f"statistics #{qi}"}
        ns, nc = q["ns"], q["nc"]
        user = None
        if q["user"] is not None:
            user = torch.tensor(q["rows"], dtype=torch.double if q["user"] == "f64" else torch.float32).reshape(len(q["rows"]), n)
        c_exp = len(q["rows"]) if user is not None else (min(nc, ns) if nc != 0 else ns)
        T_exp = -(-ns // c_exp)
        torch.manual_seed(q["seed"])
        # argument forms (round 5): the counts as numpy / torch integer objects, `overwrite` as a truthy / falsy object, by keyword or
        # positionally; num_samples / num_chains never as a 0-d torch tensor (see notes/C16.md: the clean code then computes the running
        # statistics in float32 tensors); the model and the oracles are told the VALUES ns, nc, burn_in, steps, overwrite
        fm = af.Forms(q.get("af"), ctx, "statistics ")
        a_ns, a_nc = fm.i("num_samples", ns, af.COUNT_INT), fm.i("num_chains", nc, af.COUNT_INT)
        a_bi, a_st, a_ow = fm.i("burn_in", q["burn_in"]), fm.i("steps", q["steps"]), fm.f("overwrite", bool(q["overwrite"]))
        if fm.pos("statistics(nn_state, num_samples, num_chains, burn_in, steps, initial_state, overwrite)"):
            r, err, calls = record_run(st, user, lambda u: obj.statistics(st, a_ns, a_nc, a_bi, a_st, u, a_ow))
        else:
            r, err, calls = record_run(st, user, lambda u: obj.statistics(st, num_samples=a_ns, num_chains=a_nc, burn_in=a_bi, steps=a_st,
                                                                          initial_state=u, overwrite=a_ow))
        ctx.count("history:statistics_runs"); ctx.count("history:nondivisible" if ns % c_exp else "history:divisible")
        if err is not None:
            ctx.oracle("history: statistics() of a composite does not raise", False, sub, detail={"raised": err}, sig=f"{sig}/stats-raised",
                       theorem=THEOREMS["stats"])
            continue
        try:   # the VALUES of what was returned / handed to the sampler (numpy integer objects count by their value)
            r = {k_: (int(v_) if k_ == "num_samples" else float(v_)) for k_, v_ in r.items()}
            for cl in calls:
                cl.update(k=af.plain(cl["k"]), num_samples=af.plain(cl["num_samples"]), overwrite=af.plain(cl["overwrite"]))
        except Exception as e:  # noqa: BLE001
            ctx.oracle("history: statistics() returns numbers (mean, variance, std_error, num_samples)", False, sub,
                       detail={"raised": type(e).__name__, "returned": repr(r)[:300]}, sig=f"{sig}/stats-raised", theorem=THEOREMS["stats"])
            continue
        ctx.oracle("history: statistics() draws ceil(num_samples / chains) times, each continuing the chains of the previous draw",
                   len(calls) == T_exp and all(len(cl["ret_copy"]) == c_exp for cl in calls)
                   and [cl["k"] for cl in calls] == [q["burn_in"]] + [q["steps"]] * (len(calls) - 1)
                   and all(calls[i + 1]["init"] == calls[i]["ret"] and torch.equal(calls[i + 1]["init_copy"], calls[i]["ret_copy"])
                           for i in range(len(calls) - 1)), sub,
                   detail={"T": len(calls), "T_expected": T_exp, "k": [cl["k"] for cl in calls], "inits": [cl["init"] for cl in calls],
                           "rets": [cl["ret"] for cl in calls]}, sig=f"{sig}/draws", theorem="C13_count, C13_schedule")
        chunks = [expected_values(ctx, expr, specs, cur, cl["ret_copy"].to(torch.int64).tolist())[0].tolist() for cl in calls]
        if ctx.driver is not None:
            # the composite's own `statistics` in the model (Obs.statistics = C13's streaming model on the composite's applyBatch of the
            # leaves' values on every drawn chain state): C16_statistics_sampled says it is the one-pass statistics of the expression
            run = dict(num_samples=ns, num_chains=nc, burn_in=q["burn_in"], steps=q["steps"], overwrite=q["overwrite"], clone_id=1, user_id=0,
                       init_rows=None if user is None else len(q["rows"]), ret_ids=[cl["ret"] for cl in calls])
            ms = ctx.driver.call("c16.statistics", expr=to_driver(expr, "float"),
                                 vals=[[bits(v) for v in leaf_values(specs, cur, cl["ret_copy"].to(torch.int64).tolist())] for cl in calls], **run)
            allv = [abs(float(x)) for ch in chunks for x in ch]
            sc = max([1.0] + allv)
            for key, lvl in (("onepass", "property"), ("result", "aux")):
                mm = ms.get(key, {"error": ms.get("error", "missing")})
                if "error" in mm:
                    ctx.point(f"composite.statistics.{key}", lvl, "ok", mm["error"], sub, exact=True, sig=f"{sig}/sampled-{key}", theorem=THEOREMS["sampled"])
                    continue
                ctx.point(f"composite.statistics.{key}.mean", lvl, [r["mean"]], unbits([mm["mean"]]), sub, scale=sc, theorem=THEOREMS["sampled"],
                          sig=f"{sig}/sampled-{key}")
                ctx.point(f"composite.statistics.{key}.variance", lvl, [r["variance"]], unbits([mm["variance"]]), sub, scale=sc * sc,
                          theorem=THEOREMS["sampled"], sig=f"{sig}/sampled-{key}")
                ctx.point(f"composite.statistics.{key}.std_error", lvl, [float(r["std_error"])], unbits([mm["std_error"]]), sub, scale=sc, rtol=1e-5,
                          atol=1e-7, theorem=THEOREMS["sampled"], sig=f"{sig}/sampled-{key}")
                ctx.point(f"composite.statistics.{key}.num_samples", lvl, r["num_samples"], mm["n"], sub, exact=True, theorem=THEOREMS["sampled"],
                          sig=f"{sig}/sampled-{key}")
            if "calls" in ms:
                ctx.point("composite.statistics: sampler calls", "property",
                          [{"num_samples": cl["num_samples"], "k": cl["k"], "init": cl["init"], "overwrite": cl["overwrite"]} for cl in calls], ms["calls"],
                          sub, exact=True, theorem=THEOREMS["sampled"], sig=f"{sig}/sampled-calls")
        check_stats("statistics", r, chunks, sub, T=len(calls), c=c_exp, ns=ns,
                    model_args=dict(num_samples=ns, num_chains=nc, burn_in=q["burn_in"], steps=q["steps"], overwrite=q["overwrite"], system=False,
                                    clone_id=1, user_id=0, init_rows=None if user is None else len(q["rows"]), ret_ids=[cl["ret"] for cl in calls]))
    # ---- composite.sample (ObservableBase.sample: the composite evaluated on what nn_state.sample draws).  nn_state.sample is wrapped on the
    # instance, the batch it returned is captured; expected = the expression over FRESH leaves on exactly that batch.  (Should a rewrite
    # obtain its samples without calling nn_state.sample, the same draw is repeated under the same torch seed instead.)
    for si, q in enumerate(case.get("sample_calls", [])):
        sub = {**case, "step": f"sample #{si}"}
        user = None if q["rows"] is None else torch.tensor(q["rows"], dtype=torch.double).reshape(len(q["rows"]), n)
        kw = {"num_samples": q["m"]} if user is None else {"overwrite": q["overwrite"]}
        torch.manual_seed(q["seed"])
        r, err, calls = record_run(st, user, lambda u: obj.sample(st, k=q["k"], initial_state=u, **kw) if si % 2 else
                                   obj.sample(st, q["k"], initial_state=u, **kw))
        ctx.count("history:composite_sample_calls"); ctx.count("history:composite_sample:" + ("fresh chains" if user is None else "user chains"))
        if err is not None or not isinstance(r, torch.Tensor):
            ctx.oracle("history: sample() of a built composite returns its per-sample values", False, sub,
                       detail={"raised": err, "returned": repr(r)[:200]}, sig=f"{sig}/sample-raised", theorem=THEOREMS["apply"])
            continue
        if calls:
            drawn = calls[-1]["ret_copy"]
        else:
            ctx.count("history:composite_sample:nn_state.sample_not_called")
            torch.manual_seed(q["seed"])
            drawn = st.sample(k=q["k"], initial_state=None if user is None else torch.tensor(q["rows"], dtype=torch.double).reshape(len(q["rows"]), n), **kw).clone()
        got = r.detach().numpy().astype(np.float64)
        want, sc = expected_values(ctx, expr, specs, cur, drawn.to(torch.int64).tolist())
        if ctx.driver is not None:
            ctx.point(f"history[{sub['step']}]: composite.sample", "property", got, want, sub, scale=sc, theorem=THEOREMS["apply"], sig=f"{sig}/sample")
        else:
            ctx.oracle(f"history[{sub['step']}]: composite.sample == expression(leaf values on the drawn samples)",
                       got.shape == want.shape and bool(np.all(np.abs(got - want) <= 1e-9 * sc)), sub,
                       detail={"impl": got.tolist(), "expected": want.tolist()}, sig=f"{sig}/sample-oracle", theorem=THEOREMS["apply"])
    check_apply("after statistics()", st, cur, t, case["samples"])



# ---------------------------------------------------------------- names and symbols (extension round 2: Composite.buildN / exprText)
# `name` is the key under which System / ObservableEvaluator report an observable (C13, C17), `symbol` what str() shows.  The model
# (Composite.buildN, Observables.Builtin.names) is compared with the real objects EXACTLY; the specification side (exprText,
# C16_name_of_build) is re-stated independently in `py_expr_text`.  C16's own text does not speak about names: recorded only (ctx.info, audit 3) here; the
# keys of System.statistics / the evaluator's columns are compared at property level by harness/c13.py and harness/c17.py.
NAME_THEOREM = "C16_name_of_build, C16_named_build_is_build"


class PlainLeaf(ObservableBase):
    """a user-written observable that never sets a name: the class name is the default"""

    def apply(self, nn_state, samples):
        return samples.to(torch.double).sum(1)


class Energy(PlainLeaf):
    pass


NAME_CLASSES = {"PlainLeaf": PlainLeaf, "Energy": Energy}


def flag_form(x):
    """descriptor (model's PyFlag) of the OBJECT handed over as a boolean option"""
    if isinstance(x, bool):
        return {"form": 0, "value": int(x)}
    if isinstance(x, np.bool_):
        return {"form": 2, "value": int(bool(x))}
    if isinstance(x, np.ndarray):
        return {"form": 3, "value": int(bool(x))}
    if isinstance(x, torch.Tensor):
        return {"form": 4, "value": int(bool(x))}
    return {"form": 1, "value": int(x)}


def leaf_ident(o, given=None):
    """the name-model's description of a LEAF object from its class and what the caller passed / assigned (never from .name itself):
    built-ins by their constructor arguments, user classes by the strings `given` = (name, symbol) assigned through the setters"""
    if type(o) in (SigmaX, SigmaY, SigmaZ):
        return {"builtin": type(o).__name__}
    if type(o) is SWAP:
        return {"builtin": "SWAP"}
    if type(o) is NeighbourInteraction:
        return {"builtin": "NI", "periodic": flag_form(o.periodic_bcs), "c": int(o.c)}
    nm, sy = given if given is not None else (None, None)
    return {"cls": type(o).__name__, "name": nm, "symbol": sy}


def make_named_leaf(spec):
    """-> (leaf object, model description)"""
    t = spec["type"]
    if t in ("SigmaX", "SigmaY", "SigmaZ"):
        o = {"SigmaX": SigmaX, "SigmaY": SigmaY, "SigmaZ": SigmaZ}[t](absolute=bool(spec.get("absolute", False)))
        return o, leaf_ident(o)
    if t == "SWAP":
        o = SWAP(spec["A"])
        return o, leaf_ident(o)
    if t == "NI":
        pb = qc.flag_value(spec["periodic"])
        c = qc.int_value(spec["c_form"], spec["c"])
        o = NeighbourInteraction(pb, c) if spec.get("pos") else NeighbourInteraction(periodic_bcs=pb, c=c)
        return o, leaf_ident(o)
    o = NAME_CLASSES[spec["cls"]]()
    nm = sy = None
    for step in spec.get("set", []):          # assignments through the setters, in order (None re-installs the default)
        if step[0] == "name":
            o.name = step[1]
            nm = step[1]
        else:
            o.symbol = step[1]
            sy = step[1]
    return o, leaf_ident(o, (nm, sy))


def py_scalar_text(x, nm):
    return repr(x) if nm else str(x)


def py_expr_text(node, leaftexts, nm):
    """independent re-statement of the SPECIFICATION (exprText): -> (text, scalar value or None)"""
    t = node[0]
    if t == "leaf":
        return leaftexts[node[1]][0 if nm else 1], None
    if t == "const":
        v = py_const(node)
        return py_scalar_text(v, nm), v
    if t == "neg":
        a, va = py_expr_text(node[1], leaftexts, nm)
        if va is not None:
            return py_scalar_text(-va, nm), -va
        return "-" + a, None
    a, va = py_expr_text(node[1], leaftexts, nm)
    b, vb = py_expr_text(node[2], leaftexts, nm)
    if va is not None and vb is not None:
        v = va + vb if t == "add" else (va - vb if t == "sub" else va * vb)
        return py_scalar_text(v, nm), v
    if t == "add":
        return "(" + a + " + " + b + ")", None
    if t == "sub":
        return "(" + a + " + " + (py_scalar_text(-vb, nm) if vb is not None else "-" + b) + ")", None
    return ("(" + a + " * " + b + ")" if va is not None else "(" + b + " * " + a + ")"), None


def has_negative_zero(o):
    """a float -0.0 among the scalars of a built object (the integer carrier of the name model cannot denote it)"""
    if isinstance(o, (SumObservable, ProdObservable)):
        return has_negative_zero(o.left) or has_negative_zero(o.right)
    return isinstance(o, float) and o == 0 and math.copysign(1.0, o) < 0


NAME_STRINGS = ["E", "-E", "(a + b)", "SigmaZ", "", "H_1", "x y", "Energy"]


def gen_name_leaf(rng):
    r = rng.random()
    if r < 0.3:
        return {"type": rng.choice(["SigmaX", "SigmaY", "SigmaZ"]), "absolute": rng.random() < 0.5}
    if r < 0.38:
        return {"type": "SWAP", "A": 1}
    if r < 0.58:
        return {"type": "NI", "periodic": {"form": rng.choice(qc.FLAG_FORMS), "value": rng.random() < 0.5},
                "c": rng.randrange(1, 4), "c_form": rng.choice([f for f in qc.INT_FORMS if f != "np.uint8"]), "pos": rng.random() < 0.4}
    steps = []
    for _ in range(rng.choice([0, 0, 1, 1, 2, 3])):
        steps.append([rng.choice(["name", "name", "symbol"]), rng.choice(NAME_STRINGS + [None])])
    return {"type": "user", "cls": rng.choice(list(NAME_CLASSES)), "set": steps}


def name_case(ctx, case):
    built = [make_named_leaf(s) for s in case["leaves"]]
    leaves, idents = [b[0] for b in built], [b[1] for b in built]
    expr = case["expr"]
    sig = "names/" + case.get("stream", "expr")
    ctx.case({"names": True, "leaves": case["leaves"], "expr": expr, "ctor": case.get("ctor")}, nontrivial=stats_of(expr)["ops"] >= 2,
             sample={"names": True, "expr": expr, "leaves": [s["type"] for s in case["leaves"]]})
    ctx.count("names:case")
    for s in case["leaves"]:
        ctx.count("names:leaf=" + s["type"] + ("/" + "+".join(st[0] + ("=None" if st[1] is None else "") for st in s["set"]) if s.get("set") else ""))
        if s["type"] == "NI":
            ctx.count("names:NI periodic_bcs as " + s["periodic"]["form"])
            ctx.count("names:NI c as " + s["c_form"])
    leaftexts = [(l.name, l.symbol) for l in leaves]
    ct = case.get("ctor")
    try:
        if ct:
            a, b = py_build(ct["a"], leaves), py_build(ct["b"], leaves)
            kw = {k: ct[k] for k in ("name", "symbol") if ct.get(k) is not None}
            obj = (SumObservable if ct["which"] == "sum" else ProdObservable)(a, b, **kw)
            ctx.count("names:ctor " + ct["which"] + " with " + ("+".join(sorted(kw)) or "default strings"))
        else:
            obj = py_build(expr, leaves)
    except Exception as e:  # noqa: BLE001 - not a valid composite: nothing to name (rejection is judged by the build cases)
        ctx.count("names:rejected:" + type(e).__name__)
        return
    if not isinstance(obj, ObservableBase):
        ctx.count("names:scalar result")
        return
    if has_negative_zero(obj):
        ctx.count("names:skipped (a float -0.0 operand: not denotable by the integer carrier)")
        return
    try:    # audit 3 (B1): name / symbol / repr / str are not constrained by C16: reading them must not crash the check
        impl = {"name": obj.name, "symbol": obj.symbol, "repr": repr(obj), "str": str(obj)}
    except Exception as e:  # noqa: BLE001
        ctx.info(f"{sig}/name: name / symbol / repr / str of the composite can be read", type(e).__name__, None)
        return
    for tg in stats_of(expr)["tags"]:
        ctx.count("names:op=" + tg)
    # ---- the specification, independently (the library's strings are a function of the expression tree)
    if not ct:
        want = {"name": py_expr_text(expr, leaftexts, True)[0], "symbol": py_expr_text(expr, leaftexts, False)[0]}
        want["repr"], want["str"] = want["name"], want["symbol"]
        # audit 3 (B1): what an observable is CALLED (name / symbol / repr / str) is not constrained by C16 (nor C13 / C17): recorded only
        ctx.info(f"{sig}/spec: composite name / symbol / repr / str == text of the expression (independent re-statement)", impl, want)
    if ctx.driver is None:
        return
    if ct:
        m = ctx.driver.call("c16.names", leaves=idents, ctor=ct["which"], a=to_driver(ct["a"], "int"), b=to_driver(ct["b"], "int"),
                            name=ct.get("name"), symbol=ct.get("symbol"))
    else:
        m = ctx.driver.call("c16.names", leaves=idents, expr=to_driver(expr, "int"))
    # audit 3 (B1): names / symbols of leaves and composites are beyond the property (C16 constrains values and rejections only): info
    ctx.info(f"{sig}/leaves: leaf names and symbols (class-name default, setters, built-in constants)", [list(t) for t in leaftexts], m["leaves"])
    if m.get("kind") != "obs":
        ctx.point("names: model builds the observable", "aux", "obs", m.get("kind") or m.get("error") or m.get("operand_error"), case, exact=True,
                  sig=f"{sig}/model-kind")
        return
    # audit 3 (B1): name / symbol / repr / str and the structure reached through the NAMED construction: not constrained by C16 -> info
    ctx.info(f"{sig}/name: composite.name", impl["name"], m["name"])
    ctx.info(f"{sig}/symbol: composite.symbol", impl["symbol"], m["symbol"])
    ctx.info(f"{sig}/repr-str: repr(composite) is its name, str(composite) its symbol", [impl["repr"], impl["str"]], [m["name"], m["symbol"]])
    try:
        tree = describe(obj, leaves, "int")     # reads private attributes of the composite: recorded only
    except Exception as e:  # noqa: BLE001
        tree = {"describe_failed": type(e).__name__}
    ctx.info(f"{sig}/tree: named object has the structure of the built object", tree, m["tree"])
    if not ct:
        ctx.point("model name == model exprText", "aux", [m["spec_name"], m["spec_symbol"]], [m["name"], m["symbol"]], case, exact=True,
                  theorem="C16_name_of_build", sig=f"{sig}/model-spec")


def fixed_name_cases():
    L = [{"type": "SigmaX"}, {"type": "user", "cls": "Energy", "set": []}, {"type": "user", "cls": "PlainLeaf", "set": [["name", "E"], ["symbol", "e"]]},
         {"type": "NI", "periodic": {"form": "torch_0d", "value": True}, "c": 2, "c_form": "t0d", "pos": True},
         {"type": "user", "cls": "PlainLeaf", "set": [["name", "E"], ["name", None]]}]
    X, En, E, NI, R = (["leaf", i] for i in range(5))
    c = lambda k, v: ["const", k, v]  # noqa: E731
    exprs = [["neg", X], ["neg", ["neg", En]], ["mul", X, c("int", -1)], ["mul", c("int", -1), X], ["sub", X, En], ["sub", c("int", 2), E],
             ["sub", E, c("float", 2.0)], ["sub", E, c("npfloat", 2.0)], ["add", c("npfloat", 3.0), NI], ["mul", c("bool", 1), R],
             ["add", ["mul", ["add", c("int", 2), c("float", 1.0)], X], ["neg", c("bool", 1)]], ["sub", ["neg", NI], ["mul", E, c("int", 3)]],
             ["add", ["sub", ["neg", X], ["mul", c("int", 3), En]], c("int", 1)], ["mul", ["sub", c("int", 1), c("int", 3)], ["sub", X, R]]]
    out = [{"stream": "fixed", "leaves": L, "expr": e} for e in exprs]
    for which, a, b, nm, sy in (("sum", X, E, None, None), ("sum", X, c("int", 2), "total", None), ("prod", X, c("float", 2.0), None, "2x"),
                                ("prod", c("int", 3), NI, "three", "3n"), ("sum", c("int", 1), ["neg", En], None, None), ("prod", En, c("bool", 1), None, None)):
        out.append({"stream": "ctor", "leaves": L, "expr": ["add" if which == "sum" else "mul", a, b],
                    "ctor": {"which": which, "a": a, "b": b, "name": nm, "symbol": sy}})
    return out


def gen_name_cases(ctx, scale):
    rng = ctx.rng
    cases = fixed_name_cases()
    for _ in range(40 * scale):
        nl = rng.randrange(1, 5)
        leaves = [gen_name_leaf(rng) for _ in range(nl)]
        cases.append({"stream": "valid", "leaves": leaves, "expr": gen_obs_expr(rng, "mock", rng.randrange(1, 6), nl)})
    for _ in range(6 * scale):
        nl = rng.randrange(1, 4)
        leaves = [gen_name_leaf(rng) for _ in range(nl)]
        a = gen_obs_expr(rng, "mock", rng.randrange(0, 3), nl, force_depth=False)
        b = gen_scalar(rng, "mock") if rng.random() < 0.6 else gen_obs_expr(rng, "mock", rng.randrange(0, 2), nl, force_depth=False)
        if rng.random() < 0.5:
            a, b = b, a
        which = rng.choice(["sum", "prod"])
        cases.append({"stream": "ctor", "leaves": leaves, "expr": ["add" if which == "sum" else "mul", a, b],
                      "ctor": {"which": which, "a": a, "b": b, "name": rng.choice([None, None, "given"]), "symbol": rng.choice([None, "g"])}})
    return cases

def run(ctx):
    ctx.rule = RULE
    scale = 1 if ctx.tier == "quick" else 10
    for case in gen_cases(ctx, scale):
        one_case(ctx, case)
    for k in range(10 * scale):
        history_case(ctx, gen_history(ctx.rng, "real" if k % 2 else "mock", ctx.rng.randrange(1, 5)))
    for case in gen_name_cases(ctx, scale):
        name_case(ctx, case)


def search(ctx):
    """larger oracle-only sweep used when a proof obligation / auxiliary correspondence point is broken"""
    drv, ctx.driver = ctx.driver, None
    try:
        for case in gen_cases(ctx, 10):
            one_case(ctx, case)
        for k in range(60):
            history_case(ctx, gen_history(ctx.rng, "real" if k % 2 else "mock", ctx.rng.randrange(1, 5)))
        for case in gen_name_cases(ctx, 5):
            name_case(ctx, case)
    finally:
        ctx.driver = drv


def replay(ctx, case):
    if case.get("names"):
        name_case(ctx, case)
        return
    if case.get("hist"):
        history_case(ctx, {k: v for k, v in case.items() if k != "step"})
        return
    one_case(ctx, case)
