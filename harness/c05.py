"""C05 — Gibbs sampling targets the reported distribution.

(a) public conditionals (prob_h_given_v, prob_v_given_h, prob_a_given_v, prob_v_given_ha; vector and batched
    forms, 0/1 rows and arbitrary real rows) against the model; exact one-pass kernel P assembled from the PUBLIC
    conditionals of the implementation against the LAW of the model's gibbsStep program; oracles on the
    implementation: detailed balance / invariance with st.probability, row sums, range.
(b) scripted replay: torch.bernoulli is replaced (inside this process) by a recorder that draws from the harness's own
    seeded stream and records every probability tensor and every draw; the driver `run`s the model's gibbs_steps /
    sample program on the recorded draws: call count, order, shapes, every probability, final state and buffer
    identity must agree.
(c) thorough only, STATISTICAL SUPPORT (not proof): real RNG, 2e5 one-/two-/three-pass samples vs P^k, Hoeffding.
(d) HISTORY: parts (a) and (b) are evaluated on ONE state object, then ALL parameters of that object are overwritten
    (`.data.copy_`, `.data = t`, `.data.zero_().add_`, `no_grad(): p.copy_`, `reinitialize_parameters()` + write; one or two
    writes in a row) and parts (a) and (b) are evaluated again WITH THE SAME ARGUMENT TENSOR OBJECTS and compared with
    the model at the NEW parameters (stale caches / memoised tensors keyed on parameter identity, version counters,
    storage pointers or argument identity); every conditional is also called twice with the first result clobbered in
    between (a returned tensor must not be a shared buffer), and the arguments must come back unmodified.

`Inputs`, `SubCtx`, `rewrite`, `cond_eval`, `replay_body`, `public_kernel`, `Recorder` are imported by harness/c02.py
(sampling probe and history dimension of the mixed state).
"""
import itertools
import math

import numpy as np

from . import argforms_a as af
from . import callshape as cs
from . import qc
from .common import bits, unbits
from .qc import torch

FILES = [
    "qucumber/rbm/binary_rbm.py",
    "qucumber/rbm/purification_rbm.py",
    "qucumber/nn_states/neural_state.py",
    "qucumber/utils/__init__.py",
]
REQUIRED_THEOREMS = [
    "C05_clamp_id", "C05_cond_h", "C05_cond_v", "C05_cond_ha", "C05_cond_v_purif", "C05_kernel", "C05_kernel_purif",
    "C05_detailed_balance", "C05_detailed_balance_purif", "C05_invariant", "C05_invariant_purif", "C05_k_step_law",
    "C05_k_step_law_purif", "C05_invariant_k", "C05_invariant_k_purif", "C05_continue", "C05_values_shape",
    "C05_overwrite", "C05_run_law", "C05_batch_law", "C05_batch_law_purif",
    "C05_overwrite_flag", "C05_overwrite_any_form",   # round 4: `overwrite` as the object the caller passed
    "C05_call_forms", "C05_vector_form_is_row", "C05_call_forms_ha",   # extension round 2: auto_unsqueeze_args inside the model
    "C05_sample_out_identity", "C05_sample_step_law", "C05_gibbs_step_buffers",   # extension round 2: one-step samplers with their out= buffer
    "C05_call_shapes_list", "C05_call_shapes", "C05_call_contents", "C05_replay_length",   # late: callShapes = the draw count of every path of gibbsStepsB / sampleFrom
]
EXTRA_TRUSTED = [
    "torch.bernoulli(p) draws independent Bernoulli(p) bits (the replay replaces it by a recorder; the thorough tier "
    "tests the real generator statistically, as support only)",
]
TH = {
    "cond": "C05_clamp_id_conditionals, C05_cond_h, C05_cond_v, C05_cond_ha, C05_cond_v_purif",
    "kernel": "C05_kernel, C05_kernel_purif",
    "db": "C05_detailed_balance(_purif)",
    "inv": "C05_invariant(_purif)",
    "replay": "C05_run_law + C05_kernel(_purif) + C05_batch_law(_purif)",
    "final": "C05_run_law + C05_k_step_law(_purif) + C05_values_shape",
    "buf": "C05_overwrite, C05_overwrite_flag (the object passed as `overwrite` counts by its truth value)",
    "cont": "C05_continue, C05_continue_batch",
}
RULE = ("ONE-STEP SAMPLERS (extension round 2): for every model of the run, sample_h_given_v / sample_v_given_h / sample_a_given_v / sample_v_given_ha called directly on B = 1..3 rows (0/1 rows, or real-valued rows), with a pre-filled out= buffer or without, the REAL torch.bernoulli wrapped in-process: the returned sample is a 0/1 array of shape B x m (property-level oracle, 0/1 rows only); the call pattern, the probabilities presented (against prob_* of the inputs and against the model) and the returned 0/1 sample against QV.sampleCall replayed on the recorded draws are ALL auxiliary (how the draw is made is not constrained); `out` is the returned object and holds the draw afterwards, the conditioning argument is unmodified, and 0/1-ness on real-valued rows are recorded only (info: not in the property text). "
        "CALL FORMS (extension round 2): per run 4 (thorough: 10) models (plain RBM of a positive state / purification RBM, scale in {0.1,1,3}) x the decorated public conditionals "
        "prob_h_given_v / prob_v_given_h / prob_a_given_v / prob_v_given_ha and PurificationRBM.effective_energy(v[, a]) on random 0/1 tensors in the forms vector, batch (B = 1, 2, 3), "
        "rank-3, and for the two-operand methods every mixture (1-D h with batched a: refused unless one row; batched h with 1-D a; one-row batch with 1-D a: axis lost) "
        "against the model of auto_unsqueeze_args (accepted-or-refused, exact shape, entries; vector / equal-batch forms of the four conditionals property level; effective_energy, which the property never names, aux with its vector-form shape recorded only; rank-3 and mixed forms are outside the quantifier: outcome, shape and entries recorded only (info)); "
        "model case = (state kind pos/cplx/dens, n<=4, h<=4, a<=3, scale in {0.1,1,3,10,30}, all parameters scale*N(0,1), all biases "
        "non-zero); part (a): all 2^n visible / 2^h hidden / 2^(h+a) hidden+aux configurations plus real-valued rows, vector and "
        "batched forms; part (b): replay case = (model, k in 0..3, start = every basis state as a batch (n<=3) or random batch / single "
        "vector / no initial state, overwrite, dtype, draw mode faithful|coin, draw seed, optional continuation call); non-trivial iff "
        "some hidden bias != 0 and (for replays) k >= 1; distinct by hash of the case; part (d): history case = (model, 1-2 writes "
        "(mode in copy_|assign|zero_add|nograd_copy|reinit+copy_|reinit+assign, new parameters of scale 0.1..10), 3 sampling specs): "
        "parts (a),(b) before and after every write on the same state object with the same argument tensors; every `overwrite` argument "
        "(first call, continuation call) is handed over as one of {bool singleton, int 1/0, numpy.bool_, result of a numpy comparison, "
        "0-dim numpy bool array, 0-dim torch.bool tensor}, by keyword or positionally (sample(k, num_samples, initial_state, overwrite) / "
        "gibbs_steps(k, initial_state, overwrite)); the states are constructed with gpu=<falsy object of one of these forms>; argument-form "
        "sweep (round 5): every INTEGER option - the constructor sizes num_visible / num_hidden / num_aux (state and RBM constructors), `k` and "
        "`num_samples` of sample, `k` of gibbs_steps, first and continuation call - is handed over as one of {Python int, np.int64, np.int32, "
        "np.intp, np.uint8, 0-d integer numpy array, 0-d integer torch tensor} drawn from the case's own stream (`aseed`), keyword or positional "
        "(a REFUSAL of np.uint8 / 0-d array / 0-d tensor is informational: outside the quantifier); env_run: five models constructed inside each caller "
        "environment (torch default dtype float64, no_grad, other cwd) with parts (a), (b), (d) on each; the element type of the result is counted, not demanded; "
        "a float32 start state with overwrite=True must be either untouched or hold the returned values")


# ------------------------------------------------------------------ helpers
def build(kind, n, h, a, am, ph, gpuf=None, A=None):
    """`gpuf`: flag form of the (falsy) object handed as `gpu=` to the constructors (None: the singleton False).
    `A`: the case's argument-form stream (argforms.Args): the sizes n, h, a are handed to the state / RBM constructors as the objects it
    draws (None: plain Python ints by keyword, as before round 5)"""
    gpu = qc.flag_value(qc.flag_desc(gpuf, False))
    A = A if A is not None else af.Args(None)
    if kind == "pos":
        return af.make_positive(A, n, h, am, gpu=gpu)
    if kind == "cplx":
        return af.make_complex(A, n, h, am, ph, gpu=gpu)
    return af.make_density(A, n, h, a, am, ph, gpu=gpu)


def build_checked(ctx, case, tag=""):
    """construct the case's state with the sizes in the forms of the case's stream (`aseed`) and check that it has the requested
    architecture; returns (state or None, stream)"""
    kind, n, h, a, am, ph = (case[k] for k in ("kind", "n", "h", "a", "am", "ph"))
    A = af.Args(case.get("aseed"))
    st = build(kind, n, h, a, am, ph, case.get("gpuf"), A)
    ok = af.check_sizes(ctx, st, (n, h, a) if kind == "dens" else (n, h), case, A, f"{kind}/ctor-sizes",
                        "C05_kernel(_purif) / C05_invariant(_purif) (stated for the architecture the caller asked for)")
    A.count_into(ctx)
    return (st if ok else None), A


def mkind(kind):
    return "prbm" if kind == "dens" else "rbm"


def bern_mat(p, T):
    """p: R×m probabilities, T: C×m 0/1 -> R×C matrix of Π_i Bern(p[r,i])(T[c,i])"""
    p = np.asarray(p, dtype=np.float64)
    T = np.asarray(T, dtype=np.float64)
    if p.shape[1] == 0:
        return np.ones((p.shape[0], T.shape[0]))
    return np.prod(np.where(T[None, :, :] == 1.0, p[:, None, :], 1.0 - p[:, None, :]), axis=2)


def tt(rows, m):
    return torch.tensor(rows, dtype=torch.double).reshape(len(rows), m)

class Inputs:
    """argument tensors built ONCE per case and handed to the implementation again in every phase of a history case
    (a memo keyed on the argument object, or a cache surviving a re-parametrisation, shows up as a stale value);
    a pristine copy of each is kept to check that the implementation leaves its arguments alone"""

    def __init__(self):
        self.t = {}
        self.orig = {}

    def get(self, key, rows, m, vector=False):
        if key not in self.t:
            t = torch.tensor(rows, dtype=torch.double).reshape(m) if vector else tt(rows, m)
            self.t[key] = t
            self.orig[key] = t.clone()
        return self.t[key]

    def put(self, key, t):
        if key not in self.t:
            self.t[key] = t
            self.orig[key] = t.clone()
        return self.t[key]

    def modified(self):
        return sorted(k for k in self.t if not (self.t[k].shape == self.orig[k].shape and torch.equal(self.t[k], self.orig[k])))


class SubCtx:
    """view of a Ctx for a probe that runs INSIDE another case (a phase of a history, the sampling probe of C02): every
    point / oracle is registered on the real Ctx under the OUTER case (so that replay re-runs the whole history) with a
    name prefix, a signature prefix/suffix and extra theorem references; `case()` registrations of the inner probe are dropped"""

    def __init__(self, ctx, outer=None, prefix="", sigprefix="", sigsuffix="", theorem=None, countprefix=""):
        self._ctx, self._outer, self._prefix, self._sp, self._ss, self._th, self._cp = ctx, outer, prefix, sigprefix, sigsuffix, theorem, countprefix

    def __getattr__(self, k):
        return getattr(self._ctx, k)

    def _thm(self, th):
        return th if not self._th else (self._th if not th else f"{th}; {self._th}")

    def point(self, name, level, impl, model, case, **kw):
        kw["sig"] = self._sp + (kw.get("sig") or name) + self._ss
        kw["theorem"] = self._thm(kw.get("theorem"))
        return self._ctx.point(self._prefix + name, level, impl, model, case if self._outer is None else self._outer, **kw)

    def oracle(self, name, ok, case, detail=None, sig=None, theorem=None):
        return self._ctx.oracle(self._prefix + name, ok, case if self._outer is None else self._outer, detail=detail,
                                sig=self._sp + (sig or name) + self._ss, theorem=self._thm(theorem))

    def count(self, key, k=1):
        self._ctx.count(self._cp + key, k)

    def case(self, *a, **k):
        pass


WRITE_MODES = ["copy_", "assign", "zero_add", "nograd_copy", "reinit+copy_", "reinit+assign"]


def _param_items(rbm, p):
    """(attribute name, new tensor) for every parameter of a BinaryRBM / PurificationRBM"""
    nh, nv = rbm.num_hidden, rbm.num_visible
    if hasattr(rbm, "weights_W"):
        return [("weights_W", torch.tensor(p["W"], dtype=torch.double).reshape(nh, nv)),
                ("weights_U", torch.tensor(p["U"], dtype=torch.double).reshape(rbm.num_aux, nv)),
                ("visible_bias", torch.tensor(p["b"], dtype=torch.double)), ("hidden_bias", torch.tensor(p["c"], dtype=torch.double)),
                ("aux_bias", torch.tensor(p["d"], dtype=torch.double))]
    return [("weights", torch.tensor(p["W"], dtype=torch.double).reshape(nh, nv)),
            ("visible_bias", torch.tensor(p["b"], dtype=torch.double)), ("hidden_bias", torch.tensor(p["c"], dtype=torch.double))]


def rewrite(st, am, ph, mode):
    """overwrite ALL parameters of the SAME state object (both networks) the way user code does it"""
    if mode.startswith("reinit+"):
        st.reinitialize_parameters()
        mode = mode[len("reinit+"):]
    nets = [(st.rbm_am, am)] + ([(st.rbm_ph, ph)] if ph is not None and "rbm_ph" in st.networks else [])
    for rbm, p in nets:
        for name, val in _param_items(rbm, p):
            par = getattr(rbm, name)
            if mode == "copy_":
                par.data.copy_(val)
            elif mode == "assign":
                par.data = val
            elif mode == "zero_add":
                par.data.zero_().add_(val)
            elif mode == "nograd_copy":
                with torch.no_grad():
                    par.copy_(val)
            else:
                raise ValueError(mode)


def _sig(x):
    with np.errstate(all="ignore"):
        return 1.0 / (1.0 + np.exp(-np.asarray(x, dtype=np.float64)))


def np_conditionals(kind, am, vrows, hrows, arows):
    """the conditionals written out in numpy from the parameter dict (independent of the library and of the Lean model)"""
    W, b, c = np.asarray(am["W"], dtype=np.float64), np.asarray(am["b"], dtype=np.float64), np.asarray(am["c"], dtype=np.float64)
    V, Hd = np.asarray(vrows, dtype=np.float64), np.asarray(hrows, dtype=np.float64)
    W = W.reshape(len(c), len(b))
    out = {"h": _sig(V @ W.T + c)}
    if kind == "dens":
        d = np.asarray(am["d"], dtype=np.float64)
        U = np.asarray(am["U"], dtype=np.float64).reshape(len(d), len(b))
        out["a"] = _sig(V @ U.T + d)
        out["v"] = _sig(Hd @ W + np.asarray(arows, dtype=np.float64) @ U + b)
    else:
        out["v"] = _sig(Hd @ W + b)
    return out


def twice(f, *args):
    """call f, keep a copy of the result, clobber the RETURNED tensor, call again with the same argument objects.
    returns (value, ok): ok iff the second result equals the first value and the second call left the first result object alone"""
    r1 = f(*args)
    val = r1.detach().numpy().copy()
    r1.fill_(0.25)
    r2 = f(*args)
    ok = tuple(r2.shape) == val.shape and np.array_equal(r2.detach().numpy(), val) and bool(torch.all(r1 == 0.25))
    return val, ok


def np_energy(kind, am, vrows, arows=None):
    """effective energy written out in numpy: -(b.v + sum softplus(Wv+c) [+ sum softplus(Uv+d) | + d.a + a.Uv])"""
    W, b, c = np.asarray(am["W"], dtype=np.float64), np.asarray(am["b"], dtype=np.float64), np.asarray(am["c"], dtype=np.float64)
    W = W.reshape(len(c), len(b))
    V = np.asarray(vrows, dtype=np.float64).reshape(-1, len(b))
    e = V @ b + np.logaddexp(0.0, V @ W.T + c).sum(-1)
    if kind == "dens":
        d = np.asarray(am["d"], dtype=np.float64)
        U = np.asarray(am["U"], dtype=np.float64).reshape(len(d), len(b))
        if arows is None:
            e = e + np.logaddexp(0.0, V @ U.T + d).sum(-1)
        else:
            A = np.asarray(arows, dtype=np.float64).reshape(-1, len(d))
            e = e + A @ d + np.einsum("bv,av,ba->b", V, U, A)
    return -e


def alternation(ctx, st, case, thunks, sets, off, label):
    """the tightest form of the history dimension, one observable at a time:  x = f(args)  ->  overwrite ALL parameters  ->  f(SAME args)
    with nothing else evaluated in between (a single-entry memo keyed on the argument object / a storage pointer / a version counter is still
    warm), compared with an INDEPENDENT numpy reference at the parameters just written.  The state alternates between the two parameter
    sets `sets[0]` (carried on entry) and `sets[1]`; the write mode cycles through WRITE_MODES starting at `off`.
    thunks: (name, call() -> array, ref(set_index) -> array, theorem[, floor]); tolerance rtol 1e-7 + 1e-9 * max(|reference|_max, floor):
    floor = 1 for log-domain values and probabilities (absolute accuracy), omitted for exp-domain values (relative to their own magnitude);
    floor may be a function of the set index (Cauchy-Schwarz scale of a single matrix element)"""
    cur = 0
    for j, th in enumerate(thunks):
        name, call, ref, theorem = th[:4]
        floor = th[4] if len(th) > 4 else 1e-300
        mode = WRITE_MODES[(off + j) % len(WRITE_MODES)]
        before = np.asarray(call(), dtype=np.float64)
        nxt = 1 - cur
        rewrite(st, sets[nxt][0], sets[nxt][1], mode)
        after = np.asarray(call(), dtype=np.float64)
        ok = True
        detail = None
        for phase, got, k in (("before the write", before, cur), ("right after the write", after, nxt)):
            want = np.asarray(ref(k), dtype=np.float64)
            with np.errstate(all="ignore"):
                fin = want[np.isfinite(want)]
                sc = float(np.max(np.abs(fin))) if fin.size else 1.0
                good = got.shape == want.shape and np.allclose(got, want, rtol=1e-7, atol=1e-9 * max(sc, floor(k) if callable(floor) else floor), equal_nan=True)
            if not good:
                ok = False
                detail = {"when": phase, "write_mode": mode, "impl": got.ravel()[:16].tolist(), "reference_at_current_parameters": want.ravel()[:16].tolist(),
                          "reference_at_previous_parameters": np.asarray(ref(1 - k), dtype=np.float64).ravel()[:16].tolist()}
                break
        ctx.oracle(f"{label}: {name} evaluated, all parameters overwritten ({mode}), evaluated again with the same arguments == numpy reference "
                   "at the parameters then carried", ok, case, detail=detail, sig=f"alternation/{name}", theorem=theorem)
        ctx.count("alternation_brackets")
        cur = nxt
    return cur


def public_kernel(st, kind, n, h, a, inp=None):
    """exact one-pass kernel assembled from the PUBLIC conditionals of the implementation only"""
    inp = inp if inp is not None else Inputs()
    rbm = st.rbm_am
    V = qc.all_states(n)
    Hs = qc.all_states(h)
    ph = rbm.prob_h_given_v(inp.get("K.V", V, n)).numpy().copy()
    PH = bern_mat(ph, Hs)
    if kind != "dens":
        pv = rbm.prob_v_given_h(inp.get("K.H", Hs, h)).numpy().copy()
        return PH @ bern_mat(pv, V)
    As = qc.all_states(a)
    pa = rbm.prob_a_given_v(inp.get("K.V", V, n)).numpy().copy()
    PA = bern_mat(pa, As)
    HA = [(x, y) for x in Hs for y in As]
    pv = rbm.prob_v_given_ha(inp.get("K.HAh", [x for x, _ in HA], h), inp.get("K.HAa", [y for _, y in HA], a)).numpy().copy()
    PHA = (PH[:, :, None] * PA[:, None, :]).reshape(len(V), len(HA))
    return PHA @ bern_mat(pv, V)


def reported_pi(st, n, inp=None):
    """normalised reported distribution: st.probability(space, st.normalization(space)); None in the overflow regime"""
    space = (inp if inp is not None else Inputs()).get("K.V", qc.all_states(n), n)
    Z = float(st.normalization(space))
    p = st.probability(space, Z).numpy().copy()
    if not (np.all(np.isfinite(p)) and math.isfinite(Z) and Z > 0):
        return None
    return p


# ------------------------------------------------------------------ part (a)
def cond_case(ctx, case):
    kind, n, h, a, scale, am, ph = (case[k] for k in ("kind", "n", "h", "a", "scale", "am", "ph"))
    st, _ = build_checked(ctx, case)
    if st is None:
        return
    dens = kind == "dens"
    nontriv = any(x != 0 for x in am["c"]) and any(x != 0 for x in am["b"])
    ctx.case({k: case[k] for k in ("part", "kind", "n", "h", "a", "am")}, nontrivial=nontriv,
             sample={"part": "cond", "kind": kind, "n": n, "h": h, "a": a, "scale": scale, "c": am["c"]})
    for key in (f"kind={kind}", f"n={n}", f"h={h}", f"scale={scale}", "part=cond") + ((f"a={a}",) if dens else ()):
        ctx.count(key)
    cond_eval(ctx, st, case, am, Inputs())


def cond_rows(case):
    """argument rows of part (a): every basis state plus 3 real-valued rows (visible; hidden [x auxiliary])"""
    kind, n, h, a = (case[k] for k in ("kind", "n", "h", "a"))
    V = qc.all_states(n)
    Hs = qc.all_states(h)
    rr = np.random.RandomState(case["rseed"])
    vreal = rr.uniform(-1.5, 1.5, size=(3, n)).tolist()
    hreal = rr.uniform(-1.5, 1.5, size=(3, h)).tolist()
    vrows = [list(map(float, r)) for r in V] + vreal
    if kind == "dens":
        As = qc.all_states(a)
        HA = [(x, y) for x in Hs for y in As]
        hrows = [list(map(float, x)) for x, _ in HA] + hreal
        arows = [list(map(float, y)) for _, y in HA] + rr.uniform(-1.5, 1.5, size=(3, a)).tolist()
    else:
        hrows = [list(map(float, r)) for r in Hs] + hreal
        arows = None
    return vrows, hrows, arows


def cond_eval(ctx, st, case, am, inp):
    """part (a) on the state object `st`, whose amplitude network is supposed to carry the parameters `am`, with the argument
    tensors of `inp` (built on first use, the SAME objects on every later use)"""
    kind, n, h, a = (case[k] for k in ("kind", "n", "h", "a"))
    rbm = st.rbm_am
    dens = kind == "dens"
    V = qc.all_states(n)
    Hs = qc.all_states(h)
    vrows, hrows, arows = cond_rows(case)
    vt, ht = inp.get("vrows", vrows, n), inp.get("hrows", hrows, h)
    at = inp.get("arows", arows, a) if dens else None
    # implementation: batched forms, each called twice on the same argument objects with the first result clobbered in between
    ph_b, ok_t = twice(rbm.prob_h_given_v, vt)
    if dens:
        pa_b, o2 = twice(rbm.prob_a_given_v, vt)
        pv_b, o3 = twice(rbm.prob_v_given_ha, ht, at)
        ok_t = ok_t and o2 and o3
    else:
        pv_b, o3 = twice(rbm.prob_v_given_h, ht)
        ok_t = ok_t and o3
    ctx.oracle("second call with the same arguments (first result clobbered) returns the same values in another tensor", bool(ok_t), case,
               sig=f"{kind}/cond-fresh-result", theorem=TH["cond"])
    # vector forms == rows of the batched forms (oracle on the implementation), with and without out=
    ok_vec = True
    for i in sorted({0, len(vrows) - 1, len(V) // 2}):
        v1 = inp.get(f"v1.{i}", vrows[i], n, vector=True)
        r1 = rbm.prob_h_given_v(v1)
        ok_vec &= tuple(r1.shape) == (h,) and np.allclose(r1.numpy(), ph_b[i], rtol=1e-12, atol=1e-15)
        buf = torch.zeros(1, h, dtype=torch.double)
        r2 = rbm.prob_h_given_v(v1.unsqueeze(0), out=buf)
        ok_vec &= r2.data_ptr() == buf.data_ptr() and np.allclose(buf.numpy()[0], ph_b[i], rtol=1e-12, atol=1e-15)
        if dens:
            ok_vec &= np.allclose(rbm.prob_a_given_v(v1).numpy(), pa_b[i], rtol=1e-12, atol=1e-15)
    for i in sorted({0, len(hrows) - 1}):
        h1 = inp.get(f"h1.{i}", hrows[i], h, vector=True)
        if dens:
            r1 = rbm.prob_v_given_ha(h1, inp.get(f"a1.{i}", arows[i], a, vector=True))
        else:
            r1 = rbm.prob_v_given_h(h1)
        ok_vec &= tuple(r1.shape) == (n,) and np.allclose(r1.numpy(), pv_b[i], rtol=1e-12, atol=1e-15)
    ctx.oracle("vector form == batched row (conditionals)", bool(ok_vec), case, sig=f"{kind}/cond-call-form")
    allp = np.concatenate([ph_b.ravel(), pv_b.ravel()] + ([pa_b.ravel()] if dens else []))
    ctx.oracle("conditionals in [0,1]", bool(np.all((allp >= 0) & (allp <= 1))), case, sig=f"{kind}/cond-range", theorem="C05_clamp_id")
    # the conditionals written out in numpy from the parameters the state is supposed to carry
    ref = np_conditionals(kind, am, vrows, hrows, arows)
    okn = (np.allclose(ph_b, ref["h"], rtol=1e-9, atol=1e-12) and np.allclose(pv_b, ref["v"], rtol=1e-9, atol=1e-12)
           and (not dens or np.allclose(pa_b, ref["a"], rtol=1e-9, atol=1e-12)))
    ctx.oracle("conditionals == sigmoid(pre-activation) of the CURRENT parameters (numpy)", bool(okn), case,
               detail=None if okn else {"prob_h_given_v": ph_b[:4].tolist(), "expected": ref["h"][:4].tolist(),
                                        "prob_v_given_h[a]": pv_b[:4].tolist(), "expected_v": ref["v"][:4].tolist()},
               sig=f"{kind}/cond-numpy", theorem=TH["cond"])

    P_pub = public_kernel(st, kind, n, h, a, inp)
    if ctx.driver is not None:
        req = {"kind": mkind(kind), "n": n, "h": h, "a": a, "p": qc.pbits(am), "vrows": bits(vrows), "hrows": bits(hrows)}
        if dens:
            req["arows"] = bits(arows)
        m = ctx.driver.call("c05.cond", **req)
        ctx.point("prob_h_given_v", "property", ph_b, unbits(m["probH"]), case, theorem=TH["cond"], sig=f"{kind}/prob_h_given_v")
        ctx.point("prob_v_given_h" + ("a" if dens else ""), "property", pv_b, unbits(m["probV"]), case, theorem=TH["cond"],
                  sig=f"{kind}/prob_v_given_h" + ("a" if dens else ""))
        if dens:
            ctx.point("prob_a_given_v", "property", pa_b, unbits(m["probA"]), case, theorem=TH["cond"], sig=f"{kind}/prob_a_given_v")
            Eaux = np.array([[float(rbm.effective_energy(inp.get(f"v1e.{i}", v, n, vector=True), inp.get(f"a1e.{j}", x, a, vector=True)))
                              for j, x in enumerate(arows[-5:])] for i, v in enumerate(vrows[:len(V)])])
            mE = unbits(m["energyAux"]).reshape(len(vrows), len(arows))[:len(V), -5:]
            ctx.point("effective_energy(v,a)", "aux", Eaux, mE, case, scale=float(np.max(np.abs(Eaux))) + 1)
        E = rbm.effective_energy(vt).numpy().copy()
        ctx.point("effective_energy", "aux", E, unbits(m["energy"]), case, scale=float(np.max(np.abs(E))) + 1)
        if case.get("law", True):
            mk = ctx.driver.call("c05.kernel", kind=mkind(kind), n=n, h=h, a=a, p=qc.pbits(am))
            ctx.point("kernel(public conditionals) vs law(gibbsStep)", "aux", P_pub, unbits(mk["P"]), case, theorem=TH["kernel"],
                      sig=f"{kind}/kernel-law")
            ctx.count("kernel_law_evaluated")
    bad_in = inp.modified()
    ctx.oracle("conditionals / energies leave their argument tensors unmodified", not bad_in, case, detail={"modified": bad_in}, sig=f"{kind}/cond-args-untouched")
    # ---- property oracles on the implementation (independent of the model)
    rows = P_pub.sum(axis=1)
    ctx.oracle("kernel rows sum to 1, entries >= 0", bool(np.all(np.abs(rows - 1) <= 1e-9) and np.all(P_pub >= 0)), case,
               detail={"rowsums": rows.tolist()}, sig=f"{kind}/row-sums", theorem=TH["kernel"])
    pi = reported_pi(st, n, inp)
    if pi is None:
        ctx.count("overflow_regime")
        return
    ctx.count("exp_domain")
    flow = pi[:, None] * P_pub
    err = np.abs(flow - flow.T)
    tol = 1e-9 + 1e-6 * np.maximum(flow, flow.T)
    bad = np.argwhere(err > tol)
    ctx.oracle("detailed balance pi(v)P(v,v') == pi(v')P(v',v)", len(bad) == 0, case,
               detail=None if len(bad) == 0 else {"v": int(bad[0][0]), "vp": int(bad[0][1]), "lhs": float(flow[bad[0][0], bad[0][1]]),
                                                  "rhs": float(flow[bad[0][1], bad[0][0]])},
               sig=f"{kind}/detailed-balance", theorem=TH["db"])
    piP = pi @ P_pub
    ctx.oracle("invariance pi P == pi", bool(np.all(np.abs(piP - pi) <= 1e-9 + 1e-6 * pi)), case,
               detail={"pi": pi.tolist(), "piP": piP.tolist()}, sig=f"{kind}/invariance", theorem=TH["inv"])
    P3 = np.linalg.matrix_power(P_pub, 3)
    ctx.oracle("invariance pi P^3 == pi", bool(np.all(np.abs(pi @ P3 - pi) <= 1e-9 + 1e-6 * pi)), case,
               sig=f"{kind}/invariance-k", theorem="C05_invariant_k(_purif)")


# ------------------------------------------------------------------ part (b): recorder
class Recorder:
    """stand-in for torch.bernoulli: draws from the harness's own seeded stream, records probabilities and draws.
    Semantics kept: with `out=` the sample is written into `out` (which may alias the input) and `out` is returned."""

    def __init__(self, dseed, mode):
        self.rs = np.random.RandomState(dseed)
        self.mode = mode
        self.calls = []

    def __call__(self, p, *args, out=None, generator=None, **kw):
        if args or kw:
            raise RuntimeError("recorder: unexpected bernoulli overload")
        pc = p.detach().clone()
        u = self.rs.random_sample(tuple(pc.shape))
        if self.mode == "coin":
            d = (u < 0.5)
        else:
            d = (u < pc.to(torch.double).numpy())
        draw = torch.from_numpy(np.asarray(d, dtype=np.float64).reshape(tuple(pc.shape))).to(pc.dtype)
        self.calls.append({"shape": list(pc.shape), "p": pc.to(torch.double).numpy().ravel().copy(), "draw": np.asarray(d).ravel().astype(int).copy(),
                           "dtype": str(pc.dtype), "out": out is not None, "alias": out is not None and out.data_ptr() == p.data_ptr()})
        if out is not None:
            if tuple(out.shape) != tuple(draw.shape):
                out.resize_(draw.shape)
            out.copy_(draw)
            return out
        return draw

    def __enter__(self):
        self.orig = torch.bernoulli
        torch.bernoulli = self
        return self

    def __exit__(self, *exc):
        torch.bernoulli = self.orig
        return False


def canonical_calls(st, kind, n, h, a, calls, B, start_rows, fresh):
    """hidden and auxiliary units are conditionally independent given the visible state, and the property does not say in which
    order they are drawn: within each pass of a purification RBM put the hidden draw before the auxiliary draw (the order the model
    replays), deciding by the number of elements, or -- when num_hidden == num_aux -- by which public conditional the recorded
    probabilities are."""
    if kind != "dens" or not calls:
        return calls
    body = calls[1:] if fresh else calls
    if len(body) % 3 or (fresh and calls[0]["draw"].size != B * n):
        return calls
    out = calls[:1] if fresh else []
    try:
        v = (calls[0]["draw"] if fresh else np.asarray(start_rows)).reshape(B, n).astype(np.float64)
        for s in range(len(body) // 3):
            c0, c1, c2 = body[3 * s: 3 * s + 3]
            swap = False
            if c0["draw"].size == B * a and c1["draw"].size == B * h and c2["draw"].size == B * n:
                if h != a:
                    swap = True
                else:
                    ph = st.rbm_am.prob_h_given_v(tt(v.tolist(), n)).numpy().ravel()
                    pa = st.rbm_am.prob_a_given_v(tt(v.tolist(), n)).numpy().ravel()
                    swap = bool(np.allclose(c0["p"], pa, rtol=1e-12, atol=1e-15) and not np.allclose(c0["p"], ph, rtol=1e-12, atol=1e-15))
            out += [c1, c0, c2] if swap else [c0, c1, c2]
            if c2["draw"].size != B * n:
                return calls
            v = c2["draw"].reshape(B, n).astype(np.float64)
    except Exception:
        return calls
    return out


def decomplement(st, kind, n, h, a, calls, B, start_rows, fresh):
    """a Bernoulli(p) unit may be drawn directly or as the complement of a Bernoulli(1-p) draw (sample the OFF event, flip): the
    property fixes the law of the unit, not which of the two events torch.bernoulli is asked for.  Walk the passes with the PUBLIC
    conditionals of the implementation; a call whose recorded probabilities are 1 - conditional (and not the conditional) is replaced
    by the equivalent direct call (p -> 1-p, draw -> 1-draw).  Anything else is left as recorded (and judged as recorded)."""
    per = 3 if kind == "dens" else 2
    body = calls[1:] if fresh else calls
    if not calls or len(body) % per or (fresh and calls[0]["draw"].size != B * n):
        return calls
    rbm = st.rbm_am
    close = lambda x, y: x.shape == y.shape and bool(np.allclose(x, y, rtol=1e-9, atol=1e-12))  # noqa: E731

    def fix(c, pe):
        pe = np.asarray(pe, dtype=np.float64).ravel()
        if not close(c["p"], pe) and close(c["p"], 1.0 - pe):
            c = dict(c, p=1.0 - c["p"], draw=1 - c["draw"], complement=True)
        return c

    try:
        out = list(calls[:1]) if fresh else []
        v = (calls[0]["draw"] if fresh else np.asarray(start_rows)).reshape(B, n).astype(np.float64)
        for s_ in range(len(body) // per):
            cs = body[per * s_: per * s_ + per]
            c0 = fix(cs[0], rbm.prob_h_given_v(tt(v.tolist(), n)).numpy())
            if c0["draw"].size != B * h:
                return calls
            hd = c0["draw"].reshape(B, h).astype(np.float64)
            if kind == "dens":
                c1 = fix(cs[1], rbm.prob_a_given_v(tt(v.tolist(), n)).numpy())
                if c1["draw"].size != B * a:
                    return calls
                ad = c1["draw"].reshape(B, a).astype(np.float64)
                c2 = fix(cs[2], rbm.prob_v_given_ha(tt(hd.tolist(), h), tt(ad.tolist(), a)).numpy())
                out += [c0, c1, c2]
            else:
                c2 = fix(cs[1], rbm.prob_v_given_h(tt(hd.tolist(), h)).numpy())
                out += [c0, c2]
            if c2["draw"].size != B * n:
                return calls
            v = c2["draw"].reshape(B, n).astype(np.float64)
        return out
    except Exception:
        return calls


def step_sizes(kind, n, h, a):
    return [h, a, n] if kind == "dens" else [h, n]


def consistency_oracle(ctx, st, kind, n, h, a, start_rows, calls, vector, case, tag):
    """the property restated on the implementation alone: in every pass the probabilities presented to the sampler are
    the PUBLIC conditionals of the current visible state, resp. of the hidden (and auxiliary) draws of THIS pass."""
    rbm = st.rbm_am
    B = len(start_rows)
    v = np.asarray(start_rows, dtype=np.float64).reshape(B, n)
    per = 3 if kind == "dens" else 2
    ok = len(calls) % per == 0
    detail = None
    if ok:
        for s in range(len(calls) // per):
            cs = calls[per * s: per * s + per]
            try:
                ph = rbm.prob_h_given_v(tt(v.tolist(), n)).numpy().ravel()
                good = np.allclose(cs[0]["p"], ph, rtol=1e-12, atol=1e-15)
                hd = cs[0]["draw"].reshape(B, h).astype(np.float64)
                if kind == "dens":
                    pa = rbm.prob_a_given_v(tt(v.tolist(), n)).numpy().ravel()
                    good &= np.allclose(cs[1]["p"], pa, rtol=1e-12, atol=1e-15)
                    ad = cs[1]["draw"].reshape(B, a).astype(np.float64)
                    pv = rbm.prob_v_given_ha(tt(hd.tolist(), h), tt(ad.tolist(), a)).numpy().ravel()
                else:
                    pv = rbm.prob_v_given_h(tt(hd.tolist(), h)).numpy().ravel()
                good &= np.allclose(cs[-1]["p"], pv, rtol=1e-12, atol=1e-15)
                v = cs[-1]["draw"].reshape(B, n).astype(np.float64)
            except Exception as e:  # shape mismatch etc.
                good = False
                detail = {"exception": repr(e)}
            if not good:
                ok = False
                detail = detail or {"pass": s}
                break
    else:
        detail = {"calls": len(calls)}
    ctx.oracle(f"{tag}: every pass presents the public conditionals of the current state / of this pass's draws", bool(ok), case,
               detail=detail, sig=f"{kind}/replay-consistency", theorem="C05_kernel(_purif)")
    return v


def run_call(ctx, st, kind, n, h, a, am, k, start_rows, vector, overwrite, dtype, mode, dseed, case, tag, api, init=None, owf=None, A=None):
    """one recorded call of sample/gibbs_steps + its replay on the model. returns (result tensor, calls, final rows).
    `init`: a start tensor built earlier (holding `start_rows`) that is handed to the implementation AGAIN.
    `owf`: flag form {"form", "pos"} of the `overwrite` argument: the truth value `overwrite` is handed over as that kind of object
    (bool singleton / int / numpy bool / result of a numpy comparison / 0-dim bool array / 0-dim bool tensor), by keyword or positionally.
    `A`: the case's argument-form stream: `k` and `num_samples` are handed over as the integer objects it draws (None: Python ints)"""
    A = A if A is not None else af.Args(None)
    ow_desc = qc.flag_desc(owf, overwrite)
    ow_obj = qc.flag_value(ow_desc)
    ctx.count(f"overwrite given as {ow_desc['form']}:{'positional' if qc.flag_pos(owf) else 'keyword'}")
    B = len(start_rows) if start_rows is not None else case["B"]
    tdt = torch.double if dtype == "double" else torch.float32
    if start_rows is not None:
        if init is None:
            init = torch.tensor(start_rows[0] if vector else start_rows, dtype=tdt)
            if not vector:
                init = init.reshape(B, n)
            # memory layout of the caller's start tensor (round 6): a dense tensor, or a strided VIEW of a larger buffer the caller owns
            # (a column block / every second row of a persistent-chain buffer).  "Updated in place" is a statement about the tensor
            # the caller passed, whatever its strides; the rest of the caller's buffer must stay as it was.
            layout = case.get("layout", "dense")
            if layout != "dense":
                dense = init
                if vector:
                    outer = torch.full((2 * n + 1,), 7.0, dtype=tdt); init = outer[1::2]
                elif layout == "cols":
                    outer = torch.full((B, n + 3), 7.0, dtype=tdt); init = outer[:, 2:n + 2]
                else:
                    outer = torch.full((2 * B + 1, n), 7.0, dtype=tdt); init = outer[1::2]
                init.copy_(dense)
                ctx.count(f"start tensor layout {layout} (contiguous={init.is_contiguous()})")
                case["_outer"] = (outer, init)
        before = init.clone()
        ptr = init.data_ptr()
    ko = A.i(k)
    with Recorder(dseed, mode) as rec:
        if init is None:
            res = st.sample(ko, A.i(B)) if A.coin(0.5) else st.sample(ko, num_samples=A.i(B))
        elif api == "sample":
            res = st.sample(ko, A.i(B), init, ow_obj) if qc.flag_pos(owf) else st.sample(ko, initial_state=init, overwrite=ow_obj)
        else:
            res = st.rbm_am.gibbs_steps(ko, init, ow_obj) if qc.flag_pos(owf) else st.rbm_am.gibbs_steps(ko, init, overwrite=ow_obj)
    for d_ in A.ints.used:
        ctx.count(f"k / num_samples given as {d_['form']}")
    A.ints.used.clear()
    calls = canonical_calls(st, kind, n, h, a, rec.calls, B, start_rows, fresh=init is None)
    calls = decomplement(st, kind, n, h, a, calls, B, start_rows, fresh=init is None)
    sizes = step_sizes(kind, n, h, a)
    exp_shapes = ([[B, n]] if init is None else []) + [([m] if vector else [B, m]) for _ in range(k) for m in sizes]
    got_shapes = [c["shape"] for c in calls]
    res_np = res.detach().to(torch.double).numpy().copy()
    if res_np.size != B * n:
        # not the requested number of chains / sites (e.g. `num_samples` or a size not honoured): nothing else can be evaluated on this call
        ctx.oracle(f"{tag}: result is a 0/1 array of the requested shape", False, case,
                   detail={"shape": list(res.shape), "dtype": str(res.dtype), "requested": [n] if vector else [B, n]}, sig=f"{kind}/values-shape", theorem="C05_values_shape")
        return res, calls, None
    final = res_np.reshape(B, n)
    if not calls and exp_shapes:
        # the implementation made its draws without torch.bernoulli (e.g. thresholded uniforms): the scripted replay cannot be
        # applied.  That is a broken correspondence, not a violation of the property: only the effect oracles below decide.
        ctx.point(f"{tag}: draws are made through torch.bernoulli (scripted replay applicable)", "aux", 0, len(exp_shapes), case, exact=True,
                  sig=f"{kind}/draws-not-through-bernoulli", theorem=TH["replay"])
        okv = (tuple(res.shape) == ((n,) if vector else (B, n)) and bool(np.all((final == 0) | (final == 1))))
        ctx.count(f"result dtype {res.dtype}")   # informational: the statement says "0/1 arrays of the requested shape", not which element type
        ctx.oracle(f"{tag}: result is a 0/1 array of the requested shape", okv, case, detail={"shape": list(res.shape), "dtype": str(res.dtype)},
                   sig=f"{kind}/values-shape", theorem="C05_values_shape")
        return res, calls, final
    # ---- oracles on the implementation
    okv = (tuple(res.shape) == ((n,) if vector else (B, n)) and bool(np.all((final == 0) | (final == 1))))
    ctx.count(f"result dtype {res.dtype}")   # informational (see above)
    ctx.oracle(f"{tag}: result is a 0/1 array of the requested shape", okv, case, detail={"shape": list(res.shape), "dtype": str(res.dtype)},
               sig=f"{kind}/values-shape", theorem="C05_values_shape")
    pattern_ok = got_shapes == exp_shapes
    # how the draws are split into torch.bernoulli calls (one call per layer, layers concatenated, ...) is not constrained by the
    # property; when the recording does not have the shape the model scripts, the scripted replay cannot be applied: that is a
    # broken correspondence (ONE auxiliary point), and only the effect oracles decide this call
    ctx.point(f"{tag}: bernoulli call pattern (count, order h[,a],v, shapes) as the model scripts it", "aux", got_shapes, exp_shapes, case, exact=True,
              sig=f"{kind}/call-pattern", theorem="C05_kernel(_purif)")
    if calls:
        # ... but HOW MANY units are drawn is constrained: every step draws every hidden (and auxiliary) unit and then every visible
        # unit of every chain, so the number of Bernoulli elements drawn through torch.bernoulli is fixed by (B, k, sizes); how a fresh
        # start state is drawn (B*n more elements, or none when it comes from another torch function) is not part of a step
        tot = lambda shp: int(sum(int(np.prod(x)) for x in shp))  # noqa: E731
        ctx.oracle(f"{tag}: every step draws every hidden (auxiliary) and visible unit of every chain exactly once", tot(got_shapes) in ((tot(exp_shapes), tot(exp_shapes) - B * n) if init is None else (tot(exp_shapes),)), case,
                   detail={"elements_drawn": tot(got_shapes), "expected": tot(exp_shapes), "got": got_shapes}, sig=f"{kind}/draw-count",
                   theorem="C05_kernel(_purif)")
    if init is not None:
        same = res.data_ptr() == ptr
        if overwrite and dtype != "double":
            # a start tensor whose element type is not the parameters' (float32 here) handed over WITH overwrite=True: the statement says
            # "updated in place" and does not mention element types; the code converts the start state (a copy) and leaves the caller's
            # tensor alone.  Both readings are accepted at property level - the tensor is either untouched or holds the returned values -
            # and which one happened is an informational counter; the model's `native = false` branch is compared as an AUXILIARY point below.
            untouched = bool(torch.equal(init, before)) and init.data_ptr() == ptr
            inplace = bool(torch.equal(init.to(torch.double).reshape(B, n), torch.from_numpy(final)))
            ctx.count("foreign-dtype start, overwrite=True: " + ("caller's tensor untouched" if untouched else "updated in place" if inplace else "neither"))
            ctx.oracle(f"{tag}: foreign-dtype start state with overwrite=True is either left untouched or holds the returned values", untouched or inplace, case,
                       detail={"same_object": same, "before": before.tolist(), "after": init.tolist(), "result": final.tolist()},
                       sig=f"{kind}/overwrite-foreign-dtype", theorem="C05_overwrite (guarded exception: non-native start state)")
        elif not overwrite:
            okb = (not same) and bool(torch.equal(init, before)) and init.data_ptr() == ptr
            ctx.oracle(f"{tag}: caller's start state untouched, result is another object", okb, case,
                       detail={"same_object": same, "before": before.tolist(), "after": init.tolist(), "overwrite_given_as": repr(ow_obj)},
                       sig=f"{kind}/overwrite-false", theorem="C05_overwrite, C05_overwrite_flag")
        else:
            okb = same and (res is init) and bool(torch.equal(init.reshape(B, n), torch.from_numpy(final)))
            ctx.oracle(f"{tag}: overwrite=True updates the caller's tensor in place and returns it", okb, case,
                       detail={"same_object": same, "after": init.tolist(), "result": final.tolist(), "overwrite_given_as": repr(ow_obj)},
                       sig=f"{kind}/overwrite-true", theorem="C05_overwrite, C05_overwrite_flag")
        if case.get("_outer") is not None and case["_outer"][1] is init:
            outer, view = case.pop("_outer")
            probe = outer.clone(); view_in_probe = probe.as_strided(view.shape, view.stride(), view.storage_offset()); view_in_probe.fill_(7.0)
            # informational only: the statement is about the tensor the caller passed (checked below/above), not about its neighbours in a
            # larger buffer.  Observed on this image: torch.matmul(..., out=<1-D strided view>) writes the elements CONTIGUOUSLY from the
            # view's first address (torch behaviour, not QuCumber's), so a 1-D strided start vector with overwrite=True clobbers the
            # neighbouring elements of the caller's buffer while the view itself ends up holding the returned values.
            ctx.count("caller's buffer outside the strided start view: " + ("untouched" if bool(torch.all(probe == 7.0)) else f"WRITTEN (layout {case.get('layout')}, vector={vector})"))
        case.pop("_outer", None)
        ctx.count("draws written in place (out= aliases the probability buffer)" if all(c["out"] and c["alias"] for c in calls) else "draws not in place")
    if not pattern_ok:
        return res, [], final
    step_calls = calls[1:] if init is None and calls else calls
    chain_start = start_rows if init is not None else (calls[0]["draw"].reshape(B, n).tolist() if calls else None)
    if chain_start is not None and got_shapes == exp_shapes:
        last = consistency_oracle(ctx, st, kind, n, h, a, chain_start, step_calls, vector, case, tag)
        ctx.oracle(f"{tag}: returned state is the last visible draw", bool(np.array_equal(last, final)), case, sig=f"{kind}/final-is-last-draw")
    # ---- model replay
    if ctx.driver is not None:
        draws = [int(x) for c in calls for x in c["draw"]]
        probs = np.concatenate([c["p"] for c in calls]) if calls else np.zeros(0)
        req = {"kind": mkind(kind), "n": n, "h": h, "a": a, "p": qc.pbits(am), "B": B, "k": k, "draws": draws,
               "start": None if init is None else [[int(x) for x in r] for r in start_rows],
               "overwrite": ow_desc, "init_id": 1, "init_native": dtype == "double", "fresh": 2}   # the OBJECT passed: gibbsCallF
        m = ctx.driver.call("c05.replay", **req)
        if m.get("short"):
            ctx.point(f"{tag}: replay consumes the recording", "property", len(draws), "model needs more draws", case, exact=True,
                      sig=f"{kind}/replay-count", theorem=TH["replay"])
        else:
            mshapes = [([s[1]] if vector else s) for s in m["shapes"]]
            ctx.point(f"{tag}: call count/order/shapes", "property", got_shapes, mshapes, case, exact=True, sig=f"{kind}/replay-order", theorem=TH["replay"])
            ctx.point(f"{tag}: number of draws", "property", len(draws), len(draws) - m["leftover"], case, exact=True, sig=f"{kind}/replay-count", theorem=TH["replay"])
            if got_shapes == mshapes and m["leftover"] == 0:
                ctx.point(f"{tag}: probabilities presented to the sampler", "property", probs, unbits(m["probs"]) if m["probs"] else np.zeros(0), case,
                          sig=f"{kind}/replay-probs", theorem=TH["replay"])
            ctx.point(f"{tag}: final state", "property", final.astype(int).tolist(), m["final"], case, exact=True, sig=f"{kind}/replay-final", theorem=TH["final"])
            if init is not None:
                # (overwrite=True on a start state of a foreign element type is outside what the statement fixes: auxiliary there, see above)
                lvl = "aux" if (overwrite and dtype != "double") else "property"
                ctx.point(f"{tag}: returned tensor is the caller's tensor", lvl, bool(res.data_ptr() == ptr), m["same_object"], case, exact=True,
                          sig=f"{kind}/buffer-identity", theorem=TH["buf"])
                ctx.point(f"{tag}: caller's tensor after the call", lvl, init.to(torch.double).reshape(B, n).numpy().astype(int).tolist(), m["caller_data"], case,
                          exact=True, sig=f"{kind}/caller-buffer", theorem=TH["buf"])
    return res, calls, final


def replay_case(ctx, case):
    am = case["am"]
    st, A = build_checked(ctx, case)
    if st is None:
        return
    replay_body(ctx, st, case, am, A=A)


def replay_body(ctx, st, case, am, inp=None, ikey=None, A=None):
    """part (b) on the state object `st` whose amplitude network is supposed to carry `am`; `case` holds the call description.
    With `inp`/`ikey` the start tensor of a non-overwriting native-dtype call is taken from / kept in `inp` (same object next time).
    `A`: argument-form stream for the integer options of the calls (default: a stream seeded by the call description's own `aseed`;
    descriptions stored before round 5 have none: Python ints)."""
    A = A if A is not None else af.Args(case.get("aseed"))
    kind, n, h, a = (case[k] for k in ("kind", "n", "h", "a"))
    k, vector, ow, dtype, mode, dseed = (case[x] for x in ("k", "vector", "overwrite", "dtype", "mode", "dseed"))
    start = case["start"]
    nontriv = any(x != 0 for x in am["c"]) and k >= 1
    ctx.case({x: case[x] for x in case if x not in ("ph", "scale")}, nontrivial=nontriv,
             sample={"part": "replay", "kind": kind, "n": n, "h": h, "a": a, "k": k, "B": case["B"], "overwrite": ow, "mode": mode,
                     "start": "none" if start is None else start[:2]})
    for key in ("part=replay", f"kind={kind}", f"k={k}", f"overwrite={ow}", f"mode={mode}", f"dtype={dtype}",
                "form=" + ("fresh" if start is None else "vector" if vector else "batch"), f"api={case['api']}"):
        ctx.count(key)
    init = None
    if inp is not None and start is not None and not ow and dtype == "double":
        init = inp.get(ikey, start[0] if vector else start, n, vector=vector)
    res, calls, final = run_call(ctx, st, kind, n, h, a, am, k, start, vector, ow, dtype, mode, dseed, case, "call1", case["api"], init=init,
                                 owf=case.get("owf"), A=A)
    k2 = case.get("k2")
    if final is None:
        return
    if k2 is not None:
        # chain continued across calls: start the second call from the tensor the first one returned
        ctx.count("continued")
        before2 = res.clone()
        ptr2 = res.data_ptr()
        ow2 = qc.flag_value(qc.flag_desc(case.get("owf2"), case["overwrite2"]))
        ctx.count(f"overwrite given as {qc.flag_desc(case.get('owf2'), False)['form']}:{'positional' if qc.flag_pos(case.get('owf2')) else 'keyword'}")
        with Recorder(dseed + 1, mode) as rec2:
            res2 = st.sample(A.i(k2), A.i(case["B"]), res, ow2) if qc.flag_pos(case.get("owf2")) else st.sample(A.i(k2), initial_state=res, overwrite=ow2)
        if res2.numel() != case["B"] * n:
            ctx.oracle("call2: result is a 0/1 array of the requested shape", False, case, detail={"shape": list(res2.shape)},
                       sig=f"{kind}/values-shape", theorem="C05_values_shape")
            return
        fin2 = res2.detach().numpy().reshape(case["B"], n).copy()
        same2 = res2.data_ptr() == ptr2
        b2rows = before2.detach().to(torch.double).numpy().reshape(case["B"], n).tolist()
        rec2.calls = decomplement(st, kind, n, h, a, canonical_calls(st, kind, n, h, a, rec2.calls, case["B"], b2rows, fresh=False),
                                  case["B"], b2rows, fresh=False)
        ctx.oracle("call2: buffer semantics on the continued chain", bool(same2 == case["overwrite2"] and (case["overwrite2"] or torch.equal(res, before2))), case,
                   detail={"overwrite_given_as": repr(ow2), "same_object": bool(same2)}, sig=f"{kind}/continue-buffer", theorem="C05_overwrite, C05_overwrite_flag")
        scripted = bool(calls or rec2.calls) or (k + k2 == 0 and start is not None)  # else: draws not made through torch.bernoulli (aux point above)
        exp2 = [[case["B"], m_] for _ in range(k2) for m_ in step_sizes(kind, n, h, a)]
        if [c["shape"] for c in rec2.calls] != exp2 or (not calls and (k > 0 or start is None)):
            scripted = False  # the recording does not have the shape the model scripts (aux point `call-pattern` of call1 / counted here)
            ctx.count("continued chain: scripted replay not applicable")
        if ctx.driver is not None and scripted and (start is not None or calls):
            chain_start = start if start is not None else calls[0]["draw"].reshape(case["B"], n).tolist()
            c1 = calls[1:] if start is None else calls
            draws = [int(x) for c in c1 + rec2.calls for x in c["draw"]]
            probs = np.concatenate([c["p"] for c in c1 + rec2.calls]) if (c1 + rec2.calls) else np.zeros(0)
            m = ctx.driver.call("c05.replay", kind=mkind(kind), n=n, h=h, a=a, p=qc.pbits(am), B=case["B"], k=k + k2, draws=draws,
                                start=[[int(x) for x in r] for r in chain_start], overwrite=False, init_id=1, init_native=True, fresh=2)
            if m.get("short"):
                ctx.point("continued chain: k1 then k2 passes == k1+k2 passes (draw count)", "property", len(draws), "model needs more draws", case, exact=True,
                          sig=f"{kind}/continue", theorem=TH["cont"])
            else:
                ctx.point("continued chain: k1 then k2 passes == k1+k2 passes (final state)", "property", fin2.astype(int).tolist(), m["final"], case, exact=True,
                          sig=f"{kind}/continue", theorem=TH["cont"])
                if m["leftover"] == 0 and len(m["probs"]) == len(probs):
                    ctx.point("continued chain: probabilities presented", "property", probs, unbits(m["probs"]) if m["probs"] else np.zeros(0), case,
                              sig=f"{kind}/continue-probs", theorem=TH["cont"])
                else:
                    ctx.point("continued chain: number of draws", "property", len(draws), len(m["probs"]), case, exact=True, sig=f"{kind}/continue", theorem=TH["cont"])


# ------------------------------------------------------------------ part (d): history on one state object
def history_case(ctx, case):
    """phase 0: parts (a),(b) on a state built with (am, ph); then for every write: overwrite ALL parameters of the same object and
    evaluate parts (a),(b) again with the SAME argument tensors against the model at the parameters just written"""
    kind, n, h, a, am, ph = (case[k] for k in ("kind", "n", "h", "a", "am", "ph"))
    st, _ = build_checked(ctx, case)
    if st is None:
        return
    writes = case["writes"]
    nontriv = any(x != 0 for x in am["c"]) and all(w["am"]["W"] != am["W"] for w in writes)
    ctx.case({k: case[k] for k in ("part", "kind", "n", "h", "a", "am", "writes", "samples")}, nontrivial=nontriv,
             sample={"part": "history", "kind": kind, "n": n, "h": h, "a": a, "writes": [w["mode"] for w in writes]})
    for key in ("part=history", f"kind={kind}", f"history writes={len(writes)}"):
        ctx.count(key)
    inp = Inputs()
    phases = [(None, am, ph)] + [(w["mode"], w["am"], w["ph"]) for w in writes]
    for i, (wmode, am_i, ph_i) in enumerate(phases):
        if wmode is not None:
            rewrite(st, am_i, ph_i, wmode)
            ctx.count(f"write={wmode}")
        sub = SubCtx(ctx, outer=case, prefix=f"phase{i}: ", sigsuffix="" if i == 0 else "@rewritten", countprefix="history:")
        cond_eval(sub, st, case, am_i, inp)
        for j, spec in enumerate(case["samples"]):
            sc = dict(spec, kind=kind, n=n, h=h, a=a)
            replay_body(SubCtx(ctx, outer=case, prefix=f"phase{i}/sample{j}: ", sigsuffix="" if i == 0 else "@rewritten", countprefix="history:"),
                        st, sc, am_i, inp=inp, ikey=f"start.{j}")
        bad_in = inp.modified()
        ctx.oracle(f"phase{i}: argument tensors unmodified", not bad_in, case, detail={"modified": bad_in}, sig=f"{kind}/args-untouched")
    sub = SubCtx(ctx, outer=case, sigprefix=f"{kind}/")
    alternation(sub, st, case, c05_thunks(st, case, inp, [phases[-1][1], phases[0][1]]), [phases[-1][1:], phases[0][1:]], case.get("alt_off", 0), "alternation")
    bad_in = inp.modified()
    ctx.oracle("alternation: argument tensors unmodified", not bad_in, case, detail={"modified": bad_in}, sig=f"{kind}/args-untouched")


def c05_thunks(st, case, inp, ams):
    """the observables of C05 as (name, call, numpy reference per parameter set, theorem) for `alternation`"""
    kind, n, h, a = (case[k] for k in ("kind", "n", "h", "a"))
    dens = kind == "dens"
    rbm = lambda: st.rbm_am  # noqa: E731  (looked up at call time: the attribute may be re-bound)
    vrows, hrows, arows = cond_rows(case)
    V = qc.all_states(n)
    vt, ht = inp.get("vrows", vrows, n), inp.get("hrows", hrows, h)
    at = inp.get("arows", arows, a) if dens else None
    space = inp.get("K.V", V, n)
    v1 = inp.get("v1.0", vrows[0], n, vector=True)
    refs = []
    for am in ams:
        r = np_conditionals(kind, am, vrows, hrows, arows)
        r["E"] = np_energy(kind, am, vrows)
        with np.errstate(all="ignore"):
            r["p"] = np.exp(-r["E"][:len(V)])
            m = np.max(-r["E"][:len(V)])
            r["Z"] = np.exp(m + np.log(np.sum(np.exp(-r["E"][:len(V)] - m))))
        if dens:
            nb = min(len(vrows), len(arows))
            r["Ea"] = np_energy(kind, am, vrows[:nb], arows[:nb])
        refs.append(r)
    T = TH["cond"]
    th = [("prob_h_given_v", lambda: rbm().prob_h_given_v(vt).numpy().copy(), lambda k: refs[k]["h"], T, 1.0),
          ("prob_v_given_h[a]", (lambda: rbm().prob_v_given_ha(ht, at).numpy().copy()) if dens else (lambda: rbm().prob_v_given_h(ht).numpy().copy()),
           lambda k: refs[k]["v"], T, 1.0)]
    if dens:
        th.append(("prob_a_given_v", lambda: rbm().prob_a_given_v(vt).numpy().copy(), lambda k: refs[k]["a"], T, 1.0))
    th.append(("prob_h_given_v 1-D", lambda: rbm().prob_h_given_v(v1).numpy().copy(), lambda k: refs[k]["h"][0], T, 1.0))
    th.append(("effective_energy", lambda: rbm().effective_energy(vt).numpy().copy(), lambda k: refs[k]["E"], "C05_joint_marginal(_purif)", 1.0))
    if dens:
        nb = min(len(vrows), len(arows))
        vta, ata = inp.put("vrows.nb", vt[:nb].clone()), inp.put("arows.nb", at[:nb].clone())
        th.append(("effective_energy(v,a)", lambda: rbm().effective_energy(vta, ata).numpy().copy(), lambda k: refs[k]["Ea"], "C05_joint_marginal_purif", 1.0))
    th.append(("probability", lambda: st.probability(space).numpy().copy(), lambda k: refs[k]["p"], TH["inv"]))
    th.append(("normalization", lambda: np.array([float(st.normalization(space))]), lambda k: np.array([refs[k]["Z"]]), TH["inv"]))

    # one scripted pass from every basis state: the probabilities presented to the sampler
    state = {}

    def one_pass():
        with Recorder(case["rseed"] % (2 ** 31), "coin") as rec:
            # overwrite=False in one of the falsy forms (chosen by the case): the shared `space` tensor must stay untouched
            st.sample(af.int_obj(qc.INT_FORMS[case["rseed"] % len(qc.INT_FORMS)] if "aseed" in case else "py", 1), initial_state=space, overwrite=qc.flag_value({"form": qc.FLAG_FORMS[case["rseed"] % len(qc.FLAG_FORMS)] if "gpuf" in case else "py",
                                                                        "value": False}))
        cl = canonical_calls(st, kind, n, h, a, rec.calls, len(V), V, fresh=False)
        cl = decomplement(st, kind, n, h, a, cl, len(V), V, fresh=False)
        sizes_ = [len(V) * m_ for m_ in step_sizes(kind, n, h, a)]
        if [c["draw"].size for c in cl] != sizes_:
            cl = []  # not the call pattern the model scripts: no verdict from this thunk (the replay part reports the broken correspondence)
        state["calls"] = cl
        return np.concatenate([c["p"] for c in cl]) if cl else np.zeros(0)

    def one_pass_ref(k):
        calls = state["calls"]
        B = len(V)
        if not calls:
            return np.zeros(0)
        try:
            hd = calls[0]["draw"].reshape(B, h).astype(np.float64)
            ad = calls[1]["draw"].reshape(B, a).astype(np.float64) if dens else None
            r = np_conditionals(kind, ams[k], V, hd, ad)
            return np.concatenate([r["h"].ravel()] + ([r["a"].ravel()] if dens else []) + [r["v"].ravel()])
        except Exception:  # call pattern broken: reported through the shape comparison
            return np.zeros(0)

    th.append(("sample(1): probabilities presented to the sampler", one_pass, one_pass_ref, TH["kernel"], 1.0))
    return th


# ------------------------------------------------------------------ part (c): statistical support (thorough)
def stat_case(ctx, case):
    kind, n, h, a, am, ph = (case[k] for k in ("kind", "n", "h", "a", "am", "ph"))
    st, A = build_checked(ctx, case)
    if st is None:
        return 0.0, 1.0
    N, k, start = case["N"], case["k"], case["start"]
    ctx.case({x: case[x] for x in case if x != "ph"}, nontrivial=True)
    ctx.count("part=stat"); ctx.count(f"stat k={k}")
    P = public_kernel(st, kind, n, h, a)
    Pk = np.linalg.matrix_power(P, k)
    idx0 = int("".join(map(str, start)), 2)
    torch.manual_seed(case["tseed"])
    init = torch.tensor(start, dtype=torch.double).repeat(N, 1)
    out = st.sample(A.i(k), initial_state=init, overwrite=False).numpy()
    w = (out @ (2 ** np.arange(n - 1, -1, -1))).astype(int)
    emp = np.bincount(w, minlength=2 ** n) / N
    eps = math.sqrt(math.log(2 * (2 ** n) / 1e-12) / (2 * N))
    sup = float(np.max(np.abs(emp - Pk[idx0])))
    ctx.oracle("STATISTICAL SUPPORT: empirical k-pass law vs (P^k)(start,.) within the Hoeffding bound", sup <= eps, case,
               detail={"sup": sup, "eps": eps, "emp": emp.tolist(), "Pk": Pk[idx0].tolist()}, sig=f"{kind}/stat-k{k}", theorem="C05_k_step_law(_purif)")
    return sup, eps


# ------------------------------------------------------------------ generation
def rand_model(rng, kind, n, h, a, scale):
    if kind == "dens":
        am = qc.rand_prbm_params(rng, n, h, a, scale)
        ph = qc.rand_prbm_params(rng, n, h, a, min(scale, 3.0), d_zero=True)
    else:
        am = qc.rand_rbm_params(rng, n, h, scale)
        ph = qc.rand_rbm_params(rng, n, h, min(scale, 3.0)) if kind == "cplx" else None
    return am, ph


def gen_models(ctx, thorough):
    scales = [0.1, 1.0, 3.0, 10.0, 30.0]
    archs = {"pos": [(n, h, 0) for n in range(1, 5) for h in range(1, 5)],
             "cplx": [(n, h, 0) for n in range(1, 5) for h in range(1, 5)],
             "dens": [(n, h, a) for n in range(1, 5) for h in range(1, 5) for a in range(1, 4)]}
    for kind in ("pos", "cplx", "dens"):
        al = list(archs[kind])
        if not thorough:
            ctx.rng.shuffle(al)
            al = al[:6] + ([(2, 3, 0), (4, 4, 0)] if kind != "dens" else [(2, 3, 2), (4, 4, 3), (3, 1, 1), (3, 2, 2)])
            if kind == "cplx":
                al = al[:4]
        for (n, h, a) in al:
            sc = scales if thorough else [ctx.rng.choice(scales[:3]), ctx.rng.choice(scales)]
            for scale in sc:
                am, ph = rand_model(ctx.rng, kind, n, h, a, scale)
                yield {"kind": kind, "n": n, "h": h, "a": a, "scale": scale, "am": am, "ph": ph, "gpuf": qc.flag_form(ctx.rng, plain=0.4),
                       "aseed": af.draw_aseed(ctx.rng)}


def gen_replays(ctx, model, thorough):
    rng = ctx.rng
    n = model["n"]
    allst = qc.all_states(n)

    def mk(**kw):
        c = dict(model)
        c.update({"part": "replay", "vector": False, "overwrite": False, "dtype": "double", "mode": "faithful", "api": "sample",
                  "dseed": rng.randrange(2 ** 31), "k2": None, "overwrite2": False})
        c.update(kw)
        c["B"] = kw.get("B", len(c["start"]) if c["start"] is not None else 1)
        c["owf"], c["owf2"] = qc.flag_form(rng), qc.flag_form(rng)   # the objects handed as `overwrite` (first call / continuation call)
        c["layout"] = ("dense", "cols", "rows")[c["dseed"] % 3] if c["start"] is not None else "dense"   # memory layout of the start tensor
        c["aseed"] = af.draw_aseed(rng)                               # the objects handed as sizes / `k` / `num_samples`
        return c

    # every start state as one batch (n <= 3), else a random batch with repeats
    if n <= 3:
        batch = allst + [allst[rng.randrange(len(allst))]]
    else:
        batch = [allst[rng.randrange(len(allst))] for _ in range(5)] + [allst[0], allst[-1]]
    for k in range(4):
        for ow in (False, True):
            yield mk(k=k, start=batch, overwrite=ow, mode=rng.choice(["faithful", "coin"]), api=rng.choice(["sample", "gibbs_steps"]))
    # single-vector form, every start state for n <= 2 (thorough: n <= 3)
    vs = allst if (n <= 2 or (thorough and n <= 3)) else [allst[rng.randrange(len(allst))] for _ in range(2)]
    for v in vs:
        yield mk(k=rng.randrange(1, 4), start=[v], vector=True, overwrite=rng.random() < 0.5, mode=rng.choice(["faithful", "coin"]))
    yield mk(k=0, start=[allst[-1]], vector=True, overwrite=True)
    # no initial state
    for k in ((0, 2) if not thorough else (0, 1, 2, 3)):
        yield mk(k=k, start=None, B=rng.randrange(1, 5), mode=rng.choice(["faithful", "coin"]))
    # chains continued across calls
    for _ in range(2 if not thorough else 4):
        yield mk(k=rng.randrange(0, 3), start=batch[:4], overwrite=rng.random() < 0.5, k2=rng.randrange(1, 3), overwrite2=rng.random() < 0.5,
                 mode=rng.choice(["faithful", "coin"]))
    yield mk(k=1, start=None, B=3, k2=2, overwrite2=True)
    # start state of a foreign dtype: never overwritten (guarded exception of C05_overwrite)
    yield mk(k=2, start=batch[:3], overwrite=True, dtype="float32")
    yield mk(k=1, start=batch[:2], overwrite=False, dtype="float32")


def gen_history(ctx, model, thorough, idx=0):
    """one history case per model: 1 or 2 writes (mode cycling through WRITE_MODES so that every mode occurs for every state kind),
    new parameters of an independently chosen scale, three scripted sampling calls per phase"""
    rng = ctx.rng
    kind, n, h, a = (model[k] for k in ("kind", "n", "h", "a"))
    allst = qc.all_states(n)
    nw = 2 if (idx % 3 == 2) else 1
    writes = []
    for q in range(nw):
        sc = rng.choice([0.1, 1.0, 3.0, 10.0])
        am2, ph2 = rand_model(rng, kind, n, h, a, sc)
        writes.append({"mode": WRITE_MODES[(idx + 5 * q) % len(WRITE_MODES)] if q == 0 else rng.choice(WRITE_MODES), "am": am2, "ph": ph2, "scale": sc})
    batch = (allst if n <= 3 else [allst[rng.randrange(len(allst))] for _ in range(6)])

    def spec(**kw):
        c = {"vector": False, "overwrite": False, "dtype": "double", "mode": "faithful", "api": "sample", "dseed": rng.randrange(2 ** 31),
             "k2": None, "overwrite2": False}
        c.update(kw)
        c["B"] = kw.get("B", len(c["start"]) if c["start"] is not None else 1)
        c["owf"], c["owf2"] = qc.flag_form(rng), qc.flag_form(rng)
        c["aseed"] = af.draw_aseed(rng)
        c["layout"] = ("dense", "cols", "rows")[c["dseed"] % 3] if c["start"] is not None else "dense"
        return c

    samples = [spec(k=rng.randrange(1, 4), start=batch, mode=rng.choice(["faithful", "coin"])),
               spec(k=rng.randrange(1, 3), start=batch[:3], overwrite=True, api="gibbs_steps", k2=rng.randrange(1, 3), overwrite2=rng.random() < 0.5),
               spec(k=rng.randrange(1, 3), start=[allst[rng.randrange(len(allst))]], vector=True, mode="coin")
               if idx % 2 == 0 else spec(k=2, start=None, B=rng.randrange(1, 4))]
    c = dict(model)
    c.update({"part": "history", "rseed": rng.randrange(2 ** 31), "writes": writes, "samples": samples, "alt_off": idx,
              "law": (n + h + a <= (9 if thorough else 7))})
    return c


def gen_stats(ctx):
    """three small models per state type, fixed starts, k = 1,2,3"""
    for kind in ("pos", "cplx", "dens"):
        for (n, h, a, scale) in [(2, 2, 1, 1.0), (3, 2, 2, 1.0), (3, 4, 1, 3.0)]:
            am, ph = rand_model(ctx.rng, kind, n, h, a if kind == "dens" else 0, scale)
            for start in ([0] * n, [1] + [0] * (n - 1)):
                for k in (1, 2, 3):
                    yield {"part": "stat", "kind": kind, "n": n, "h": h, "a": a if kind == "dens" else 0, "scale": scale, "am": am, "ph": ph,
                           "N": 200000, "k": k, "start": start, "tseed": ctx.rng.randrange(2 ** 31), "aseed": af.draw_aseed(ctx.rng)}


# ------------------------------------------------------------------ call forms (extension round 2)
CALLFORM_THEOREM = "C05_call_forms / C05_vector_form_is_row"


def callform_case(ctx, case):
    """one decorated public method of the REAL RBM on tensor arguments against the model of `auto_unsqueeze_args` around the per-state
    conditional (op c05.callform): accepted-or-refused, exact result shape, entries"""
    kind, n, h, a, am, fn = case["kind"], case["n"], case["h"], case["a"], case["am"], case["fn"]
    ctx.current_case = case
    st = build(kind, n, h, a, am, case["ph"])
    rbm = st.rbm_am
    dims = {"rbm_h_given_v": (n, None), "rbm_v_given_h": (h, None), "p_h_given_v": (n, None), "p_a_given_v": (n, None),
            "p_v_given_ha": (h, a), "p_energy": (n, a)}[fn]
    x = torch.tensor(case["x"]["rows"], dtype=torch.double).reshape(*case["x"]["lead"], dims[0])
    y = None if case.get("y") is None else torch.tensor(case["y"]["rows"], dtype=torch.double).reshape(*case["y"]["lead"], dims[1])
    xl, yl = case["x"]["lead"], (None if y is None else case["y"]["lead"])
    plain = len(xl) <= 1 and (yl is None or yl == xl)
    # audit 3, B-4: C05 never mentions effective_energy (parts (a)/(e) tie it at aux) -> aux at most, and its VECTOR-form shape (docstring
    # "(b,) or (1,)") is only recorded; B-15: forms outside the quantifier (mixed ranks, rank-3) are recorded only - outcome, shape, entries
    energy = fn == "p_energy"
    level = ("aux" if energy else "property") if plain else "info"
    thm = "C05_call_forms_ha" if fn == "p_v_given_ha" else CALLFORM_THEOREM
    form = f"x{xl}" + ("" if yl is None else f"/y{yl}")
    ctx.case(case, nontrivial=any(v != 0 for v in am["b"]) and any(v != 0 for v in am["c"]), sample={"callform": fn, "x": xl, "y": yl})
    ctx.count(f"callform/{fn}/" + ("vector" if xl == [] and yl in (None, []) else "batch" if plain else "rank3" if len(xl) > 1 else "mixed"))
    f = {"rbm_h_given_v": lambda: rbm.prob_h_given_v(x), "rbm_v_given_h": lambda: rbm.prob_v_given_h(x),
         "p_h_given_v": lambda: rbm.prob_h_given_v(x), "p_a_given_v": lambda: rbm.prob_a_given_v(x),
         "p_v_given_ha": lambda: rbm.prob_v_given_ha(x, y),
         "p_energy": (lambda: rbm.effective_energy(x)) if y is None else (lambda: rbm.effective_energy(x, y))}[fn]
    x0 = x.clone()
    impl = cs.impl_result(f, "scalar" if fn == "p_energy" else "vec")
    ctx.count(f"callform/{fn}: " + ("refused" if impl["refused"] else "accepted"))
    if plain and not energy:
        ctx.oracle("vector / batch call form accepted, leading shape kept", (not impl["refused"]) and impl["shape"] == xl, case,
                   detail=impl.get("exc") or {"shape": impl.get("shape")}, sig=f"callform/{fn}/shape-oracle", theorem=thm)
    elif plain:
        # effective_energy is not C05's subject: no property oracle (audit 3, B-4)
        ctx.info(f"callform/{fn}: vector / batch form accepted, leading shape kept", (not impl["refused"]) and impl["shape"] == xl, True)
    if ctx.driver is not None:
        req = {"fn": fn, "n": n, "h": h, "a": a, "r": qc.pbits(am), "x": cs.arg(x), "y": None if y is None else cs.arg(y)}
        model = cs.model_result(ctx.driver.call("c05.callform", **req))
        sc = float(np.max(np.abs(impl["data"]))) + 1e-300 if not impl["refused"] and impl["data"].size else 1.0
        _cf_compare(ctx, f"{fn} ({form})", level, impl, model, case, thm, f"callform/{fn}/" + ("plain" if plain else "other"), sc,
                    shape_info=energy and xl == [])
    ctx.point("argument unmodified (call forms)", "aux", bool(torch.equal(x, x0)), True, case, exact=True, sig="callform/arg-modified")


def _cf_compare(ctx, name, level, impl, model, case, theorem, sig, scale, shape_info=False):
    """cs.compare with two extra levels of restraint (audit 3, B-4 / B-15): level "info" = a call form outside the property's quantifier
    ("every state type", vector and batched states): outcome, shape and entries are RECORDED, never judged (a per-position decorator fix or
    an up-front rank check keeps the property); shape_info = the result shape is recorded only, the entries are compared flat"""
    if level != "info" and not shape_info:
        return cs.compare(ctx, name, level, impl, model, case, theorem, sig, scale=scale)
    ishape = [int(x) if not isinstance(x, str) else x for x in impl["shape"]] if not impl["refused"] else None
    if level == "info":
        if not ctx.info(name + ": accepted / refused (form outside the quantifier)", impl["refused"], model["refused"]) or impl["refused"]:
            return
        if ctx.info(name + ": result shape (form outside the quantifier)", ishape, model["shape"]):
            a, b = impl["data"].ravel(), model["data"].ravel()
            ctx.info(name + ": entries (form outside the quantifier)", bool(a.shape == b.shape and np.allclose(a, b, rtol=1e-9, atol=1e-12 * scale)), True)
        return
    ok = ctx.point(name + ": accepted / refused", level, "refused" if impl["refused"] else "accepted",
                   "refused" if model["refused"] else "accepted", case, exact=True, theorem=theorem, sig=sig + "/outcome")
    if not ok or impl["refused"]:
        return
    ctx.info(name + ": result shape (vector form of a method the property does not name)", ishape, model["shape"])
    if impl["data"].size == model["data"].size:
        ctx.point(name + ": entries", level, impl["data"].ravel(), model["data"].ravel(), case, scale=scale, theorem=theorem, sig=sig + "/entries")


def gen_callforms(ctx, thorough):
    rng = ctx.rng
    single = [[], [1], [2], [3], [2, 2], [1, 3]]
    for rep in range(10 if thorough else 4):
        kind = ["pos", "dens"][rep % 2]
        n, h, a = rng.choice([1, 2, 3, 4]), rng.choice([1, 2, 3, 4]), (rng.choice([1, 2, 3]) if kind == "dens" else 0)
        scale = rng.choice([0.1, 1.0, 3.0])
        am, ph = rand_model(rng, kind, n, h, a, scale)
        base = {"part": "callform", "kind": kind, "n": n, "h": h, "a": a, "scale": scale, "am": am, "ph": ph}
        T = lambda lead, m: {"lead": lead, "rows": cs.rows_of(cs.rand_tensor(rng, lead, m))}  # noqa: E731
        if kind == "pos":
            for lead in single:
                yield {**base, "fn": "rbm_h_given_v", "x": T(lead, n)}
                yield {**base, "fn": "rbm_v_given_h", "x": T(lead, h)}
        else:
            B = rng.choice([2, 3])
            for lead in single:
                yield {**base, "fn": "p_h_given_v", "x": T(lead, n)}
                yield {**base, "fn": "p_a_given_v", "x": T(lead, n)}
                yield {**base, "fn": "p_energy", "x": T(lead, n)}
            for (xl, yl) in ([], []), ([B], [B]), ([1], [1]), ([B], []), ([1], []), ([], [B]), ([], [1]), ([B], [1]), ([1], [B]):
                yield {**base, "fn": "p_v_given_ha", "x": T(xl, h), "y": T(yl, a)}
            for (xl, yl) in ([], []), ([B], [B]), ([B], []), ([], [B]), ([1], [B]):
                yield {**base, "fn": "p_energy", "x": T(xl, n), "y": T(yl, a)}


# ------------------------------------------------------------------ part (f): the public one-step samplers and their out= buffer
class RealBernoulli:
    """records the probabilities handed to the REAL torch.bernoulli and what it returned (its own out= semantics untouched)"""

    def __enter__(self):
        self.orig = torch.bernoulli
        self.calls = []

        def bern(p, *args, **kw):
            pc = p.detach().clone()
            res = self.orig(p, *args, **kw)
            self.calls.append({"p": pc.to(torch.double).numpy().copy(), "draw": res.detach().to(torch.double).numpy().copy(), "out": kw.get("out") is not None})
            return res

        torch.bernoulli = bern
        return self

    def __exit__(self, *exc):
        torch.bernoulli = self.orig
        return False


SSTEP_FNS = {"pos": ["h_given_v", "v_given_h"], "cplx": ["h_given_v", "v_given_h"], "dens": ["h_given_v", "a_given_v", "v_given_ha"]}


def sstep_case(ctx, case):
    """sample_h_given_v / sample_v_given_h / sample_a_given_v / sample_v_given_ha called directly, with and without out="""
    kind, n, h, a, am, fn, B, with_out = (case[k] for k in ("kind", "n", "h", "a", "am", "fn", "B", "with_out"))
    st = build(kind, n, h, a, am, case["ph"], case.get("gpuf"))
    rbm = st.rbm_am
    rs = np.random.RandomState(case["xseed"])
    dim_in = {"h_given_v": n, "a_given_v": n, "v_given_h": h, "v_given_ha": h}[fn]
    m = {"h_given_v": h, "a_given_v": a, "v_given_h": n, "v_given_ha": n}[fn]

    def rows(d):
        r = rs.randint(0, 2, size=(B, d)).astype(np.float64)
        return r if case["bits"] else r + rs.uniform(-0.5, 0.5, size=(B, d))

    x = rows(dim_in)
    y = rows(a) if fn == "v_given_ha" else None
    garbage = 42.0 + rs.uniform(0, 1, size=(B, m))
    out = torch.from_numpy(garbage.copy()) if with_out else None
    torch.manual_seed(case["xseed"])
    f = getattr(rbm, "sample_" + fn)
    targs = [torch.from_numpy(x.copy())] + ([torch.from_numpy(y.copy())] if y is not None else [])
    with RealBernoulli() as rec:
        res = f(*targs, out=out) if with_out else f(*targs)
    ctx.count(f"sstep:{mkind(kind)}/{fn}/out={'given' if with_out else 'none'}/{'bits' if case['bits'] else 'real'}")
    tag = f"sample_{fn}({'out=buf' if with_out else 'no out'})"
    sig = f"{kind}/sstep/{fn}"
    resv = res.detach().to(torch.double).numpy()
    ok_calls = len(rec.calls) == 1 and rec.calls[0]["p"].shape == (B, m)
    # HOW the draw is made (one torch.bernoulli call on the conditional, thresholded uniforms, the complementary event, ...) is not
    # constrained by the property: the scripted replay below applies only to the first form - ONE auxiliary point says whether it does
    ctx.point(f"{tag}: the draw is one torch.bernoulli call on a B x m tensor (scripted replay applicable)", "aux", bool(ok_calls), True, case,
              exact=True, sig=sig + "/call-pattern", theorem="C05_sample_out_identity")
    vals_ok = tuple(resv.shape) == (B, m) and bool(np.all((resv == 0) | (resv == 1)))
    if case["bits"]:
        ctx.oracle(f"{tag}: the returned sample is a 0/1 array of shape B x m", vals_ok, case,
                   detail={"result": resv.tolist()}, sig=sig + "/values01", theorem="C05_sample_out_identity, C05_values_shape")
    else:
        # audit 3, B-11: a REAL-valued conditioning row is no state of the chain ("every start state" = 0/1 states): recorded only
        ctx.info(f"sample_{fn}: 0/1 array of shape B x m on real-valued conditioning rows", vals_ok, True)
    inputs_ok = all(np.array_equal(t.numpy(), ref) for t, ref in zip(targs, [x] + ([y] if y is not None else [])))
    # audit 3, B-11: C05's "left untouched" clause is about the start state of sample / gibbs_steps (judged in part (b)), not about the
    # conditioning argument of a direct sample_* call: recorded only
    ctx.info(f"sample_{fn}: the conditioning state is not modified", inputs_ok, True)
    if not ok_calls:
        return
    P, D = rec.calls[0]["p"], rec.calls[0]["draw"]
    # the property's "drawn from its exact conditional": the probabilities presented are the public conditional of the very inputs
    pub = getattr(rbm, "prob_" + fn)(*[torch.from_numpy(z.copy()) for z in [x] + ([y] if y is not None else [])]).detach().numpy()
    presented_ok = bool(np.allclose(P, pub, rtol=1e-12, atol=1e-15))
    ctx.point(f"{tag}: probabilities presented to torch.bernoulli == prob_{fn} of the inputs", "aux", presented_ok, True, case, exact=True,
              sig=sig + "/presented", theorem="C05_sample_step_law")
    if not presented_ok:
        return   # another (possibly equivalent) parametrisation of the draw: the scripted replay does not apply
    if ctx.driver is not None:
        for b in range(B):
            req = {"kind": mkind(kind), "fn": fn, "n": n, "h": h, "a": a, "p": qc.pbits(am), "x": bits(x[b]), "fresh": 10,
                   "draws": [int(t) for t in D[b]], "out": {"id": 1, "data": bits(garbage[b])} if with_out else None}
            if y is not None:
                req["y"] = bits(y[b])
            mo = ctx.driver.call("c05.sample_step", **req)
            cs = dict(case, row=b)
            if mo.get("short"):
                ctx.point(f"{tag}: replay consumes the recording", "aux", len(req["draws"]), "model needs more draws", cs, exact=True, sig=sig + "/count",
                          theorem="C05_sample_step_law")
                continue
            ctx.point(f"{tag}: probabilities presented", "aux", P[b], unbits(mo["probs"]), cs, sig=sig + "/probs", theorem="C05_sample_step_law + " + TH["cond"])
            ctx.point(f"{tag}: returned sample", "aux", bits(resv[b]), mo["result"], cs, exact=True, sig=sig + "/result",
                      theorem="C05_sample_out_identity, C05_sample_step_law")
            # the out= buffer contract of the one-step samplers is not in the property text (only gibbs_steps' overwrite is) and `res is out`
            # is undocumented (":returns: the sampled hidden state"): recorded only (audit 3, B-18); C05_gibbs_step_buffers is a bridge
            # lemma no driver op executes, so it is not named here
            impl_buf = [res is out, bits(out.numpy()[b])] if with_out else [False, None]
            ctx.info(f"sample_{fn}({'out=buf' if with_out else 'no out'}): `out` is the returned object and holds the 0/1 draw afterwards", impl_buf,
                     [mo["out_id"] is not None and mo["result_id"] == mo["out_id"], mo["out"]])
    ctx.case({"sstep": [kind, n, h, a, fn, B, with_out, case["bits"], case["xseed"]]}, nontrivial=True,
             sample={"sstep": fn, "kind": kind, "out": with_out, "B": B})


def gen_ssteps(ctx, model, thorough):
    for fn in SSTEP_FNS[model["kind"]]:
        for with_out in (True, False):
            if not thorough and ctx.rng.random() < 0.5:
                continue
            c = dict(model)
            c.update({"part": "sstep", "fn": fn, "with_out": with_out, "B": ctx.rng.choice([1, 2, 3]), "bits": ctx.rng.random() < 0.7,
                      "xseed": ctx.rng.randrange(2 ** 31)})
            yield c


def dispatch(ctx, case):
    """one case; integer options handed over as objects outside every quantifier (np.uint8, 0-d arrays / tensors) and REFUSED by the
    implementation are informational (argforms_a.tolerant, second audit X-1)"""
    af.tolerant(ctx, _dispatch, ctx, case)


def _dispatch(ctx, case):
    ctx.current_case = case
    if case["part"] == "callform":
        callform_case(ctx, case)
    elif case["part"] == "cond":
        cond_case(ctx, case)
    elif case["part"] == "replay":
        replay_case(ctx, case)
    elif case["part"] == "history":
        history_case(ctx, case)
    elif case["part"] == "sstep":
        sstep_case(ctx, case)
    else:
        stat_case(ctx, case)


def run(ctx):
    ctx.rule = RULE
    thorough = ctx.tier == "thorough"
    models = []
    for idx, model in enumerate(gen_models(ctx, thorough)):
        models.append(model)
        c = dict(model)
        c.update({"part": "cond", "rseed": ctx.rng.randrange(2 ** 31)})
        # the Float law of the Prog term enumerates 2^(h+a+n) executions per matrix entry: keep it to moderate sizes in the quick tier
        c["law"] = thorough or (model["n"] + model["h"] + model["a"] <= 9)
        dispatch(ctx, c)
        for rc in gen_replays(ctx, model, thorough):
            dispatch(ctx, rc)
        dispatch(ctx, gen_history(ctx, model, thorough, idx))
    for cf in gen_callforms(ctx, thorough):   # after the older parts: their seeded streams are unchanged
        dispatch(ctx, cf)
    for model in models:                      # extension round 2: the public one-step samplers, with and without out=
        for sc in gen_ssteps(ctx, model, thorough):
            dispatch(ctx, sc)
    if thorough:
        worst = 0.0
        cnt = 0
        for sc in gen_stats(ctx):
            sup, eps = stat_case(ctx, sc)
            worst = max(worst, sup / eps)
            cnt += 1
        ctx.note(f"STATISTICAL SUPPORT ONLY (not part of the proof): {cnt} runs of 2e5 chains with the real torch generator, k=1,2,3, "
                 f"empirical law vs P^k assembled from the public conditionals; Hoeffding sup-norm bound at delta=1e-12; worst sup/eps = {worst:.3f}")


ENV_ARCHS = [("pos", 2, 3, 0), ("cplx", 3, 2, 0), ("dens", 2, 3, 2), ("dens", 3, 1, 2), ("dens", 2, 2, 2)]


def env_run(ctx, env_name):
    """every call family of the property under another process-global setting of the CALLER (harness/common.py ENVS: torch default dtype
    float64, autograd switched off, another working directory): the statement quantifies over parameters / start states / k / overwrite,
    not over those settings, so it must hold under each of them (scratch tensors allocated without an explicit dtype, `.to(...)` that only
    copies when the dtype differs, results that carry autograd history, ...).  The state objects are CONSTRUCTED inside the environment:
    one model per state kind and, for the purification RBM, num_hidden > / < / == num_aux; for each the conditionals + kernel oracles
    (part a), every replay family of gen_replays (batch / vector / fresh start, k = 0..3, overwrite, continuation, foreign dtype; part b)
    and one history case (part d).  Independent of the corpus."""
    rng = ctx.rng
    for idx, (kind, n, h, a) in enumerate(ENV_ARCHS):
        am, ph = rand_model(rng, kind, n, h, a, rng.choice([1.0, 3.0]))
        model = {"kind": kind, "n": n, "h": h, "a": a, "scale": 1.0, "am": am, "ph": ph, "gpuf": qc.flag_form(rng, plain=0.4), "aseed": af.draw_aseed(rng)}
        c = dict(model)
        c.update({"part": "cond", "rseed": rng.randrange(2 ** 31), "law": True})
        dispatch(ctx, c)
        for rc in gen_replays(ctx, model, False):
            dispatch(ctx, rc)
        dispatch(ctx, gen_history(ctx, model, False, idx))
        ctx.count(f"env:{env_name}:models")


def search(ctx):
    """oracle-only sweep on the implementation (more models, all replays) when a proof obligation / aux point is broken"""
    drv, ctx.driver = ctx.driver, None
    try:
        for idx, model in enumerate(gen_models(ctx, True)):
            c = dict(model)
            c.update({"part": "cond", "rseed": ctx.rng.randrange(2 ** 31), "law": False})
            dispatch(ctx, c)
            for rc in gen_replays(ctx, model, False):
                dispatch(ctx, rc)
            dispatch(ctx, gen_history(ctx, model, False, idx))
            for sc in gen_ssteps(ctx, model, True):
                dispatch(ctx, sc)
    finally:
        ctx.driver = drv


def replay(ctx, case):
    dispatch(ctx, case)
