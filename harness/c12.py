"""C12 — correspondence of the `fit` state machine (QV.Model.Train.fit) with NeuralStateBase.fit:
event protocol, dispatch order, stop requests, parameter-change window, scheduler steps; LambdaCallback construction / dispatch.

The real `fit` runs on tiny states with recording callbacks (LambdaCallback given all or a SUBSET of the six handlers, CallbackBase
subclasses overriding all or some methods), a recording SGD subclass (optimizer=, parameter hash on entry and exit of every step), a
counting scheduler class (scheduler=), `compute_batch_gradients` wrapped on the instance (the point before the update). Stop requests are
injected by a chosen callback at a chosen event, before the update (from the gradient computation) or after it (inside `optimizer.step()`).
What is compared: handler invocations (who, which event, which arguments, flag seen, parameter version), optimizer and scheduler steps,
final flag. NOT compared (not in the property): what is printed (Timer wording), where the data are shuffled / which RNG calls are made.

A case is a SESSION: one state object and one or more consecutive `fit` calls on it (model: QV.Train.session). Each call has
its own arguments: data (N rows incl. N = 0, container form), pos/neg batch sizes, `callbacks=` container form (None / list / tuple /
CallbackList / iterator; a later call may pass the very same container object again), time, scheduler, starting_epoch/epochs,
stop injections, and what the caller does to the flag before it (nothing / `stop_training = True` / `= False`).
A second stream exercises the LambdaCallback constructor (arity by `inspect.signature`, non-callables, None).
Extension round 2: `asg` cases (callbacks assigning every kind of value to `stop_training` at every event, caught or not; model QV.Train.fitAsg /
setStop; the call after an escaped exception; the Timer differential) and `cbl` cases (random operation sequences on a real CallbackList; model
QV.Train.cbRunOps) -- verdicts by effect; which objects / operations are refused and with which exception is only counted.

Argument forms (round 5): every integer option of `fit` (epochs, pos_batch_size, neg_batch_size, k, starting_epoch) and of the state
constructors (num_visible, num_hidden, num_aux) is handed over in a form drawn from the case's `qc.Ints(iseed)` stream (Python int,
numpy integer scalars, 0-d integer ndarray, 0-d integer tensor), every boolean option (`time`, `progbar`, the constructors' `gpu`) in a
form drawn from `qc.Flags(fseed)`; the first `npos` arguments of `fit` are passed positionally in the documented order; inside a session
the object made for (option, value) is handed over AGAIN by later calls with the same value (a caller re-using its configuration
objects).  The model is told the VALUES; verdicts are by effect (protocol, counts), never by the type of anything."""
import contextlib
import hashlib
import io

import numpy as np

from . import qc
from .c07 import FORMS as DATA_FORMS, container
from .qc import torch

FILES = [
    "qucumber/nn_states/neural_state.py",
    "qucumber/callbacks/callback.py",
    "qucumber/callbacks/callback_list.py",
    "qucumber/callbacks/lambda_callback.py",
    "qucumber/callbacks/timer.py",
]
REQUIRED_THEOREMS = [
    "C12_protocol", "C12_train_events_once", "C12_complete_without_stop", "C12_stop_in_batch",
    "C12_stop_at_epoch_end", "C12_stop_at_epoch_start", "C12_stop_at_train_start", "C12_no_event_after_stop",
    "C12_sticky", "C12_stopped_run_is_noop", "C12_param_window", "C12_dispatch_order",
    "C12_scheduler_once_per_epoch", "C12_callbacks_container", "C12_batches_per_epoch", "C12_fit_args", "C12_session_stopped",
    "C12_protocol_no_batches", "C12_stop_at_epoch_start_no_batches", "C12_stop_at_train_start_no_batches",
    "C12_scheduler_once_per_epoch_no_batches", "C12_fit_args_no_rows", "C12_lambda_init", "C12_lambda_dispatch",
    "C12_fit_args_abort",
    "C12_refused_request_leaves_flag_partial", "C12_exception_trace_partial", "C12_container_ops", "C12_container_ops_dispatch", "C12_timer_transparent",
    "C12_timer_prints", "C12_exception_no_train_end",
]
RULE = ("case = session on one state object (kind) of 1..3 consecutive fit calls, each call = (starting_epoch, epochs, N, "
        "pos_batch_size, neg_batch_size in {None, 0, < pos, = pos, > pos, >= N}, data container form (tensor dtypes, non-contiguous "
        "views, ndarray, list, tuple), callback identity list, callbacks container in {None, list, tuple, CallbackList, CallbackList built by append/insert/+/__setitem__, iterator} "
        "(possibly empty; possibly the same container object as in the previous call), LambdaCallback/subclass mix, time flag, "
        "scheduler flag, flag assignment before the call (none / True / False), injected stop requests (callback identity, event) "
        "/ (during batch e,b), incl. periodic requests (every p-th epoch end / batch end)); epochs-starting_epoch in -2..3, N/batch "
        "sizes giving 1..4 batches (incl. N = 1, N < batch, N not divisible by pos or neg), 0..3 callbacks (an object may be listed "
        "twice); thorough injects a stop at every event and every batch of the unstopped single call, quick a seeded subset; "
        "callback objects = LambdaCallback given a SUBSET of the six handlers (each handler a plain / defaulted-parameter / var-args "
        "function) or CallbackBase subclass overriding a subset of the methods; stop raised before the update (wrapped "
        "compute_batch_gradients) or after it (inside optimizer.step); N = 0 (no batches; positive state, neg = pos); plus a constructor "
        "stream: LambdaCallback(six arguments each None / callable with 0..4 parameters in 9 callable forms / non-callable) with the "
        "parameter count known BY CONSTRUCTION (accepted objects are judged by what their handlers run; rejection / exception type only counted); "
        "integer options (epochs, pos/neg_batch_size, k in 1..2, starting_epoch, constructor sizes) as Python int / np.int64 / np.int32 / np.intp / "
        "0-d ndarray / 0-d tensor (np.uint8 for k and the constructor sizes only) from the case's seeded stream "
        "(`iseed`), the same object again in a later call of the session when the value recurs; `time`, `progbar` (both truth values), `gpu` as "
        "bool / int / np.bool_ / numpy comparison result / 0-d ndarray / 0-d tensor (`fseed`); the first npos in 1..15 arguments of fit positional; "
        "in a third of the cases every keyword whose value is the documented default is OMITTED; a counted-only stream of calls that raise inside "
        "fit (no reference-basis row / no rows with neg != pos: outside the property, no verdict); "
        "extension round 2: `asg` cases = one fit call whose callbacks ASSIGN to stop_training one of 12 values (Python bool / numpy.bool_ incl. a numpy "
        "comparison result / int 0,1,2 / 0-d tensor / None / str, each truthy or falsy) at 1..3 points drawn from all events of the run, inside a try or not "
        "(falsy values only in runs without any other request), optionally a stop raised during a batch; after an escaped exception a second call on the same "
        "object; the same case again on a fresh object with `time` flipped; `cbl` cases = 2..7 random container operations (__setitem__, __delitem__, insert, "
        "append, + on either side; indices -n-3..n+3; 22% non-callbacks of six kinds) on a real CallbackList, then cl[k], len and a fit given the container; "
        "non-trivial iff some call begins at least one epoch and (a stop is injected or there are >= 2 batches or >= 2 callbacks), or a "
        "constructor case with >= 1 non-None argument; distinct by hash of the case")
EXTRA_TRUSTED = [
    "C12: user callbacks are modelled only through the stop requests they make (Req) and the assignments to stop_training they attempt (Asg: the "
    "setter's refusal and the exception escaping from fit are modelled, C12_exception_trace_partial); other exceptions raised by callbacks, clearing the flag "
    "in mid-run, progress bars and GPU paths are not modelled; `_shuffle_data` is assumed to succeed (its error cases belong to C07)",
]

KINDS = ("pos", "cplx", "dens")
NB_CHOICES = [(4, 4), (2, 5), (3, 2), (4, 2), (5, 2), (3, 1), (4, 1), (7, 2), (10, 3), (7, 3), (5, 3), (9, 4),  # 1..4 batches
              (1, 1), (1, 3)]  # a single row (N = 1: one batch of one row; batch size = / > N)
NB_EMPTY = [(0, 1), (0, 2), (0, 3)]  # no rows: zero batches per epoch (positive state, neg_batch_size falsy or = pos_batch_size)
SLOTS = ("ts", "te", "es", "ee", "bs", "be")  # validation order of LambdaCallback.__init__
SLOT_NAME = {"ts": "on_train_start", "te": "on_train_end", "es": "on_epoch_start", "ee": "on_epoch_end",
             "bs": "on_batch_start", "be": "on_batch_end"}
SLOT_ARGS = {"ts": 1, "te": 1, "es": 2, "ee": 2, "bs": 3, "be": 3}  # arguments CallbackList passes (callback_list.py:60-82)
DISPATCH_FORMS = ("pos", "def", "var")  # callable forms that accept the positional call CallbackList makes
CB_FORMS = ("list", "tuple", "cblist", "iter", "cblist_mut")  # cblist_mut: a CallbackList built through its mutation API
# documented defaults of `fit` (positive_wavefunction.py:194-210, complex_wavefunction.py, density_matrix.py, neural_state.py:500-520): a
# run with `omit` leaves out every keyword argument whose VALUE is the documented default (the caller relies on the default)
FIT_DEFAULTS = {"neg_batch_size": None, "k": 1, "progbar": False, "starting_epoch": 1, "time": False, "callbacks": None,
                "scheduler": None, "scheduler_args": None, "input_bases": None}


# ------------------------------------------------------------------ reference generator (independent of model and code)
def ref_points(start, epochs, nb):
    """all points of the unstopped run in order; a point is an event list or ["mid", e, b]"""
    pts = [["ts"]]
    for e in range(start, epochs + 1):
        pts.append(["es", e])
        for b in range(nb):
            pts += [["bs", e, b], ["mid", e, b], ["be", e, b]]
        pts.append(["ee", e])
    pts.append(["te"])
    return pts


def ref_events(start, epochs, nb, stop0, requested):
    """expected event trace: `requested(point) -> bool`. Declarative: prefix up to the first requested point, then the
    closing sequence that point's kind prescribes."""
    if stop0:
        return [], True
    pts = ref_points(start, epochs, nb)
    first = next((k for k, p in enumerate(pts) if requested(p)), None)
    if first is None:
        return [p for p in pts if p[0] != "mid"], False
    p = pts[first]
    pre = [q for q in pts[: first + 1] if q[0] != "mid"]
    tag = p[0]
    one = (lambda e: [["bs", e, 0], ["be", e, 0]]) if nb >= 1 else (lambda e: [])  # the one batch that may still run
    if tag == "ts":
        closing = ([["es", start]] + one(start) + [["ee", start]] if start <= epochs else []) + [["te"]]
    elif tag == "es":
        closing = one(p[1]) + [["ee", p[1]], ["te"]]
    elif tag in ("bs", "mid"):
        closing = [["be", p[1], p[2]], ["ee", p[1]], ["te"]]
    elif tag == "be":
        closing = [["ee", p[1]], ["te"]]
    elif tag == "ee":
        closing = [["te"]]
    else:
        closing = []
    return pre + closing, True


# ------------------------------------------------------------------ building the real objects
def make_state(kind, rng, it=None, gpu=False):
    """`it`: the case's integer-form stream (qc.Ints): the constructor sizes are handed over as the objects it yields (the constructors
    convert with int()); `gpu`: the falsy object handed as `gpu=`"""
    n, h = 2, rng.choice([1, 2])
    fam = int_family(it.iseed) if it is not None else None
    iv = (lambda v: it(v, fam)[0]) if it is not None else (lambda v: v)
    if kind == "pos":
        return qc.make_positive(iv(n), iv(h), qc.rand_rbm_params(rng, n, h, 0.5), gpu=gpu)
    if kind == "cplx":
        return qc.make_complex(iv(n), iv(h), qc.rand_rbm_params(rng, n, h, 0.5), qc.rand_rbm_params(rng, n, h, 0.5), gpu=gpu)
    return qc.make_density(iv(n), iv(h), iv(1), qc.rand_prbm_params(rng, n, h, 1, 0.5), qc.rand_prbm_params(rng, n, h, 1, 0.5), gpu=gpu)


# positional order of `fit` as documented (neural_state.py:521-537; complex_wavefunction.py / density_matrix.py have the same order,
# positive_wavefunction.py has no `input_bases` parameter: given by keyword it lands in **kwargs and is ignored)
FIT_ORDER = ("data", "epochs", "pos_batch_size", "neg_batch_size", "k", "lr", "input_bases", "progbar", "starting_epoch", "time",
             "callbacks", "optimizer", "optimizer_args", "scheduler", "scheduler_args")
# forms of the integer options the CLEAN fit accepts (probed: all of them, bit-identical results; a Python float is rejected with TypeError)
FIT_INT_FORMS = qc.INT_FORMS


def int_family(iseed):
    """forms used inside ONE case: a 0-d ndarray and a 0-d tensor are never handed over side by side (`np.array(3) - torch.tensor(1)` raises
    TypeError inside NumPy/Torch, so any arithmetic between two options -- which the property does not forbid -- would be an alarm)"""
    drop = "t0d" if (iseed or 0) % 2 else "np0d"
    return tuple(f for f in FIT_INT_FORMS if f != drop)


def param_hash(st):
    m = hashlib.sha1()
    for net in st.networks:
        for p in getattr(st, net).parameters():
            m.update(p.detach().cpu().numpy().tobytes())
    return m.hexdigest()


class _Recorder:
    """shared log + injection plan of one run"""

    def __init__(self, inject_cb, inject_mid_ordinals, inject_pre_ordinals=()):
        self.log = []
        self.inject_cb = {(i, tuple(ev)) for i, ev in inject_cb}
        self.inject_mid = set(inject_mid_ordinals)
        self.inject_pre = set(inject_pre_ordinals)
        self.hashes = {}
        self.opt_steps = 0
        self.grad_calls = 0
        self.sched_steps = 0
        self.step_hashes = []  # (parameter hash on entry of optimizer.step, on exit)
        self.ucalls = []  # [function id, callback identity, event built from the ARGUMENTS the function received]
        self.bad_args = []

    def version(self, st):
        h = param_hash(st)
        return self.hashes.setdefault(h, len(self.hashes))

    def handle(self, ident, st, ev, fid=None):
        self.log.append(["call", ident, ev, bool(st.stop_training), self.version(st)])
        self.ucalls.append([fid, ident, ev])
        if (ident, tuple(ev)) in self.inject_cb:
            st.stop_training = True


class _Holder:
    """callback objects live for the whole session; `rec` is the recorder of the call in progress"""

    rec = None

    def handle(self, ident, st, ev, fid=None):
        self.rec.handle(ident, st, ev, fid)


def fid_of(ident, tag):
    """identity of the user function sitting in slot `tag` of callback `ident` (model: `Handler.user`)"""
    return 10 * ident + SLOTS.index(tag)


def make_fn(k, form, sink):
    """a callable for which `len(inspect.signature(fn).parameters) == k` BY CONSTRUCTION (k = 0..4), in the given form; it forwards the
    positional arguments it receives to `sink(args)`.
    forms: pos (plain positional), def (last parameter defaulted), var (last parameter *args), kw (last parameter **kw),
    kwonly (last parameter keyword-only with default), partial (functools.partial binding one leading positional argument of a
    (k+1)-parameter function), method (bound method; self not counted), obj (instance with __call__), pkw (functools.partial binding the
    last parameter BY KEYWORD: it stays in the signature as keyword-only)."""
    import functools

    if form == "pos":
        return [lambda: sink(()), lambda s: sink((s,)), lambda s, e: sink((s, e)), lambda s, e, b: sink((s, e, b)),
                lambda s, e, b, x: sink((s, e, b, x))][k]
    if form == "def":
        return [None, lambda s=None: sink((s,)), lambda s, e=None: sink((s, e)), lambda s, e, b=None: sink((s, e, b)),
                lambda s, e, b, x=None: sink((s, e, b, x))][k]
    if form == "var":
        return [None, lambda *a: sink(a), lambda s, *a: sink((s,) + a), lambda s, e, *a: sink((s, e) + a),
                lambda s, e, b, *a: sink((s, e, b) + a)][k]
    if form == "kw":
        return [None, lambda **kw: sink(()), lambda s, **kw: sink((s,)), lambda s, e, **kw: sink((s, e)),
                lambda s, e, b, **kw: sink((s, e, b))][k]
    if form == "kwonly":
        return [None, lambda *, z=None: sink(()), lambda s, *, z=None: sink((s,)), lambda s, e, *, z=None: sink((s, e)),
                lambda s, e, b, *, z=None: sink((s, e, b))][k]
    if form == "partial":
        return functools.partial([lambda q: sink(()), lambda q, s: sink((s,)), lambda q, s, e: sink((s, e)),
                                  lambda q, s, e, b: sink((s, e, b)), lambda q, s, e, b, x: sink((s, e, b, x))][k], 0)
    if form == "pkw":
        return [None, functools.partial(lambda s: sink((s,)), s=0), functools.partial(lambda s, e: sink((s, e)), e=0),
                functools.partial(lambda s, e, b: sink((s, e, b)), b=0),
                functools.partial(lambda s, e, b, x: sink((s, e, b, x)), x=0)][k]

    class Obj:
        def m0(self):
            return sink(())

        def m1(self, s):
            return sink((s,))

        def m2(self, s, e):
            return sink((s, e))

        def m3(self, s, e, b):
            return sink((s, e, b))

        def m4(self, s, e, b, x):
            return sink((s, e, b, x))

    if form == "method":
        return getattr(Obj(), f"m{k}")
    if form == "obj":
        cls = type("CallableObj", (), {"__call__": getattr(Obj, f"m{k}")})
        return cls()
    raise ValueError(form)


ALL_FORMS = ("pos", "def", "var", "kw", "kwonly", "partial", "pkw", "method", "obj")
NON_CALLABLES = (3, "on_epoch_end", [], {}, 2.5, (1, 2), b"x", True)


def obj_spec(case, ident):
    """callback object spec of identity `ident`: {"lam": bool, "forms": [six of pos/def/var/none]} (old cases: all six, plain)"""
    objs = case.get("objs")
    if objs is not None and str(ident) in objs:
        return objs[str(ident)]
    lam = case["lambda"]
    return {"lam": (lam[ident % len(lam)] if lam else True), "forms": ["pos"] * 6}


def make_callback_spec(hold, ident, spec):
    """LambdaCallback given exactly the handlers of `spec` (the others stay None) / CallbackBase subclass overriding exactly those"""
    from qucumber.callbacks import CallbackBase, LambdaCallback

    def sink_for(tag):
        k = SLOT_ARGS[tag]

        def sink(args):
            if len(args) != k:
                hold.rec.bad_args.append([ident, tag, len(args)])
            hold.handle(ident, args[0], [tag] + [int(x) for x in args[1:k]], fid_of(ident, tag))

        return sink

    given = {tag: form for tag, form in zip(SLOTS, spec["forms"]) if form != "none"}
    if spec["lam"]:
        return LambdaCallback(**{SLOT_NAME[tag]: make_fn(SLOT_ARGS[tag], form, sink_for(tag)) for tag, form in given.items()})
    methods = {}
    for tag in given:
        sink = sink_for(tag)
        methods[SLOT_NAME[tag]] = {1: (lambda sk: lambda self, s: sk((s,)))(sink), 2: (lambda sk: lambda self, s, e: sk((s, e)))(sink),
                                   3: (lambda sk: lambda self, s, e, b: sk((s, e, b)))(sink)}[SLOT_ARGS[tag]]
    return type("RecSubset", (CallbackBase,), methods)()


def make_optimizer_class(rec, st):
    class RecSGD(torch.optim.SGD):
        def step(self, closure=None):
            k = rec.opt_steps
            rec.opt_steps += 1
            rec.log.append(["opt"])
            h0 = param_hash(st)
            r = super().step(closure)
            h1 = param_hash(st)
            rec.step_hashes.append((h0, h1))
            rec.hashes.setdefault(h0, len(rec.hashes))  # versions are numbered by the steps, also when no handler looks in between
            rec.hashes.setdefault(h1, len(rec.hashes))
            if k in rec.inject_mid:
                st.stop_training = True
            return r

    return RecSGD


def make_scheduler_class(rec):
    class CountingScheduler:
        def __init__(self, optimizer, **kw):
            self.optimizer = optimizer
            self.kw = kw

        def step(self):
            rec.sched_steps += 1
            rec.log.append(["sched"])

    return CountingScheduler


def make_container(cb_list, form):
    """the `callbacks=` argument in the given container form"""
    from qucumber.callbacks import CallbackList

    if form == "none":
        assert not cb_list
        return None
    if form == "tuple":
        return tuple(cb_list)
    if form == "cblist":
        return CallbackList(cb_list)
    if form == "cblist_mut":
        # the same order reached through append / insert / + / __setitem__ / reverse (callback_list.py:32-58, MutableSequence mixins)
        if not cb_list:
            return CallbackList([]) + CallbackList(())
        out = CallbackList([cb_list[-1]])  # placeholder at index 0, overwritten below
        out[0] = cb_list[0]
        rest = list(cb_list[1:])
        if rest:
            mid = len(rest) // 2
            for o in rest[mid:]:
                out.append(o)
            for o in reversed(rest[:mid]):
                out.insert(1, o)
        out.reverse()
        out.reverse()
        return CallbackList([]) + out
    if form == "iter":
        return iter(list(cb_list))
    return list(cb_list)


def empty_container(form):
    """a data set with no rows in the given container family"""
    if form.startswith("ndarray"):
        return np.zeros((0, 2), dtype=np.int64 if "i64" in form else np.float64)
    if form == "list":
        return []
    if form == "tuple":
        return ()
    return torch.zeros(0, 2, dtype={"tensor_f32": torch.float32, "tensor_i64": torch.int64, "tensor_u8": torch.uint8}.get(form, torch.double))


def make_data(kind, N, rng, noz=False):
    """`noz` (only the counted abort regime): no row is measured in the reference basis"""
    n = 2
    data = [[rng.randint(0, 1) for _ in range(n)] for _ in range(N)]
    bases = None
    if kind != "pos":
        bases = [[rng.choice("XYZ") for _ in range(n)] for _ in range(N)]
        if noz:
            for row in bases:
                if row == ["Z"] * n:
                    row[rng.randrange(n)] = rng.choice("XY")
        else:
            assert N >= 1, "no rows: only for the positive state (randint over an empty reference-basis set raises, C07)"
            bases[rng.randrange(N)] = ["Z"] * n  # at least one reference-basis row (randint needs a non-empty range)
    return data, bases


def count_z(bases):
    return sum(1 for row in bases if all(c == "Z" for c in row)) if bases is not None else 0


# ------------------------------------------------------------------ one case
def strip_model_log(mlog):
    out = []
    for en in mlog:
        t = en[0]
        if t == "call":
            out.append(["call", en[1], en[2], en[3], en[4]])
        elif t in ("opt", "sched"):  # where the data are shuffled (RNG use) is not part of the event protocol: not compared
            out.append([t])  # ("sched" entries are projected out of the compared log by the caller: only their number is judged)
    return out


def as_session(case):
    """old single-call cases (corpus, earlier replays) are sessions of one call"""
    if "runs" in case:
        return case
    run = {k: case[k] for k in ("start", "epochs", "N", "B", "cbs", "time", "sched", "inject_cb", "inject_mid")}
    run.update(neg=None, form="tensor_f64", cb_form=("list" if case["cbs"] else "none"), pre=(True if case["stop0"] else None))
    return {"kind": case["kind"], "lambda": case["lambda"], "runs": [run], "dseed": case["dseed"]}


def one_case(ctx, case):
    import random

    if "ctor" in case:
        return ctor_case(ctx, case)
    if "abort" in case:
        return abort_case(ctx, case)
    if "asg" in case:
        return asg_case(ctx, case)
    if "cbl" in case:
        return cbl_case(ctx, case)
    case = as_session(case)
    ctx.current_case = case
    kind, lam, runs = case["kind"], case["lambda"], case["runs"]
    rng = random.Random(case["dseed"])
    # argument forms: cases stored before round 5 carry neither seed -> plain Python ints / bool singletons by keyword, as before
    fl, it = qc.Flags(case.get("fseed")), qc.Ints(case.get("iseed"))
    it.iseed = case.get("iseed")
    gpu_obj, gpu_d = fl(False)
    st = make_state(kind, rng, it, gpu_obj)
    ctx.count(f"gpu=False given as {gpu_d['form']}")
    torch.manual_seed(case["dseed"])
    hold = _Holder()
    objs = {}
    specs = {}
    for run in runs:
        for i in run["cbs"]:
            if i not in objs:
                specs[i] = obj_spec(case, i)
                objs[i] = make_callback_spec(hold, i, specs[i])
    # the data of every call (same stream as before: after the state, call by call); the model is told how many rows are in the reference basis
    datas = [make_data(kind, run["N"], rng) for run in runs]
    model = None
    if ctx.driver is not None:
        # the model builds each object from its constructor arguments (QV.Train.lambdaInit / subclassObj), restricts the requests to
        # handlers that run user code (Req.via) and returns the log as user code can observe it (observe)
        mobjs = []
        for i, sp in sorted(specs.items()):
            if sp["lam"]:
                mobjs.append([i, {"kind": "lambda", "args": [None if f == "none" else {"id": fid_of(i, t), "nparams": SLOT_ARGS[t]}
                                                             for t, f in zip(SLOTS, sp["forms"])]}])
            else:
                mobjs.append([i, {"kind": "subclass", "overrides": [None if f == "none" else fid_of(i, t) for t, f in zip(SLOTS, sp["forms"])]}])
        model = ctx.driver.call("c12.session", stop0=False, objs=mobjs, runs=[
            {"pre": r["pre"], "start": r["start"], "epochs": r["epochs"], "N": r["N"], "nZ": count_z(d[1]), "posB": r["B"], "negB": r["neg"],
             "hasBases": kind != "pos", "callbacks": {"form": r["cb_form"].replace("cblist_mut", "cblist"), "items": r["cbs"]}, "timer": r["time"],
             "hasSched": r["sched"], "req_cb": [[i, ev] for i, ev in r["inject_cb"]],
             "req_mid": [[e, b] for e, b in r["inject_mid"] + r.get("inject_pre", [])]} for r, d in zip(runs, datas)])
    sess = {"stop": False, "container": None, "container_key": None, "nontriv": False, "sample": None, "fl": fl, "it": it, "optobjs": {}}
    ctx.count(f"calls_per_session={len(runs)}")
    for r_idx, run in enumerate(runs):
        m = None
        if model is not None:
            m = model["runs"][r_idx] if "runs" in model else {"error": model.get("error")}
        one_call(ctx, {**case, "run": r_idx}, kind, st, datas[r_idx], hold, objs, run, r_idx, sess, m, specs)
        if sess.get("void"):
            break
    ctx.case({k: case[k] for k in case if k != "dseed"}, nontrivial=sess["nontriv"], sample=sess["sample"])


def one_call(ctx, case, kind, st, data_bases, hold, objs, run, r_idx, sess, m, specs):
    start, epochs, N, B, neg = run["start"], run["epochs"], run["N"], run["B"], run["neg"]
    cbs, timer, sched, pre = run["cbs"], run["time"], run["sched"], run["pre"]
    inj_cb, inj_mid, inj_pre = run["inject_cb"], run["inject_mid"], run.get("inject_pre", [])
    nb = -(-N // B)
    data, bases = data_bases
    ordinal = lambda e, b: (e - start) * nb + b  # noqa: E731
    rec = _Recorder(inj_cb, [ordinal(e, b) for e, b in inj_mid], [ordinal(e, b) for e, b in inj_pre])
    active = lambda i, ev: specs[i]["forms"][SLOTS.index(ev[0])] != "none"  # noqa: E731  does callback i run user code for ev?
    all_active = all(f != "none" for i in cbs for f in specs[i]["forms"])
    hold.rec = rec
    cb_list = [objs[i] for i in cbs]
    key = (run["cb_form"], tuple(cbs))
    if run.get("cb_same") and sess["container"] is not None and sess["container_key"] == key and run["cb_form"] != "iter":
        cb_arg = sess["container"]  # the caller passes the very same container object again
        ctx.count("same_container_object_again")
    else:
        cb_arg = make_container(cb_list, run["cb_form"])
    sess["container"], sess["container_key"] = cb_arg, key
    if pre is not None:
        st.stop_training = pre
    # "the request persists": an assignment to `stop_training` that RAISES (whatever the exception type) must leave the flag, as read
    # through the public property, as it was.  Which objects are refused and with which exception is NOT part of the property (a setter
    # that accepts np.True_ or 1 as a request, or raises TypeError, violates nothing): an accepted assignment is only counted and undone
    # with a plain bool.  Only the public attribute is read (no private name).  The behaviour is judged by the call that follows (`flag at
    # entry`, protocol of the run).
    if run.get("bad_stop", True):
        before_flag = st.stop_training
        refused_ok, first_bad = True, None
        for bad in (1, 0, "yes", None, np.True_, np.False_, [True], np.array(True), torch.tensor(False), np.float64(1.0) > 0.5):
            raised = None
            try:
                st.stop_training = bad
            except Exception as e:  # noqa: BLE001  any exception type counts as a refusal
                raised = type(e).__name__
            ctx.count(f"stop_training={type(bad).__name__}:{'refused/' + raised if raised else 'accepted'}")
            if raised is None:
                st.stop_training = bool(before_flag)  # accepted: no verdict; the caller restores its flag with a plain bool
                continue
            now = st.stop_training
            same = now is before_flag or bool(now) == bool(before_flag)  # what `fit` and every handler read: the truth value
            if not same and first_bad is None:
                first_bad = {"assigned": repr(bad), "raised": raised, "flag_before": repr(before_flag), "flag_after": repr(now)}
            refused_ok = refused_ok and bool(same)
            # audit 3 (B4): whatever the raising assignment left (partial effect, not constrained), the caller puts its flag back with a
            # plain bool, so the probe cannot change what the call that follows finds at entry
            st.stop_training = bool(before_flag)
        # audit 3 (B4): non-bool objects are undocumented input and WHAT a raising assignment leaves behind is a partial effect the
        # property does not speak about (a store-then-raise setter honours every request): no property-level verdict, and the run that
        # follows is judged from the flag it actually finds at entry.  Kept as an AUXILIARY point (never a replayable violation): it is the
        # tie between the model's notion of "a stop is requested" (C12_refused_request_leaves_flag_partial: a refused assignment is no request) and
        # the flag of the code, on which the property's "a run started with a stop already requested" rests; the stored change M3_C12_1
        # (store, then raise) is reported through it as `no-failing-input-found`
        ctx.info(f"{kind}/refused-stop-request: an assignment to stop_training that raises leaves the flag (public property) unchanged",
                 bool(refused_ok), True)
        ctx.point("an assignment to stop_training that raises leaves the flag (public property) unchanged (model-code tie of 'requested')", "aux",
                  bool(refused_ok), True, ctx.current_case, exact=True, sig=f"{kind}/refused-stop-request",
                  theorem="C12_refused_request_leaves_flag_partial (which objects are refused is not judged; C12_sticky / C12_session_stopped take the flag at entry as given)")
    # ---- the option objects of this call
    fl, it = sess.get("fl") or qc.Flags(None), sess.get("it") or qc.Ints(None)
    fam = int_family(getattr(it, "iseed", None))

    def opt_obj(name, value):
        """integer option `name` = value in the form the case's stream yields; the FIRST object made for (name, value) in this session is
        handed over again by every later call with that value (the caller keeps its configuration objects).  No UNSIGNED numpy type for the
        epoch numbers and batch sizes: np.uint8(1) - np.uint8(3) wraps to 254 and -4 // np.uint8(2) raises OverflowError inside NumPy
        itself, so harmless rewrites (`-(-N // pos_batch_size)` for the ceiling: benign/C12_1) would be alarms; `k` is only iterated over"""
        obj, d = it(value, fam if name == "k" else tuple(f for f in fam if f != "np.uint8"))
        if (name, int(value)) in sess["optobjs"]:
            obj, d = sess["optobjs"][(name, int(value))]
            if d["form"] in ("np0d", "t0d"):
                ctx.count("same_mutable_option_object_again")
        else:
            sess["optobjs"][(name, int(value))] = (obj, d)
        ctx.count(f"{name} given as {d['form']}")
        return obj

    kk, progbar, npos = run.get("k", 1), run.get("progbar", False), run.get("npos", 1)
    epochs_o, B_o = opt_obj("epochs", epochs), opt_obj("pos_batch_size", B)
    neg_o = None if neg is None else opt_obj("neg_batch_size", neg)
    k_o, start_o = opt_obj("k", kk), opt_obj("starting_epoch", start)
    (time_o, time_d), (prog_o, prog_d) = fl(timer), fl(progbar)
    ctx.count(f"time={timer} given as {time_d['form']}")
    ctx.count(f"progbar={progbar} given as {prog_d['form']}")
    ctx.count(f"fit_positional_prefix={npos}")
    stop0 = (sess["stop"] if pre is None else pre)  # expected flag at entry: left by the previous call unless reassigned
    flag_at_entry = bool(st.stop_training)
    h_before = param_hash(st)
    rec.hashes[h_before] = 0
    data_obj = container(data, run["form"]) if N else empty_container(run["form"])
    bases_a = np.array(bases) if bases is not None else None
    orig_cbg = st.compute_batch_gradients

    def cbg(*a, **k):  # the point BEFORE the update of the batch in progress
        rec.grad_calls += 1
        rec.log.append(["grad"])
        if rec.opt_steps in rec.inject_pre:  # ordinal of the batch in progress = optimizer steps made so far (however often this is called per batch)
            st.stop_training = True
        return orig_cbg(*a, **k)

    buf = io.StringIO()
    err = None
    st.compute_batch_gradients = cbg  # instance attribute shadows the method for this call only
    values = [data_obj, epochs_o, B_o, neg_o, k_o, 0.1, bases_a, prog_o, start_o, time_o, cb_arg, make_optimizer_class(rec, st),
              {"weight_decay": 0.05}, (make_scheduler_class(rec) if sched else None), None]
    named = [(nm, v) for nm, v in zip(FIT_ORDER, values) if not (kind == "pos" and nm == "input_bases")]
    npos = min(npos, len(named))
    kwargs = {nm: v for nm, v in named[npos:] if nm != "scheduler_args"}
    if kind == "pos":
        kwargs["input_bases"] = None
    if run.get("omit"):
        # the caller relies on the documented defaults: every keyword argument whose value IS the default is left out
        plain = {"neg_batch_size": neg, "k": kk, "progbar": progbar, "starting_epoch": start, "time": timer,
                 "callbacks": (None if run["cb_form"] == "none" else cb_arg), "scheduler": (True if sched else None), "input_bases": bases_a}
        for nm, v in plain.items():
            if nm in kwargs and (v is None if FIT_DEFAULTS[nm] is None else (v is not None and v == FIT_DEFAULTS[nm])):
                del kwargs[nm]
                ctx.count(f"default_omitted:{nm}")
    values = [v for _, v in named]
    try:
        # a progress bar (progbar truthy, or -- `progbar is False` in the code -- a falsy object other than the singleton) goes to stderr
        with contextlib.redirect_stdout(buf), contextlib.redirect_stderr(io.StringIO()):
            st.fit(*values[:npos], **kwargs)
    except Exception as e:  # fit is not expected to raise on these inputs
        err = f"{type(e).__name__}: {e}"
    finally:
        del st.compute_batch_gradients
    # the hook on the instance attribute `compute_batch_gradients` is an assumption about the INTERNAL call structure of fit: when a rewrite
    # bypasses it (calls through the class, inlines it) the planned pre-update injection never fires -- such a call (and the rest of its
    # session, whose expected flags depend on it) carries no verdict
    if rec.grad_calls == 0 and rec.opt_steps > 0:
        ctx.count("gradient_hook_bypassed")
        if inj_pre:
            ctx.count("gradient_hook_bypassed:pre-update injection impossible, no verdict")
            sess["void"] = True
            return
    # what the Timer (or anything else) prints is not part of the property: only counted, never compared
    printed_lines = sum(1 for ln in buf.getvalue().splitlines() if ln.strip())
    final = {"stop": bool(st.stop_training), "ver": rec.opt_steps, "sched": rec.sched_steps}
    h_after = param_hash(st)
    if run["cb_form"] in ("list", "tuple", "cblist", "cblist_mut"):  # frame: the caller's container still holds exactly the callbacks it listed
        ident_of = {id(o): i for i, o in objs.items()}
        after_items = [ident_of.get(id(o), f"foreign:{type(o).__name__}") for o in cb_arg]
        ctx.point("caller's callbacks container after the call", "aux", after_items, cbs, case, exact=True, sig=f"{kind}/fit/callbacks-container-frame")
    L = len(cbs) if all_active else 0  # the group-based oracles below need every callback to see every event
    full_log = rec.log
    rec.log = [en for en in full_log if en[0] != "grad"]  # the model's log has no entry for the gradient computation
    calls = [en for en in rec.log if en[0] == "call"]
    groups = [calls[k:k + L] for k in range(0, len(calls), L)] if L else []
    impl_events = [g[0][2] for g in groups] if L else None

    sig = f"{kind}/fit"
    # a request is made only if the callback is listed AND runs user code for that event
    requested = lambda p: ((p[0] == "mid" and ([p[1], p[2]] in inj_mid or [p[1], p[2]] in inj_pre)) or  # noqa: E731
                           (p[0] != "mid" and any(i in cbs and ev == p and active(i, ev) for i, ev in inj_cb)))
    exp_events, exp_stop = ref_events(start, epochs, nb, stop0, requested)
    sess["stop"] = exp_stop
    begun = sum(1 for ev in exp_events if ev[0] == "es")
    if begun >= 1 and (bool(inj_cb) or bool(inj_mid) or bool(inj_pre) or nb >= 2 or len(cbs) >= 2):
        sess["nontriv"] = True
    if sess["sample"] is None:
        sess["sample"] = {"kind": kind, "calls": len(case["runs"]), "start": start, "epochs": epochs, "N": N, "B": B, "neg": neg,
                          "nb": nb, "cbs": cbs, "cb_form": run["cb_form"], "inject_cb": inj_cb, "inject_mid": inj_mid,
                          "events": len(exp_events)}
    negkey = ("None" if neg is None else "0" if neg == 0 else "<B" if neg < B else "=B" if neg == B else
              ">B,same#batches" if -(-N // neg) == nb else ">B,fewer")
    for key in (f"kind={kind}", f"epochs-start={epochs - start}", f"batches={nb}", f"callbacks={len(cbs)}", f"time={timer}",
                f"sched={sched}", f"stop0={stop0}", f"neg={negkey}", f"cb_form={run['cb_form']}", f"form={run['form']}",
                f"call#{r_idx}:pre={pre}", f"N%B={'0' if N % B == 0 else 'r'}"):
        ctx.count(key)
    if inj_cb:
        ctx.count(f"inject_at={inj_cb[0][1][0]}")
    if run.get("periodic"):
        ctx.count(f"periodic_requests(p={run['periodic']})" + (",start>1" if start > 1 else ""))
    if r_idx and pre is None and stop0:
        ctx.count("call_after_a_call_that_ended_stopped(no reset)")
    if inj_mid:
        ctx.count("inject_at=mid")
    if inj_pre:
        ctx.count("inject_at=mid(before the update)")
    if not inj_cb and not inj_mid and not inj_pre:
        ctx.count("inject_at=none")
    if cbs and not all_active:
        ctx.count("handler_subset")
        for i in set(cbs):
            ctx.count(f"handlers_given={sum(f != 'none' for f in specs[i]['forms'])}" + ("(lambda)" if specs[i]["lam"] else "(subclass)"))
    for i in set(cbs):
        for f in specs[i]["forms"]:
            if f not in ("pos", "none"):
                ctx.count(f"handler_form={f}")

    # ---------------- oracles on the implementation (independent of the model)
    ctx.oracle("fit raised", err is None, case, detail=err, sig=f"{sig}/exception", theorem="C12_protocol")
    ctx.oracle("flag at entry == flag left by the previous call (or the caller's assignment)", flag_at_entry == stop0, case,
               detail={"impl": flag_at_entry, "expected": stop0}, sig=f"{sig}/flag-at-entry", theorem="C12_sticky, C12_session_stopped")
    if L:
        ok_disp = (len(calls) % L == 0 and all([c[1] for c in g] == cbs and all(c[2] == g[0][2] for c in g) for g in groups))
        ctx.oracle("dispatch: every event reaches all callbacks in list order", ok_disp, case,
                   detail={"calls": [[c[1], c[2]] for c in calls[:60]]}, sig=f"{sig}/dispatch-order",
                   theorem="C12_dispatch_order, C12_callbacks_container")
        ctx.oracle("event trace == protocol reference", impl_events == exp_events, case,
                   detail={"impl": impl_events, "expected": exp_events}, sig=f"{sig}/protocol",
                   theorem="C12_protocol, C12_complete_without_stop, C12_stop_*, C12_batches_per_epoch")
        # parameter window: version changes by exactly one from a batch-start to its batch-end, never elsewhere
        ok_win = True
        prev = None
        for g in groups:
            vs = {c[4] for c in g}
            if len(vs) != 1:
                ok_win = False
            v = g[0][4]
            if prev is not None:
                pev, pv = prev
                want = pv + 1 if pev[0] == "bs" else pv
                if v != want or (pev[0] == "bs" and g[0][2] != ["be", pev[1], pev[2]]):
                    ok_win = False
            elif v != 0:
                ok_win = False
            prev = (g[0][2], v)
        ctx.oracle("parameters change exactly once per batch window and nowhere else", ok_win, case,
                   detail={"versions": [[g[0][2], g[0][4]] for g in groups]}, sig=f"{sig}/param-window", theorem="C12_param_window")
        # seen flags: OR of the requests made so far
        run_flag = stop0
        ok_seen = True
        k_opt = 0
        for en in rec.log:
            if en[0] == "call":
                if en[3] != run_flag:
                    ok_seen = False
                if any(i == en[1] and ev == en[2] for i, ev in inj_cb):
                    run_flag = True
            elif en[0] == "opt":
                if k_opt in rec.inject_mid or k_opt in rec.inject_pre:
                    run_flag = True
                k_opt += 1
        ctx.oracle("flag seen by handlers == OR of requests so far (sticky)", ok_seen and final["stop"] == run_flag, case,
                   sig=f"{sig}/sticky", theorem="C12_sticky")
    # ---- oracles that also hold when callbacks have only a subset of the handlers (and with no callbacks at all)
    exp_ucalls = [[fid_of(i, ev[0]), i, ev] for ev in exp_events for i in cbs if active(i, ev)]
    ctx.oracle("user functions invoked == protocol trace filtered to the handlers given (own slot, own arguments, list order)",
               rec.ucalls == exp_ucalls and not rec.bad_args, case,
               detail={"impl": rec.ucalls[:40], "expected": exp_ucalls[:40], "bad_arg_counts": rec.bad_args[:5]},
               sig=f"{sig}/protocol" if all_active else f"{sig}/handler-subset", theorem="C12_lambda_dispatch, C12_lambda_init, C12_dispatch_order")
    n_opt = 0
    ok_ver = True
    for en in rec.log:
        if en[0] == "opt":
            n_opt += 1
        elif en[0] == "call" and en[4] != n_opt:
            ok_ver = False
    ctx.oracle("every handler sees parameter version == number of optimizer steps so far", ok_ver, case,
               detail={"versions": [[en[2], en[4]] for en in calls[:40]]}, sig=f"{sig}/param-window", theorem="C12_param_window")
    # parameters are written by optimizer.step only: the hash on entry of each step is the hash the previous step (or the caller) left,
    # every step changes it (weight decay), and what the call returns is what the last step left -- with or without callbacks
    chain = [h_before] + [h for pair in rec.step_hashes for h in pair] + [h_after]
    ok_chain = all(chain[k] == chain[k + 1] for k in range(0, len(chain), 2)) and all(a != b for a, b in rec.step_hashes)
    ctx.oracle("parameters change inside optimizer.step and nowhere else (before the first, between two, after the last step)", ok_chain,
               case, detail={"steps": len(rec.step_hashes), "first_break": next((k // 2 for k in range(0, len(chain), 2) if chain[k] != chain[k + 1]), None)},
               sig=f"{sig}/param-frame", theorem="C12_param_window, C12_stopped_run_is_noop")
    # each batch window is: batch-start handlers, gradient, optimizer step, batch-end handlers -- also when a stop is raised in between
    # (how many gradient calls a batch makes is internal: only "a batch whose gradient computation has begun gets its optimizer step before the
    # next handler runs" is judged, and nothing when the hook is bypassed)
    if rec.grad_calls:
        ok_pairs, pending = True, False
        for en in full_log:
            if en[0] == "grad":
                pending = True
            elif en[0] == "opt":
                pending = False
            elif en[0] == "call" and pending:
                ok_pairs = False
        ok_pairs = ok_pairs and not pending
        ctx.oracle("every gradient computation is followed by its optimizer step (a stop raised in between does not skip the update)", ok_pairs,
                   case, detail={"grad": rec.grad_calls, "opt": rec.opt_steps}, sig=f"{sig}/update-completes",
                   theorem="C12_param_window, C12_stop_in_batch")
    if not all_active or not cbs:
        run_flag, ok_seen, k_opt, k_grad = stop0, True, 0, 0
        for en in full_log:
            if en[0] == "call":
                ok_seen = ok_seen and en[3] == run_flag
                if any(i == en[1] and ev == en[2] for i, ev in inj_cb):
                    run_flag = True
            elif en[0] == "grad":
                run_flag = run_flag or k_opt in rec.inject_pre
                k_grad += 1
            elif en[0] == "opt":
                run_flag = run_flag or k_opt in rec.inject_mid
                k_opt += 1
        ctx.oracle("flag seen by handlers == OR of requests so far (sticky)", ok_seen and final["stop"] == run_flag, case,
                   sig=f"{sig}/sticky", theorem="C12_sticky")
    ctx.oracle("final flag", final["stop"] == exp_stop, case, detail={"impl": final["stop"], "expected": exp_stop},
               sig=f"{sig}/final-flag", theorem="C12_sticky")
    n_bs = sum(1 for ev in exp_events if ev[0] == "bs")
    ctx.oracle("one optimizer step per batch begun", final["ver"] == n_bs, case, detail={"steps": final["ver"], "batches": n_bs},
               sig=f"{sig}/opt-count", theorem="C12_param_window, C12_batches_per_epoch")
    ctx.oracle("one scheduler step per epoch begun", final["sched"] == (begun if sched else 0), case,
               detail={"steps": final["sched"], "epochs_begun": begun}, sig=f"{sig}/sched-count", theorem="C12_scheduler_once_per_epoch")
    # batches per epoch: every epoch that is not cut short by a stop has ceil(N / pos_batch_size) optimizer steps
    # (epochs are delimited by the scheduler steps, or by the epoch-end calls of a callback that sees every event; without either the
    # total number of optimizer steps above is the only observation)
    # (the scheduler steps are NOT used as epoch delimiters: the property fixes how often the scheduler is advanced, not where)
    per_epoch = None
    if L:
        per_epoch, cur = [], 0
        for en in rec.log:
            if en[0] == "opt":
                cur += 1
            elif en[0] == "call" and en[1] == cbs[0] and en[2][0] == "ee":
                per_epoch.append(cur)
                cur = 0
        per_epoch = per_epoch[::cbs.count(cbs[0])] if cbs.count(cbs[0]) > 1 else per_epoch
    full = []
    if per_epoch is not None:
        full = per_epoch[:-1] if exp_stop and not stop0 else per_epoch
        ctx.oracle("every uninterrupted epoch has ceil(N / pos_batch_size) batches", all(x == nb for x in full) and len(per_epoch) == begun,
                   case, detail={"per_epoch": per_epoch, "expected": nb}, sig=f"{sig}/batches-per-epoch", theorem="C12_batches_per_epoch")
    # scheduler POSITION inside the epoch (the code: after the last batch-end, before the epoch-end handlers): neither C12 nor C06 ("advanced
    # exactly once per epoch") fixes it -- `on_epoch_end(...); scheduler.step()` is a harmless rewrite.  Counted only, never judged; the number
    # of scheduler steps is judged above (sched-count) and in the `final` point.
    if sched and L:
        ok_pos = True
        for k, en in enumerate(rec.log):
            if en[0] == "sched":
                before = rec.log[k - 1] if k else None
                after = rec.log[k + 1] if k + 1 < len(rec.log) else None
                if not (before and before[0] == "call" and before[2][0] == ("be" if nb else "es") and after and after[0] == "call"
                        and after[2][0] == "ee" and after[2][1] == before[2][1]):
                    ok_pos = False
        ctx.count(f"sched_position_between_last_batch_end_and_epoch_end={ok_pos}")
    log_with_sched = rec.log
    rec.log = [en for en in rec.log if en[0] != "sched"]
    if stop0:
        ctx.oracle("stopped run is a no-op", log_with_sched == [] and h_after == h_before and final["stop"], case,
                   detail={"log": log_with_sched[:10]}, sig=f"{sig}/noop", theorem="C12_stopped_run_is_noop, C12_session_stopped")
    ctx.count(f"stdout_lines(time={timer})={min(printed_lines, 3)}")
    # ---------------- correspondence with the model (QV.Train.session; this call's entry)
    if m is not None:
        if "error" in m:
            ctx.point("model error on a call the implementation completed", "property", err, m["error"], case, exact=True, sig=f"{sig}/events")
            return
        if L:
            ctx.point("events", "property", impl_events, m["events"], case, exact=True, sig=f"{sig}/events",
                      theorem="C12_protocol, C12_complete_without_stop, C12_stop_in_batch/at_epoch_end/at_epoch_start/at_train_start, C12_fit_args")
            ctx.point("calls", "property", [[c[1], c[2]] for c in calls], m["calls"], case, exact=True, sig=f"{sig}/calls",
                      theorem="C12_dispatch_order, C12_callbacks_container")
        if cbs:
            ctx.point("user functions invoked", "property", rec.ucalls, m["userCalls"], case, exact=True, sig=f"{sig}/user-calls",
                      theorem="C12_lambda_dispatch, C12_lambda_init")
            if not L:
                ctx.point("calls", "property", [[c[1], c[2]] for c in calls], m["calls"], case, exact=True, sig=f"{sig}/calls",
                          theorem="C12_lambda_dispatch, C12_dispatch_order, C12_callbacks_container")
        mlog = strip_model_log(m["log"])
        ctx.point("log", "property", rec.log, [en for en in mlog if en[0] != "sched"], case, exact=True, sig=f"{sig}/log",
                  theorem="C12_param_window, C12_sticky, C12_batches_per_epoch")
        if sched:  # where the scheduler steps sit relative to the handler calls: informational
            ctx.count(f"sched_position_as_in_model={log_with_sched == mlog}")
        ctx.point("final", "property", final, {"stop": m["stop"], "ver": m["ver"], "sched": m["sched"]}, case, exact=True,
                  sig=f"{sig}/final", theorem="C12_sticky, C12_param_window, C12_scheduler_once_per_epoch, C12_stopped_run_is_noop, C12_session_stopped")
        if full:
            ctx.point("batches per uninterrupted epoch", "property", sorted(set(full)), [m["batchesPerEpoch"]], case, exact=True,
                      sig=f"{sig}/batches-per-epoch", theorem="C12_batches_per_epoch")
        reach = lambda i: any(active(i, ev) for ev in exp_events)  # noqa: E731
        ctx.point("callbacks reached", "property", sorted({c[1] for c in calls}) if exp_events else [],
                  sorted(i for i in set(m["cbs"]) if reach(i)) if exp_events else [],
                  case, exact=True, sig=f"{sig}/callbacks-reached", theorem="C12_callbacks_container")


# ------------------------------------------------------------------ generation
def base_configs(ctx, thorough):
    rng = ctx.rng
    out = []
    starts = [1, 0, -2, 3, 7]
    for d in range(-2, 4):
        for (N, B) in NB_CHOICES:
            start = rng.choice(starts)
            out.append((start, start + d, N, B))
    return out


def cb_lists(rng):
    return rng.choice([[0], [0, 1], [0, 1, 2], [1, 0], [2, 0, 1], [0, 1, 0], [0], [0, 1]])


def neg_choice(rng, N, B):
    """neg_batch_size: None / 0 (falsy) / smaller / equal / larger than pos_batch_size (incl. >= N: a single negative slice)"""
    mode = rng.choice(["none", "none", "zero", "lt", "eq", "gt", "gt", "big", "big"])
    if mode == "none":
        return None
    if mode == "zero":
        return 0
    if mode == "lt":
        return rng.randint(1, B - 1) if B > 1 else None
    if mode == "eq":
        return B
    if mode == "gt":
        return B + rng.randint(1, max(1, B))
    return max(B + 1, N + rng.randint(0, 3))


def cb_form_choice(rng, cbs):
    return rng.choice(CB_FORMS if cbs else ("none", "none") + CB_FORMS)


def periodic(start, epochs, nb, cbs, rng):
    """a callback that asks for a stop at every p-th epoch end (as EarlyStopping-like callbacks with a period do) or at every
    p-th batch end; only the first request inside the run matters"""
    p = rng.choice([2, 3])
    i = rng.choice(cbs)
    if rng.random() < 0.6 or nb < 2:
        return [[i, ["ee", e]] for e in range(start, epochs + 1) if e % p == 0], p
    return [[i, ["be", e, b]] for e in range(start, epochs + 1) for b in range(nb) if (b + 1) % p == 0], p


def injections(start, epochs, nb, cbs, rng, thorough, quota):
    """list of (inject_cb, inject_mid, stop0[, period])"""
    pts = ref_points(start, epochs, nb)
    out = [([], [], False), ([], [], True)]
    if not cbs:
        cand = [p for p in pts if p[0] == "mid"]
    else:
        cand = pts
    if not thorough:
        cand = rng.sample(cand, min(quota, len(cand)))
    for p in cand:
        if p[0] == "mid":
            out.append(([], [[p[1], p[2]]], False))
            if thorough or rng.random() < 0.5:
                out.append(([], [], False, None, [[p[1], p[2]]]))  # the same batch, but raised BEFORE the update
        else:
            out.append(([[rng.choice(cbs), p]], [], False))
    # double requests: only the first matters; a request by a callback that is not in the list is never made
    if len(pts) >= 4:
        a, b = sorted(rng.sample(range(len(pts)), 2))
        pa, pb = pts[a], pts[b]
        icb = [[rng.choice(cbs), q] for q in (pa, pb) if q[0] != "mid" and cbs]
        imid = [[q[1], q[2]] for q in (pa, pb) if q[0] == "mid"]
        out.append((icb, imid, False))
        if cbs and pb[0] != "mid":
            out.append(([[99, pa if pa[0] != "mid" else pb], [rng.choice(cbs), pb]], [], False))
    if cbs and epochs >= start:
        icb, p = periodic(start, epochs, nb, cbs, rng)
        out.append((icb, [], False, p))
    return out


def make_run(rng, start, epochs, N, B, cbs, timer, sched, icb, imid, pre, ipre=None):
    run = {"start": start, "epochs": epochs, "N": N, "B": B, "neg": neg_choice(rng, N, B), "form": rng.choice(DATA_FORMS),
           "cbs": cbs, "cb_form": cb_form_choice(rng, cbs), "time": timer, "sched": sched, "pre": pre,
           "inject_cb": icb, "inject_mid": imid}
    if N == 0:  # `_shuffle_data` draws negative indices with torch.randint(N, ...) unless the two sizes agree: only then N = 0 is accepted
        run["neg"] = rng.choice([None, 0, B])
    if ipre:
        run["inject_pre"] = ipre
    # round 5: the CD step count (no effect on the protocol), the progress-bar option in both truth values and the number of leading
    # arguments of `fit` that are passed positionally (1 = the data only ... 15 = all, in the documented order)
    run["k"] = rng.choice([1, 1, 2])
    run["progbar"] = rng.random() < 0.3
    run["npos"] = rng.choice(range(2, len(FIT_ORDER) + 1)) if rng.random() < 0.5 else 1
    return run


def with_omissions(rng, case):
    """final pass: in a third of the cases every call leaves out the keyword arguments whose value is the documented default"""
    if "runs" in case and rng.random() < 0.34:
        for run in case["runs"]:
            run["omit"] = True
    return case


def gen_objs(rng):
    """callback objects with a SUBSET of the six handlers: LambdaCallback (handlers in the forms CallbackList can call) or
    CallbackBase subclass overriding only some methods; now and then no handler at all (`LambdaCallback()`)"""
    objs = {}
    for i in range(3):
        lam = rng.random() < 0.7
        u = rng.random()
        if u < 0.08:
            forms = ["none"] * 6
        elif u < 0.2:  # one handler only
            forms = ["none"] * 6
            forms[rng.randrange(6)] = rng.choice(DISPATCH_FORMS) if lam else "pos"
        else:
            forms = [("none" if rng.random() < 0.45 else (rng.choice(DISPATCH_FORMS) if lam else "pos")) for _ in range(6)]
        objs[str(i)] = {"lam": lam, "forms": forms}
    return objs


def gen_session(rng, ncalls=None, empty_ok=False):
    """2..3 consecutive calls on one object; each call has its own sizes / callbacks / options; the caller sometimes clears or sets
    the flag in between, sometimes passes the same callbacks container again"""
    runs = []
    for r in range(ncalls or rng.choice([2, 2, 3])):
        N, B = rng.choice(NB_CHOICES)
        if empty_ok and rng.random() < 0.3:
            N, B = rng.choice(NB_EMPTY)
        nb = -(-N // B)
        start = rng.choice([1, 1, 0, -2, 3, 7])
        epochs = start + rng.choice([-1, 0, 0, 1, 1, 2])
        if r and rng.random() < 0.4:  # the caller repeats the call with the same epoch range (and, with the forms of round 5, the same option objects)
            start, epochs = runs[-1]["start"], runs[-1]["epochs"]
        if r and rng.random() < 0.5:
            cbs = list(runs[-1]["cbs"])
        else:
            cbs = cb_lists(rng) if rng.random() < 0.85 else []
        pts = ref_points(start, epochs, nb)
        icb, imid, per = [], [], None
        u = rng.random()
        cand = [p for p in pts if (cbs or p[0] == "mid")]
        if u < 0.45 and cand:
            p = rng.choice(cand)
            if p[0] == "mid":
                imid = [[p[1], p[2]]]
            else:
                icb = [[rng.choice(cbs), p]]
        elif u < 0.55 and cbs and epochs >= start:
            icb, per = periodic(start, epochs, nb, cbs, rng)
        ipre = None
        if imid and rng.random() < 0.5:
            imid, ipre = [], imid
        pre = rng.choice([None, None, None, False, False, True]) if r else rng.choice([None, None, None, None, False, True])
        run = make_run(rng, start, epochs, N, B, cbs, rng.random() < 0.6, rng.random() < 0.5, icb, imid, pre, ipre)
        if per:
            run["periodic"] = per
        if r and cbs == runs[-1]["cbs"] and rng.random() < 0.7:
            run["cb_form"] = runs[-1]["cb_form"]
            run["cb_same"] = True
        runs.append(run)
    return runs


def gen_cases(ctx, thorough):
    """every fit case carries the seeds of its argument-form streams (qc.Flags / qc.Ints); about one case in eight keeps plain Python values"""
    rng = ctx.rng
    for case in _gen_cases(ctx, thorough):
        if "runs" in case and rng.random() < 0.875:
            case["fseed"], case["iseed"] = rng.randrange(2 ** 31), rng.randrange(2 ** 31)
        yield with_omissions(rng, case)


def _gen_cases(ctx, thorough):
    rng = ctx.rng
    for (start, epochs, N, B) in base_configs(ctx, thorough):
        nb = -(-N // B)
        kinds = list(KINDS) if thorough else ["pos", rng.choice(["cplx", "dens"])]
        for kind in kinds:
            variants = (6 if kind == "pos" else 2) if thorough else 1
            for v in range(variants):
                cbs = cb_lists(rng) if (rng.random() < 0.9 and v != 5) else []
                lam = [rng.random() < 0.5 for _ in range(3)]
                timer = (v % 2 == 0) if thorough else rng.random() < 0.5
                sched = rng.random() < 0.6
                quota = 4 if kind == "pos" else 2
                for (icb, imid, stop0, *per) in injections(start, epochs, nb, cbs, rng, thorough, quota):
                    run = make_run(rng, start, epochs, N, B, cbs, timer, sched, icb, imid, True if stop0 else None,
                                   per[1] if len(per) > 1 else None)
                    if per and per[0]:
                        run["periodic"] = per[0]
                    yield {"kind": kind, "lambda": lam, "dseed": rng.randrange(1 << 30), "runs": [run]}
    for i in range(1500 if thorough else 150):
        yield {"kind": KINDS[i % 3] if i % 2 else "pos", "lambda": [rng.random() < 0.5 for _ in range(3)],
               "dseed": rng.randrange(1 << 30), "runs": gen_session(rng)}
    # runs without batches (no rows): every (epochs - start), a stop at every point of the unstopped run (ts / es / ee / te)
    for d in range(-1, 3):
        for (N, B) in (NB_EMPTY if thorough else [rng.choice(NB_EMPTY)]):
            start = rng.choice([1, 0, -2, 3])
            for v in range(3 if thorough else 1):
                cbs = cb_lists(rng) if rng.random() < 0.85 else []
                for (icb, imid, stop0, *per) in injections(start, start + d, 0, cbs, rng, True, 0):
                    run = make_run(rng, start, start + d, N, B, cbs, rng.random() < 0.6, rng.random() < 0.6, icb, imid, True if stop0 else None)
                    if per and per[0]:
                        run["periodic"] = per[0]
                    case = {"kind": "pos", "lambda": [rng.random() < 0.5 for _ in range(3)], "dseed": rng.randrange(1 << 30), "runs": [run]}
                    if rng.random() < 0.4:
                        case["objs"] = gen_objs(rng)
                    yield case
    # callbacks holding only a subset of the six handlers (single calls with a stop at a random point, and sessions)
    for i in range(1200 if thorough else 140):
        single = i % 2 == 0
        yield {"kind": KINDS[i % 3] if i % 4 == 1 else "pos", "lambda": [True], "objs": gen_objs(rng), "dseed": rng.randrange(1 << 30),
               "runs": gen_session(rng, ncalls=1 if single else None, empty_ok=False)}
    for i in range(200 if thorough else 30):
        yield {"kind": "pos", "lambda": [True], "objs": gen_objs(rng), "dseed": rng.randrange(1 << 30),
               "runs": gen_session(rng, ncalls=rng.choice([1, 2]), empty_ok=True)}
    yield from gen_ctor_cases(rng, 600 if thorough else 90)
    yield from gen_abort_cases(rng, 60 if thorough else 12)
    yield from gen_asg_cases(rng, 900 if thorough else 110)
    yield from gen_cbl_cases(rng, 600 if thorough else 90)


# ------------------------------------------------------------------ calls that raise inside `fit` (OUTSIDE the property: counted, never judged)
def gen_abort_cases(rng, count):
    """SCOPE: `fit` raises after `on_train_start` when `_shuffle_data` has nothing to draw the negative indices from -- bases given but no
    reference-basis row in the data (complex / density state), or no rows at all with neg_batch_size != pos_batch_size (positive state) -- and
    the epoch range is not empty.  An aborted call is not a "training run" of the property (like an exception raised by a callback): the
    stream only COUNTS what happens (exception type, events seen) next to the model's `fitArgs` = .error / `fitArgsAbortLog`
    (theorem C12_fit_args_abort); it produces no point and no oracle."""
    for c in range(count):
        kind = rng.choice(["pos", "cplx", "dens"])
        start = rng.choice([1, 0, 3])
        d = rng.choice([-1, 0, 0, 1, 2])
        if kind == "pos":
            N, B = 0, rng.choice([1, 2, 3])
            neg = rng.choice([b for b in (1, 2, 3, 4) if b != B])
        else:
            N, B = rng.choice([(1, 1), (2, 2), (3, 2), (5, 2)])
            neg = rng.choice([None, B, B + 1])
        yield {"abort": {"kind": kind, "start": start, "epochs": start + d, "N": N, "B": B, "neg": neg,
                         "cbs": rng.choice([[0], [0, 1], [1, 0, 1]]), "time": rng.random() < 0.5, "sched": rng.random() < 0.5},
               "dseed": rng.randrange(1 << 30)}


def abort_case(ctx, case):
    import random

    ctx.current_case = case
    a = case["abort"]
    rng = random.Random(case["dseed"])
    st = make_state(a["kind"], rng)
    data, bases = make_data(a["kind"], a["N"], rng, noz=True)
    hold = _Holder()
    rec = _Recorder([], [])
    hold.rec = rec
    objs = {i: make_callback_spec(hold, i, {"lam": i % 2 == 0, "forms": ["pos"] * 6}) for i in set(a["cbs"])}
    err = None
    kw = {} if bases is None else {"input_bases": np.array(bases)}
    try:
        with contextlib.redirect_stdout(io.StringIO()), contextlib.redirect_stderr(io.StringIO()):
            st.fit(container(data, "tensor_f64") if a["N"] else empty_container("tensor_f64"), epochs=a["epochs"], pos_batch_size=a["B"],
                   neg_batch_size=a["neg"], starting_epoch=a["start"], time=a["time"], callbacks=[objs[i] for i in a["cbs"]],
                   optimizer=make_optimizer_class(rec, st), scheduler=(make_scheduler_class(rec) if a["sched"] else None), **kw)
    except Exception as e:  # noqa: BLE001
        err = type(e).__name__
    seen = [[c[1], c[2]] for c in rec.log if c[0] == "call"]
    ctx.count(f"abort_regime:kind={a['kind']},empty_range={a['epochs'] < a['start']},fit_raised={err}")
    ctx.count("abort_regime:handler calls when fit raised=" + ("-" if err is None else "train-start only" if all(ev == ["ts"] for _, ev in seen) else "more"))
    if ctx.driver is not None:
        m = ctx.driver.call("c12.abort", pre=None, start=a["start"], epochs=a["epochs"], N=a["N"], nZ=count_z(bases), posB=a["B"], negB=a["neg"],
                            hasBases=a["kind"] != "pos", callbacks={"form": "list", "items": a["cbs"]}, timer=a["time"], hasSched=a["sched"],
                            req_cb=[], req_mid=[])
        agree = (m.get("result") == "ok") == (err is None) and (err is None or seen == m.get("abortCalls"))
        ctx.count(f"abort_regime:model={m.get('result')},agrees_with_implementation={agree}")
    ctx.case(case, nontrivial=False, sample=None)


# ------------------------------------------------------------------ extension round 2: callbacks ASSIGNING to stop_training (every kind of
# value, at every event, inside or outside a try), exceptions escaping from fit, the Timer differential
TRUTHY_VALS = (["bool", True], ["npbool", True], ["int", 1], ["int", 2], ["tensor", True], ["str", "yes"])
FALSY_VALS = (["bool", False], ["npbool", False], ["int", 0], ["tensor", False], ["none"], ["str", ""])


def py_val(spec):
    """the Python object of a value spec (model: QV.Train.PyVal)"""
    tag = spec[0]
    if tag == "bool":
        return bool(spec[1])
    if tag == "npbool":
        return (np.float64(1.0) > 0.5) if spec[1] else np.bool_(False)  # a numpy comparison result / np.bool_
    if tag == "int":
        return int(spec[1])
    if tag == "tensor":
        return torch.tensor(bool(spec[1]))
    if tag == "none":
        return None
    return str(spec[1])


class _AsgRecorder(_Recorder):
    """recorder whose handlers execute `st.stop_training = value` where the case says so (inside a try when `catches`)"""

    def __init__(self, assigns, inject_mid_ordinals):
        super().__init__([], inject_mid_ordinals)
        self.assigns = {(i, tuple(ev)): (val, catches) for i, ev, val, catches in assigns}
        self.outcomes = []

    def handle(self, ident, st, ev, fid=None):
        self.log.append(["call", ident, ev, bool(st.stop_training), self.version(st)])
        self.ucalls.append([fid, ident, ev])
        a = self.assigns.get((ident, tuple(ev)))
        if a is None:
            return
        spec, catches = a
        before = bool(st.stop_training)
        out = {"i": ident, "ev": ev, "val": spec, "catches": catches, "before": before}
        try:
            st.stop_training = py_val(spec)
        except Exception as e:  # noqa: BLE001  any exception type is a refusal
            out.update(raised=type(e).__name__, after=bool(st.stop_training))
            self.outcomes.append(out)
            if not catches:
                raise
        else:
            out.update(raised=None, after=bool(st.stop_training))
            self.outcomes.append(out)


def simple_fit(st, rec, data, bases, a, callbacks, time=None):
    """a plain keyword call of fit with the recording optimizer / scheduler; returns the exception that escaped (or None)"""
    kw = {} if bases is None else {"input_bases": np.array(bases)}
    try:
        with contextlib.redirect_stdout(io.StringIO()), contextlib.redirect_stderr(io.StringIO()):
            st.fit(container(data, "tensor_f64"), epochs=a["epochs"], pos_batch_size=a["B"], starting_epoch=a["start"],
                   time=(a["time"] if time is None else time), callbacks=callbacks, optimizer=make_optimizer_class(rec, st),
                   optimizer_args={"weight_decay": 0.05}, scheduler=(make_scheduler_class(rec) if a["sched"] else None), **kw)
    except Exception as e:  # noqa: BLE001
        return e
    return None


def gen_asg_cases(rng, count):
    for c in range(count):
        kind = KINDS[c % 3] if c % 2 else "pos"
        N, B = rng.choice([(4, 4), (3, 2), (4, 2), (5, 2), (3, 1), (1, 1)])
        nb = -(-N // B)
        start = rng.choice([1, 1, 0, 3])
        epochs = start + rng.choice([0, 1, 1, 2])
        cbs = cb_lists(rng)
        pts = [p for p in ref_points(start, epochs, nb) if p[0] != "mid"]
        mode = rng.choice(["truthy", "truthy", "falsy"])
        vals = TRUTHY_VALS if mode == "truthy" else FALSY_VALS
        if rng.random() < 0.4:
            vals = vals[:1]  # audit 3 (B4): Python bool only - the cases whose protocol points stay at property level
        assigns = []
        for p in rng.sample(pts, min(len(pts), rng.choice([1, 1, 2, 3]))):
            assigns.append([rng.choice(cbs), p, list(rng.choice(vals)), rng.random() < 0.6])
        mid = []
        if mode == "truthy" and rng.random() < 0.25:
            e = rng.randint(start, epochs)
            mid = [[e, rng.randrange(nb)]]
        yield {"asg": {"kind": kind, "start": start, "epochs": epochs, "N": N, "B": B, "cbs": cbs, "time": rng.random() < 0.5,
                       "sched": rng.random() < 0.5, "assigns": assigns, "mid": mid, "mode": mode},
               "dseed": rng.randrange(1 << 30)}


def asg_run(case, time=None):
    """build a fresh state + callbacks from the case and run fit once; returns everything observed"""
    import random

    a = case["asg"]
    rng = random.Random(case["dseed"])
    st = make_state(a["kind"], rng)
    data, bases = make_data(a["kind"], a["N"], rng)
    torch.manual_seed(case["dseed"])
    nb = -(-a["N"] // a["B"])
    hold = _Holder()
    rec = _AsgRecorder(a["assigns"], [(e - a["start"]) * nb + b for e, b in a["mid"]])
    hold.rec = rec
    objs = {i: make_callback_spec(hold, i, {"lam": i % 2 == 0, "forms": ["pos"] * 6}) for i in set(a["cbs"])}
    h_before = param_hash(st)
    rec.hashes[h_before] = 0
    err = simple_fit(st, rec, data, bases, a, [objs[i] for i in a["cbs"]], time=time)
    return {"st": st, "rec": rec, "err": err, "hold": hold, "objs": objs, "data": data, "bases": bases, "nb": nb}


def asg_case(ctx, case):
    ctx.current_case = case
    a = case["asg"]
    kind, cbs, start, epochs = a["kind"], a["cbs"], a["start"], a["epochs"]
    r = asg_run(case)
    st, rec, err, nb = r["st"], r["rec"], r["err"], r["nb"]
    sig = f"{kind}/fit-asg"
    thm = "C12_refused_request_leaves_flag_partial"
    log = [en for en in rec.log if en[0] != "sched"]
    calls = [en for en in log if en[0] == "call"]
    # ---- effect of every executed assignment (independent of the model; any exception type is a refusal)
    # audit 3 (B4): the property speaks about stop REQUESTS (`stop_training = True`, a Python bool).  Assigning another object is an
    # undocumented input, and what an assignment that raises leaves behind is a partial effect: in a case that offers a non-bool object the
    # protocol points below are recorded only (ctx.info); the cases in which every assignment is a Python bool keep the property level
    all_bool = all(x[2][0] == "bool" for x in a["assigns"])
    ctx.count(f"asg_case:all assignments Python bool={all_bool}")

    def judged(text, ok, detail=None, sig_=None, theorem=None):
        if all_bool:
            return ctx.oracle(text, ok, case, detail=detail, sig=sig_, theorem=theorem)
        return ctx.info(f"{sig_} (case offers a non-bool object): {text}", bool(ok), True)

    bad_ref = next((o for o in rec.outcomes if o["raised"] and o["after"] != o["before"]), None)
    # audit 3 (B4): which partial effect a raising assignment leaves is not constrained by the property: recorded only
    ctx.info(f"{sig}/refused-assignment-frame: an assignment to stop_training made by a callback that raises leaves the flag unchanged",
             bad_ref is None, True)
    # audit 3 (B4): property level for Python bool values only; the value a non-bool object is taken as, when accepted, is recorded
    bad_acc = next((o for o in rec.outcomes if o["val"][0] == "bool" and not o["raised"] and o["after"] != bool(py_val(o["val"]))), None)
    ctx.oracle("an accepted assignment of a Python bool makes the flag that bool (no spurious request)", bad_acc is None, case,
               detail=bad_acc, sig=f"{sig}/accepted-assignment-value", theorem=thm)
    bad_acc_o = next((o for o in rec.outcomes if o["val"][0] != "bool" and not o["raised"] and o["after"] != bool(py_val(o["val"]))), None)
    ctx.info(f"{sig}/accepted-assignment-value (non-bool object): the flag becomes the truth value of the assigned object", bad_acc_o is None, True)
    for o in rec.outcomes:
        ctx.count(f"asg:{o['val'][0]}({bool(py_val(o['val']))})@{o['ev'][0]}:" + ("refused" if o["raised"] else "accepted") +
                  ("" if o["catches"] else ",uncaught"))
    eff = {(o["i"], tuple(o["ev"])) for o in rec.outcomes if not o["raised"] and bool(py_val(o["val"]))}
    escaped = next((o for o in rec.outcomes if o["raised"] and not o["catches"]), None)
    mids = [list(m) for m in a["mid"]]
    requested = lambda p: ((p[0] == "mid" and [p[1], p[2]] in mids) or  # noqa: E731
                           (p[0] != "mid" and any((i, tuple(p)) in eff for i in cbs)))
    final = {"stop": bool(st.stop_training), "ver": rec.opt_steps, "sched": rec.sched_steps}
    if err is None:
        # ---- a run that returned: protocol by EFFECT (a refused assignment is not a request; an accepted true value is)
        exp_events, exp_stop = ref_events(start, epochs, nb, False, requested)
        exp_ucalls = [[fid_of(i, ev[0]), i, ev] for ev in exp_events for i in cbs]
        # audit 3 (B4): `judged` - property level when every assignment is a Python bool, recorded only otherwise (the reference assumes
        # "a refused non-bool assignment is not a request and leaves the flag")
        judged("event trace of a run whose callbacks assign to stop_training == protocol reference for the requests that were ACCEPTED",
               rec.ucalls == exp_ucalls, detail={"impl": rec.ucalls[:40], "expected": exp_ucalls[:40], "outcomes": rec.outcomes[:6]},
               sig_=f"{sig}/protocol", theorem="C12_refused_request_leaves_flag_partial, C12_protocol, C12_stop_in_batch, C12_stop_at_epoch_end")
        judged("final flag == some accepted request", final["stop"] == exp_stop, detail={"impl": final["stop"], "expected": exp_stop},
               sig_=f"{sig}/final-flag", theorem="C12_refused_request_leaves_flag_partial, C12_sticky")
        judged("one optimizer step per batch begun", final["ver"] == sum(1 for ev in exp_events if ev[0] == "bs"),
               sig_=f"{sig}/opt-count", theorem="C12_param_window")
        ctx.oracle("fit raised although no callback let an exception out", True, case, sig=f"{sig}/exception", theorem="C12_exception_trace_partial")
        ctx.count("asg_run:returned" + (",although a refused assignment was not caught" if escaped else ""))
    else:
        ctx.oracle("fit raised although no callback let an exception out", escaped is not None, case,
                   detail=f"{type(err).__name__}: {err}", sig=f"{sig}/exception", theorem="C12_exception_trace_partial")
        ctx.count(f"asg_run:exception escaped from fit ({type(err).__name__})")
        ctx.count("escape:train-end seen after the exception=" + str(any(c[2] == ["te"] for c in calls)))
        # ---- flag persistence: what the aborted call leaves is the OR of the requests made before the exception; the next call on the
        # object is silent iff it is set, a complete fresh run otherwise
        exp_flag = bool(eff) or any((e - start) * nb + b < rec.opt_steps for e, b in mids)
        # audit 3 (B4): a call an exception escaped from is not a training run of the property; the flag it leaves is recorded only
        ctx.info(f"{sig}/flag-after-escape: flag left by a call that an exception escaped from == OR of the requests accepted before it",
                 final["stop"] == exp_flag, True)
        rec2 = _AsgRecorder([], [])
        r["hold"].rec = rec2
        rec2.hashes[param_hash(st)] = 0
        a2 = {**a, "epochs": start}
        err2 = simple_fit(st, rec2, r["data"], r["bases"], a2, [r["objs"][i] for i in cbs])
        exp2, _ = ref_events(start, start, nb, final["stop"], lambda p: False)
        exp2u = [[fid_of(i, ev[0]), i, ev] for ev in exp2 for i in cbs]
        ctx.oracle("the call after an aborted call: silent iff a stop had been requested, otherwise a complete fresh run",
                   err2 is None and rec2.ucalls == exp2u, case,
                   detail={"error": repr(err2), "impl": rec2.ucalls[:30], "expected": exp2u[:30], "flag": final["stop"]},
                   sig=f"{sig}/call-after-escape", theorem="C12_exception_trace_partial, C12_stopped_run_is_noop, C12_protocol")
    # ---- the model (QV.Train.fitAsg): setter as the code has it; verdicts only where implementation and model agree on WHICH
    # assignments are refused (which objects a setter refuses is not part of the property: a setter accepting np.bool_ violates nothing)
    if ctx.driver is not None:
        m = ctx.driver.call("c12.fit_asg", start=start, epochs=epochs, numBatches=nb, cbs=cbs, timer=a["time"], hasSched=a["sched"],
                            stop0=False, req_mid=mids, asg=[[i, ev, val, catches] for i, ev, val, catches in a["assigns"]])
        agree = all(bool(o["raised"]) == (o["val"][0] != "bool") for o in rec.outcomes)
        ctx.count(f"setter:refused-or-not as in the model={agree}")
        for o in rec.outcomes:
            ms = ctx.driver.call("c12.set_stop", val=o["val"], flag=o["before"])
            ctx.count(f"setter:{o['val'][0]}:model={'refused' if ms['error'] else 'accepted'},impl={'refused' if o['raised'] else 'accepted'}")
            if bool(ms["error"]) == bool(o["raised"]):
                if o["val"][0] == "bool" and not o["raised"]:
                    ctx.point("flag after `nn_state.stop_training = v` inside a handler", "property", o["after"], ms["stop"], case, exact=True,
                              sig=f"{sig}/setter-flag", theorem=thm)
                else:
                    # audit 3 (B4): non-bool object / refused assignment: undocumented input, partial effect - recorded only
                    ctx.info(f"{sig}/setter-flag (non-bool object or refused): flag after `nn_state.stop_training = v` inside a handler",
                             o["after"], ms["stop"])
        if agree and "abort" not in m and err is None:
            L = len(cbs)
            groups = [calls[k:k + L] for k in range(0, len(calls), L)]
            m_log = [en for en in strip_model_log(m["log"]) if en[0] != "sched"]
            m_final = {"stop": m["stop"], "ver": m["ver"], "sched": m["sched"]}
            if all_bool:
                ctx.point("events (callbacks assigning to stop_training)", "property", [g[0][2] for g in groups], m["events"], case, exact=True,
                          sig=f"{sig}/events", theorem="C12_refused_request_leaves_flag_partial, C12_protocol")
                ctx.point("log (callbacks assigning to stop_training)", "property", log, m_log,
                          case, exact=True, sig=f"{sig}/log", theorem="C12_refused_request_leaves_flag_partial, C12_sticky, C12_param_window")
                ctx.point("final (callbacks assigning to stop_training)", "property", final, m_final,
                          case, exact=True, sig=f"{sig}/final", theorem="C12_refused_request_leaves_flag_partial, C12_sticky")
            else:
                # audit 3 (B4): the case offers a non-bool object (the model: refused, not a request, flag left): recorded only
                ctx.info(f"{sig}/events (case offers a non-bool object)", [g[0][2] for g in groups], m["events"])
                ctx.info(f"{sig}/log (case offers a non-bool object)", log, m_log)
                ctx.info(f"{sig}/final (case offers a non-bool object)", final, m_final)
        elif agree and "abort" in m and err is not None:
            ab = m["abort"]
            # audit 3 (B4): the flag after an exception escaped from fit - not a training run of the property: recorded only
            ctx.info(f"{sig}/abort-flag: flag left when the exception escaped from fit", final["stop"], ab["stop"])
            # what has happened when the exception escapes (no later event, updates made) is not something the property speaks about:
            # informational counters only
            ctx.count(f"escape:handler calls seen as in the model's abort log={[[c[1], c[2]] for c in calls] == ab['calls']}")
            ctx.count(f"escape:log (flags seen, parameter versions, updates) as in the model's abort log={log == [en for en in strip_model_log(ab['log']) if en[0] != 'sched']}")
            ctx.count(f"escape:updates made as in the model={final['ver'] == ab['ver']}")
        elif agree:
            ctx.count(f"escape:model {'aborts' if 'abort' in m else 'returns'}, implementation {'raised' if err is not None else 'returned'}")
    # ---- the Timer is transparent: the same case on a fresh object with `time` flipped shows the callbacks and the optimizer the same run
    if err is None and case.get("timer_diff", True):
        r2 = asg_run(case, time=not a["time"])
        log2 = [en for en in r2["rec"].log if en[0] != "sched"]
        same = (r2["err"] is None and log2 == log and r2["rec"].ucalls == rec.ucalls and r2["rec"].opt_steps == rec.opt_steps and
                r2["rec"].sched_steps == rec.sched_steps and bool(r2["st"].stop_training) == final["stop"] and
                param_hash(r2["st"]) == param_hash(st))
        ctx.oracle("time=True / time=False: same handler calls (flags and parameter versions seen), same updates, same final flag and parameters",
                   same, case, detail={"error": repr(r2["err"]), "with": log2[:30], "without": log[:30]}, sig=f"{kind}/timer-transparent",
                   theorem="C12_timer_transparent")
    begun = any(c[2][0] == "es" for c in calls)
    ctx.case({k: v for k, v in case.items() if k != "dseed"}, nontrivial=begun and bool(rec.outcomes),
             sample={"asg": a["assigns"][:2], "escaped": err is not None})


# ------------------------------------------------------------------ extension round 2: the CallbackList container API
OTHERS = (lambda: "on_epoch_end", lambda: 3, lambda: None, lambda: (lambda *a: None), lambda: object(), lambda: [])


def gen_cbl_cases(rng, count):
    """random operation sequences on a CallbackList: __setitem__ / __delitem__ / insert / append / + (both sides), indices inside and
    outside the range (negative too), callbacks and non-callbacks offered; then `cl[k]` reads and a fit given the container"""
    for c in range(count):
        ids = [rng.randrange(4) for _ in range(rng.choice([0, 1, 2, 2, 3]))]
        cur = list(ids)
        ops = []

        def item():
            return {"other": rng.randrange(len(OTHERS))} if rng.random() < 0.22 else rng.randrange(4)

        for _ in range(rng.choice([2, 3, 4, 5, 6, 7])):
            n = len(cur)
            t = rng.choice(["set", "set", "del", "del", "insert", "insert", "append", "add", "radd"])
            if t == "set":
                k, it = rng.randint(-n - 2, n + 1), item()
                ops.append(["set", k, it])
                if isinstance(it, int) and -n <= k < n:
                    cur[k] = it
            elif t == "del":
                k = rng.randint(-n - 2, n + 1)
                ops.append(["del", k])
                if -n <= k < n:
                    del cur[k]
            elif t == "insert":
                k, it = rng.randint(-n - 3, n + 3), item()
                ops.append(["insert", k, it])
                if isinstance(it, int):
                    cur.insert(k, it)
            elif t == "append":
                it = item()
                ops.append(["append", it])
                if isinstance(it, int):
                    cur.append(it)
            else:
                o = [rng.randrange(4) for _ in range(rng.choice([0, 1, 2]))]
                ops.append([t, o])
                cur = cur + o if t == "add" else o + cur
        n = len(cur)
        yield {"cbl": {"kind": rng.choice(["pos", "pos", "cplx", "dens"]), "init": ids, "ops": ops,
                       "gets": [rng.randint(-n - 1, n) for _ in range(3)], "expect": cur, "start": 1, "epochs": rng.choice([1, 2]),
                       "N": 3, "B": 2, "time": rng.random() < 0.4, "sched": False},
               "dseed": rng.randrange(1 << 30)}


def cbl_case(ctx, case):
    import random

    from qucumber.callbacks import CallbackList

    ctx.current_case = case
    a = case["cbl"]
    kind = a["kind"]
    rng = random.Random(case["dseed"])
    st = make_state(kind, rng)
    data, bases = make_data(kind, a["N"], rng)
    torch.manual_seed(case["dseed"])
    hold = _Holder()
    rec = _AsgRecorder([], [])
    hold.rec = rec
    objs = {i: make_callback_spec(hold, i, {"lam": i % 2 == 0, "forms": ["pos"] * 6}) for i in range(4)}
    ident_of = {id(o): i for i, o in objs.items()}
    real = lambda it: objs[it] if isinstance(it, int) else OTHERS[it["other"]]()  # noqa: E731
    contents = lambda c: [ident_of.get(id(o), f"foreign:{type(o).__name__}") for o in c]  # noqa: E731  list(cl): __iter__
    sig = "cblist-ops"
    cl = CallbackList([objs[i] for i in a["init"]])
    raised, frame_ok, first_bad = [], True, None
    for op in a["ops"]:
        before = contents(cl)
        err = None
        try:
            if op[0] == "set":
                cl[op[1]] = real(op[2])
            elif op[0] == "del":
                del cl[op[1]]
            elif op[0] == "insert":
                cl.insert(op[1], real(op[2]))
            elif op[0] == "append":
                cl.append(real(op[1]))
            elif op[0] == "add":
                cl = cl + CallbackList([objs[i] for i in op[1]])
            else:
                cl = CallbackList([objs[i] for i in op[1]]) + cl
        except Exception as e:  # noqa: BLE001  any exception type is a refusal
            err = type(e).__name__
            if contents(cl) != before and first_bad is None:
                frame_ok, first_bad = False, {"op": op, "raised": err, "before": before, "after": contents(cl)}
        raised.append(err)
        offered_other = op[0] in ("set", "insert", "append") and not isinstance(op[-1], int)
        ctx.count(f"cblist_op:{op[0]}{'(non-callback)' if offered_other else ''}:{'refused/' + err if err else 'accepted'}")
    # audit 3 (B2): the CallbackList container API (__setitem__ / __delitem__ / __getitem__ / insert / __add__) is not in C12's text (fit
    # only iterates the container); what a raising operation leaves behind is a partial effect: recorded only
    ctx.info(f"{sig}/refused-op-frame: a container operation that raises leaves the contents of the CallbackList unchanged", frame_ok, True)
    final_ids = contents(cl)
    gets = []
    for k in a["gets"]:
        try:
            gets.append(ident_of.get(id(cl[k]), "foreign"))
        except Exception:  # noqa: BLE001
            gets.append("refused")
    ref_gets = [final_ids[k] if -len(final_ids) <= k < len(final_ids) else "refused" for k in a["gets"]]
    # audit 3 (B2): __getitem__ / __len__ are container API the property never mentions (fit calls neither): recorded only
    try:
        n_cl = len(cl)
    except Exception:  # noqa: BLE001
        n_cl = "refused"
    ctx.info(f"{sig}/getitem-consistent: cl[k] reads position k of list(cl) (negative k from the end; outside the range refused), "
             "len(cl) == len(list(cl))", gets == ref_gets and n_cl == len(final_ids), True)
    # ---- a fit given the container: dispatch order == contents, whatever the history of the container
    err = simple_fit(st, rec, data, bases, a, cl)
    nb = -(-a["N"] // a["B"])
    # audit 3 (B2): whether the container ends up holding only callbacks after non-callbacks were offered to it / after its API raised is
    # container-API behaviour outside the property: a fit that raises on such a container is recorded only
    ctx.info(f"{sig}/fit-exception: fit given a CallbackList edited through its container API returns", err is None, True)
    # the plain-list reference refuses a non-callback item and an index outside the range; which EXCEPTION is raised is not compared
    ref_refused = []
    cur = list(a["init"])
    for op in a["ops"]:
        n = len(cur)
        if op[0] in ("set", "insert", "append") and not isinstance(op[-1], int):
            ref_refused.append(True)
            continue
        if op[0] in ("set", "del") and not (-n <= op[1] < n):
            ref_refused.append(True)
            continue
        ref_refused.append(False)
        if op[0] == "set":
            cur[op[1]] = op[2]
        elif op[0] == "del":
            del cur[op[1]]
        elif op[0] == "insert":
            cur.insert(op[1], op[2])
        elif op[0] == "append":
            cur.append(op[1])
        elif op[0] == "add":
            cur = cur + op[1]
        else:
            cur = op[1] + cur
    same_refusals = [bool(x) for x in raised] == ref_refused
    ctx.count(f"cblist:refused-or-not as the plain-list reference={same_refusals}")
    if err is None:
        exp_events, _ = ref_events(a["start"], a["epochs"], nb, False, lambda p: False)
        seen = [[c[1], c[2]] for c in rec.log if c[0] == "call"]
        ctx.oracle("fit dispatches every event to the callbacks the container holds, in the container's order", 
                   seen == [[i, ev] for ev in exp_events for i in final_ids], case,
                   detail={"contents": final_ids, "calls": seen[:30]}, sig=f"{sig}/dispatch-is-contents", theorem="C12_container_ops_dispatch, C12_dispatch_order")
        if same_refusals:
            # audit 3 (B2): list semantics of the container operations is not in C12's text: recorded only
            ctx.info(f"{sig}/contents: contents after the operation sequence == the same operations on a plain list", final_ids, cur)
    if ctx.driver is not None:
        item = lambda it: it if isinstance(it, int) else None  # noqa: E731
        mops = [[op[0], op[1], item(op[2])] if op[0] in ("set", "insert") else [op[0], item(op[1])] if op[0] == "append" else op
                for op in a["ops"]]
        m = ctx.driver.call("c12.cblist_ops", init=a["init"], ops=mops, gets=a["gets"])
        m_same = [bool(x) for x in raised] == [e is not None for e in m["errors"]]
        ctx.count(f"cblist:refused-or-not as in the model={m_same}")
        ctx.count(f"cblist:exception types as in the model={raised == m['errors']}")
        if m_same:
            # audit 3 (B2): the model's container operations against the code: container API outside the property, recorded only
            ctx.info(f"{sig}/contents-model: len(cl), list(cl) after the operation sequence", [n_cl, final_ids], [len(m["final"]), m["final"]])
            ctx.info(f"{sig}/getitem: cl[k]", gets, [g if isinstance(g, int) else "refused" for g in m["gets"]])
        if err is None:
            first = [c[1] for c in rec.log if c[0] == "call" and c[2] == ["ts"]]
            # audit 3 (B2): property level against the IMPLEMENTATION's own contents (iteration order of the real container) - independent
            # of what the container operations did; the comparison with the MODEL's contents depends on their semantics: recorded only
            ctx.point("callbacks fit dispatches to (order) == the callbacks the container holds (its iteration order)", "property", first,
                      final_ids, case, exact=True, sig=f"{sig}/dispatched", theorem="C12_container_ops_dispatch, C12_callbacks_container")
            if m_same:
                ctx.info(f"{sig}/dispatched-model: callbacks fit dispatches to (order) == the model's contents after the operations",
                         first, m["dispatched"])
    ctx.case({k: v for k, v in case.items() if k != "dseed"}, nontrivial=len(final_ids) >= 2 or any(raised),
             sample={"init": a["init"], "ops": a["ops"][:4], "final": final_ids})


# ------------------------------------------------------------------ LambdaCallback constructor stream
def gen_ctor_cases(rng, count):
    """six constructor arguments: None | ["fn", form, k] (callable with k parameters by construction) | ["nc", j] (NON_CALLABLES[j])"""
    for c in range(count):
        mode = rng.choice(["valid", "valid", "one_bad", "one_bad", "many_bad", "all_none" if c % 9 == 0 else "one_bad"])
        args = []
        for tag in SLOTS:
            k = SLOT_ARGS[tag]
            if mode == "all_none" or rng.random() < 0.4:
                args.append(None)
            else:
                args.append(["fn", rng.choice(ALL_FORMS), k])
        bad_slots = [] if mode in ("valid", "all_none") else rng.sample(range(6), 1 if mode == "one_bad" else rng.choice([2, 3]))
        for j in bad_slots:
            k = SLOT_ARGS[SLOTS[j]]
            if rng.random() < 0.35:
                args[j] = ["nc", rng.randrange(len(NON_CALLABLES))]
            else:
                form = rng.choice(ALL_FORMS)
                wrong = rng.choice([x for x in range(0, 5) if x != k and (x >= 1 or form in ("pos", "partial", "method", "obj"))])
                args[j] = ["fn", form, wrong]
        yield {"ctor": args}


def ctor_case(ctx, case):
    from qucumber.callbacks import CallbackBase, LambdaCallback

    ctx.current_case = case
    args = case["ctor"]
    received = []
    fns, margs = [], []
    for j, (tag, a) in enumerate(zip(SLOTS, args)):
        if a is None:
            fns.append(None)
            margs.append(None)
        elif a[0] == "nc":
            fns.append(NON_CALLABLES[a[1]])
            margs.append("x")
        else:
            fns.append(make_fn(a[2], a[1], (lambda jj: lambda t: received.append([jj, len(t)]))(j)))
            margs.append({"id": j, "nparams": a[2]})  # the parameter count is known by construction, not read back with inspect
    # independent reference: the first offending argument in constructor order decides
    exp = None
    for tag, a in zip(SLOTS, args):
        if a is not None and a[0] == "nc":
            exp = "TypeError"
            break
        if a is not None and a[2] != SLOT_ARGS[tag]:
            exp = "ValueError"
            break
    err, cb = None, None
    try:
        cb = LambdaCallback(**{SLOT_NAME[tag]: f for tag, f in zip(SLOTS, fns)})
    except Exception as e:  # noqa: BLE001
        err = type(e).__name__  # neither the type nor the message is part of the property
    sig = "lambda/ctor"
    bad = sum(1 for tag, a in zip(SLOTS, args) if a is not None and (a[0] == "nc" or a[2] != SLOT_ARGS[tag]))
    ctx.count(f"ctor:{'ok' if exp is None else exp}")
    ctx.count(f"ctor:offending_args={min(bad, 2)}{'+' if bad > 2 else ''}")
    for a in args:
        ctx.count("ctor:arg=" + ("None" if a is None else "non-callable" if a[0] == "nc" else f"fn/{a[1]}"))
    # The property text does not say that unsuitable handlers are rejected (nor how): whether the constructor raises, with which exception
    # type and for which argument first is only COUNTED (no verdict).  What is judged is what the property names: an accepted object
    # delivers each event to the caller's function for that slot.
    ctx.count(f"ctor:rejected={err is not None},reference_rejects={exp is not None}")
    if err is not None or exp is not None:
        ctx.count(f"ctor:exception_type impl={err} reference(first offending argument)={exp}")
    if cb is not None and exp is None:
        # behaviour, not identity: calling cb.on_<slot>(event's arguments) runs the caller's function for THAT slot exactly once with
        # those arguments (forms whose signature accepts the positional call) / does nothing and returns None for a slot left None
        during_ctor = list(received)
        ok_slots, ok_noop, impl_h = True, True, []
        for j, (tag, f, a) in enumerate(zip(SLOTS, fns, args)):
            h = getattr(cb, SLOT_NAME[tag])
            del received[:]
            if f is None:
                try:
                    ok_noop = ok_noop and h(*range(SLOT_ARGS[tag])) is None and received == []
                except Exception:
                    ok_noop = False
                impl_h.append(None)
            elif a[1] in ("pos", "def", "var", "partial", "method", "obj"):
                try:
                    h(*range(SLOT_ARGS[tag]))
                except Exception:  # e.g. another slot's function sits here and does not take this event's arguments
                    ok_slots = False
                ok_slots = ok_slots and received == [[j, SLOT_ARGS[tag]]]
                impl_h.append(received[0][0] if received else "?")
            else:  # kw / kwonly / pkw forms cannot be called positionally with the event's arguments: only their acceptance is counted
                impl_h.append(j)
        ctx.count(f"ctor:isinstance(CallbackBase)={isinstance(cb, CallbackBase)}")
        ctx.oracle("each slot runs the caller's function for THAT slot; a slot left None is a no-op accepting the event's arguments; no "
                   "handler runs during construction", ok_slots and ok_noop and during_ctor == [], case,
                   detail={"slots_ok": ok_slots, "noop_ok": ok_noop, "calls_during_construction": during_ctor[:4]},
                   sig=f"{sig}/slots", theorem="C12_lambda_init, C12_lambda_dispatch")
    if ctx.driver is not None:
        m = ctx.driver.call("c12.lambda_init", args=margs)
        ctx.count(f"ctor:model_agrees(rejected-or-not)={(err is not None) == (m.get('error') is not None)}")
        ctx.count(f"ctor:model_agrees(exception type)={err == m.get('error')}")
        if cb is not None and exp is None and "handlers" in m:
            ctx.point("function run per slot", "property", impl_h, m["handlers"], case, exact=True, sig=f"{sig}/handlers",
                      theorem="C12_lambda_init")
    ctx.case(case, nontrivial=any(a is not None for a in args),
             sample={"ctor": args, "expected": exp})


def run(ctx):
    ctx.rule = RULE
    for case in gen_cases(ctx, ctx.tier == "thorough"):
        one_case(ctx, case)


def search(ctx):
    drv, ctx.driver = ctx.driver, None
    try:
        for case in gen_cases(ctx, True):
            one_case(ctx, case)
            if len(ctx.prop_mismatch) >= 3:
                break
    finally:
        ctx.driver = drv


def replay(ctx, case):
    one_case(ctx, {k: v for k, v in case.items() if k != "run"})
