"""C12 — correspondence of the `fit` state machine (QV.Model.Train.fit) with NeuralStateBase.fit:
event protocol, dispatch order, stop requests, parameter-change window, scheduler steps, Timer lines.

The real `fit` runs on tiny states with recording callbacks (LambdaCallback and CallbackBase subclasses), a
recording SGD subclass (optimizer=), a counting scheduler class (scheduler=), torch.randperm wrapped in-process
(one call per `_shuffle_data`), stdout captured for the Timer. Stop requests are injected by a chosen callback at
a chosen event, or from inside `optimizer.step()` ("during the batch").

A case is a SESSION: one state object and one or more consecutive `fit` calls on it (model: QV.Train.session). Each call has
its own arguments: data (N rows, container form), pos/neg batch sizes, `callbacks=` container form (None / list / tuple /
CallbackList / iterator; a later call may pass the very same container object again), time, scheduler, starting_epoch/epochs,
stop injections, and what the caller does to the flag before it (nothing / `stop_training = True` / `= False`)."""
import contextlib
import hashlib
import io
import re

import numpy as np

from . import qc
from .c07 import FORMS as DATA_FORMS, container
from .qc import torch

FILES = [
    "qucumber/nn_states/neural_state.py",
    "qucumber/callbacks/callback.py",
    "qucumber/callbacks/callback_list.py",
    "qucumber/callbacks/lambda_callback.py",
    "qucumber/callbacks/timer.py",
]
REQUIRED_THEOREMS = [
    "C12_protocol", "C12_train_events_once", "C12_complete_without_stop", "C12_stop_in_batch",
    "C12_stop_at_epoch_end", "C12_stop_at_epoch_start", "C12_stop_at_train_start", "C12_no_event_after_stop",
    "C12_sticky", "C12_stopped_run_is_noop", "C12_param_window", "C12_dispatch_order",
    "C12_scheduler_once_per_epoch", "C12_callbacks_container", "C12_batches_per_epoch", "C12_fit_args", "C12_session_stopped",
]
RULE = ("case = session on one state object (kind) of 1..3 consecutive fit calls, each call = (starting_epoch, epochs, N, "
        "pos_batch_size, neg_batch_size in {None, 0, < pos, = pos, > pos, >= N}, data container form (tensor dtypes, non-contiguous "
        "views, ndarray, list, tuple), callback identity list, callbacks container in {None, list, tuple, CallbackList, iterator} "
        "(possibly empty; possibly the same container object as in the previous call), LambdaCallback/subclass mix, time flag, "
        "scheduler flag, flag assignment before the call (none / True / False), injected stop requests (callback identity, event) "
        "/ (during batch e,b), incl. periodic requests (every p-th epoch end / batch end)); epochs-starting_epoch in -2..3, N/batch "
        "sizes giving 1..4 batches (incl. N < batch, N not divisible by pos or neg), 0..3 callbacks (an object may be listed "
        "twice); thorough injects a stop at every event and every batch of the unstopped single call, quick a seeded subset; "
        "non-trivial iff some call begins at least one epoch and (a stop is injected or there are >= 2 batches or >= 2 callbacks); "
        "distinct by hash of the case")
EXTRA_TRUSTED = [
    "C12: user callbacks are modelled only through the stop requests they make (Req); exceptions raised by callbacks, "
    "progress bars and GPU paths are not modelled; `_shuffle_data` is assumed to succeed (its error cases belong to C07)",
]

KINDS = ("pos", "cplx", "dens")
NB_CHOICES = [(4, 4), (2, 5), (3, 2), (4, 2), (5, 2), (3, 1), (4, 1), (7, 2), (10, 3), (7, 3), (5, 3), (9, 4)]  # 1..4 batches
CB_FORMS = ("list", "tuple", "cblist", "iter")


# ------------------------------------------------------------------ reference generator (independent of model and code)
def ref_points(start, epochs, nb):
    """all points of the unstopped run in order; a point is an event list or ["mid", e, b]"""
    pts = [["ts"]]
    for e in range(start, epochs + 1):
        pts.append(["es", e])
        for b in range(nb):
            pts += [["bs", e, b], ["mid", e, b], ["be", e, b]]
        pts.append(["ee", e])
    pts.append(["te"])
    return pts


def ref_events(start, epochs, nb, stop0, requested):
    """expected event trace: `requested(point) -> bool`. Declarative: prefix up to the first requested point, then the
    closing sequence that point's kind prescribes."""
    if stop0:
        return [], True
    pts = ref_points(start, epochs, nb)
    first = next((k for k, p in enumerate(pts) if requested(p)), None)
    if first is None:
        return [p for p in pts if p[0] != "mid"], False
    p = pts[first]
    pre = [q for q in pts[: first + 1] if q[0] != "mid"]
    tag = p[0]
    if tag == "ts":
        closing = ([["es", start], ["bs", start, 0], ["be", start, 0], ["ee", start]] if start <= epochs else []) + [["te"]]
    elif tag == "es":
        closing = [["bs", p[1], 0], ["be", p[1], 0], ["ee", p[1]], ["te"]]
    elif tag in ("bs", "mid"):
        closing = [["be", p[1], p[2]], ["ee", p[1]], ["te"]]
    elif tag == "be":
        closing = [["ee", p[1]], ["te"]]
    elif tag == "ee":
        closing = [["te"]]
    else:
        closing = []
    return pre + closing, True


# ------------------------------------------------------------------ building the real objects
def make_state(kind, rng):
    n, h = 2, rng.choice([1, 2])
    if kind == "pos":
        return qc.make_positive(n, h, qc.rand_rbm_params(rng, n, h, 0.5))
    if kind == "cplx":
        return qc.make_complex(n, h, qc.rand_rbm_params(rng, n, h, 0.5), qc.rand_rbm_params(rng, n, h, 0.5))
    return qc.make_density(n, h, 1, qc.rand_prbm_params(rng, n, h, 1, 0.5), qc.rand_prbm_params(rng, n, h, 1, 0.5))


def param_hash(st):
    m = hashlib.sha1()
    for net in st.networks:
        for p in getattr(st, net).parameters():
            m.update(p.detach().cpu().numpy().tobytes())
    return m.hexdigest()


class _Recorder:
    """shared log + injection plan of one run"""

    def __init__(self, inject_cb, inject_mid_ordinals):
        self.log = []
        self.inject_cb = {(i, tuple(ev)) for i, ev in inject_cb}
        self.inject_mid = set(inject_mid_ordinals)
        self.hashes = {}
        self.opt_steps = 0
        self.sched_steps = 0

    def version(self, st):
        h = param_hash(st)
        return self.hashes.setdefault(h, len(self.hashes))

    def handle(self, ident, st, ev):
        self.log.append(["call", ident, ev, bool(st.stop_training), self.version(st)])
        if (ident, tuple(ev)) in self.inject_cb:
            st.stop_training = True


class _Holder:
    """callback objects live for the whole session; `rec` is the recorder of the call in progress"""

    rec = None

    def handle(self, ident, st, ev):
        self.rec.handle(ident, st, ev)


def make_callback(rec, ident, as_lambda):
    from qucumber.callbacks import CallbackBase, LambdaCallback

    if as_lambda:
        return LambdaCallback(
            on_train_start=lambda s: rec.handle(ident, s, ["ts"]),
            on_train_end=lambda s: rec.handle(ident, s, ["te"]),
            on_epoch_start=lambda s, e: rec.handle(ident, s, ["es", int(e)]),
            on_epoch_end=lambda s, e: rec.handle(ident, s, ["ee", int(e)]),
            on_batch_start=lambda s, e, b: rec.handle(ident, s, ["bs", int(e), int(b)]),
            on_batch_end=lambda s, e, b: rec.handle(ident, s, ["be", int(e), int(b)]),
        )

    class Rec(CallbackBase):
        def on_train_start(self, nn_state):
            rec.handle(ident, nn_state, ["ts"])

        def on_train_end(self, nn_state):
            rec.handle(ident, nn_state, ["te"])

        def on_epoch_start(self, nn_state, epoch):
            rec.handle(ident, nn_state, ["es", int(epoch)])

        def on_epoch_end(self, nn_state, epoch):
            rec.handle(ident, nn_state, ["ee", int(epoch)])

        def on_batch_start(self, nn_state, epoch, batch):
            rec.handle(ident, nn_state, ["bs", int(epoch), int(batch)])

        def on_batch_end(self, nn_state, epoch, batch):
            rec.handle(ident, nn_state, ["be", int(epoch), int(batch)])

    return Rec()


def make_optimizer_class(rec, st):
    class RecSGD(torch.optim.SGD):
        def step(self, closure=None):
            k = rec.opt_steps
            rec.opt_steps += 1
            rec.log.append(["opt"])
            r = super().step(closure)
            if k in rec.inject_mid:
                st.stop_training = True
            return r

    return RecSGD


def make_scheduler_class(rec):
    class CountingScheduler:
        def __init__(self, optimizer, **kw):
            self.optimizer = optimizer
            self.kw = kw

        def step(self):
            rec.sched_steps += 1
            rec.log.append(["sched"])

    return CountingScheduler


TIMER_RE = [
    (re.compile(r"^Training terminated at epoch: (-?\d+), batch: (\d+)$"), lambda m: ["tb", int(m.group(1)), int(m.group(2))]),
    (re.compile(r"^Training terminated at epoch: (-?\d+)$"), lambda m: ["tep", int(m.group(1))]),
    (re.compile(r"^Total time elapsed during training:\s*[-\d.]+ s$"), lambda m: ["total"]),
]


def parse_prints(text):
    out = []
    for line in text.splitlines():
        line = line.strip()
        if not line:
            continue
        for rx, f in TIMER_RE:
            m = rx.match(line)
            if m:
                out.append(f(m))
                break
        else:
            out.append(["other", line[:80]])
    return out


def make_container(cb_list, form):
    """the `callbacks=` argument in the given container form"""
    from qucumber.callbacks import CallbackList

    if form == "none":
        assert not cb_list
        return None
    if form == "tuple":
        return tuple(cb_list)
    if form == "cblist":
        return CallbackList(cb_list)
    if form == "iter":
        return iter(list(cb_list))
    return list(cb_list)


def make_data(kind, N, rng):
    n = 2
    data = [[rng.randint(0, 1) for _ in range(n)] for _ in range(N)]
    bases = None
    if kind != "pos":
        bases = [[rng.choice("XYZ") for _ in range(n)] for _ in range(N)]
        bases[rng.randrange(N)] = ["Z"] * n  # at least one reference-basis row (randint needs a non-empty range)
    return data, bases


# ------------------------------------------------------------------ one case
def strip_model_log(mlog):
    out = []
    for en in mlog:
        t = en[0]
        if t == "call":
            out.append(["call", en[1], en[2], en[3], en[4]])
        elif t in ("opt", "sched", "shuffle"):
            out.append([t])
    return out


def as_session(case):
    """old single-call cases (corpus, earlier replays) are sessions of one call"""
    if "runs" in case:
        return case
    run = {k: case[k] for k in ("start", "epochs", "N", "B", "cbs", "time", "sched", "inject_cb", "inject_mid")}
    run.update(neg=None, form="tensor_f64", cb_form=("list" if case["cbs"] else "none"), pre=(True if case["stop0"] else None))
    return {"kind": case["kind"], "lambda": case["lambda"], "runs": [run], "dseed": case["dseed"]}


def one_case(ctx, case):
    import random

    case = as_session(case)
    ctx.current_case = case
    kind, lam, runs = case["kind"], case["lambda"], case["runs"]
    rng = random.Random(case["dseed"])
    st = make_state(kind, rng)
    torch.manual_seed(case["dseed"])
    hold = _Holder()
    objs = {}
    for run in runs:
        for i in run["cbs"]:
            if i not in objs:
                objs[i] = make_callback(hold, i, lam[i % len(lam)] if lam else True)
    model = None
    if ctx.driver is not None:
        model = ctx.driver.call("c12.session", stop0=False, runs=[
            {"pre": r["pre"], "start": r["start"], "epochs": r["epochs"], "N": r["N"], "posB": r["B"], "negB": r["neg"],
             "hasBases": kind != "pos", "callbacks": {"form": r["cb_form"], "items": r["cbs"]}, "timer": r["time"],
             "hasSched": r["sched"], "req_cb": [[i, ev] for i, ev in r["inject_cb"]],
             "req_mid": [[e, b] for e, b in r["inject_mid"]]} for r in runs])
    sess = {"stop": False, "container": None, "container_key": None, "nontriv": False, "sample": None}
    ctx.count(f"calls_per_session={len(runs)}")
    for r_idx, run in enumerate(runs):
        m = None
        if model is not None:
            m = model["runs"][r_idx] if "runs" in model else {"error": model.get("error")}
        one_call(ctx, {**case, "run": r_idx}, kind, st, rng, hold, objs, run, r_idx, sess, m)
    ctx.case({k: case[k] for k in case if k != "dseed"}, nontrivial=sess["nontriv"], sample=sess["sample"])


def one_call(ctx, case, kind, st, rng, hold, objs, run, r_idx, sess, m):
    start, epochs, N, B, neg = run["start"], run["epochs"], run["N"], run["B"], run["neg"]
    cbs, timer, sched, pre = run["cbs"], run["time"], run["sched"], run["pre"]
    inj_cb, inj_mid = run["inject_cb"], run["inject_mid"]
    nb = -(-N // B)
    data, bases = make_data(kind, N, rng)
    ordinal = lambda e, b: (e - start) * nb + b  # noqa: E731
    rec = _Recorder(inj_cb, [ordinal(e, b) for e, b in inj_mid])
    hold.rec = rec
    cb_list = [objs[i] for i in cbs]
    key = (run["cb_form"], tuple(cbs))
    if run.get("cb_same") and sess["container"] is not None and sess["container_key"] == key and run["cb_form"] != "iter":
        cb_arg = sess["container"]  # the caller passes the very same container object again
        ctx.count("same_container_object_again")
    else:
        cb_arg = make_container(cb_list, run["cb_form"])
    sess["container"], sess["container_key"] = cb_arg, key
    if pre is not None:
        st.stop_training = pre
    # refused stop requests (non-bool values raise ValueError) must leave the flag exactly as it was
    if run.get("bad_stop", True):
        before_flag = st._stop_training if hasattr(st, "_stop_training") else st.stop_training
        refused_ok = True
        for bad in (1, 0, "yes", None, np.True_, np.False_, [True]):
            try:
                st.stop_training = bad
                refused_ok = False
            except ValueError:
                pass
            refused_ok = refused_ok and (st.stop_training is before_flag or st.stop_training == before_flag and isinstance(st.stop_training, bool))
        ctx.oracle("a refused stop request (non-bool) raises ValueError and leaves the flag unchanged", bool(refused_ok), ctx.current_case,
                   detail={"flag_before": bool(before_flag), "flag_after": repr(st.stop_training)}, sig=f"{kind}/refused-stop-request",
                   theorem="C12_sticky / C12_stopped_run_is_noop (the flag is only changed by a valid request)")
    stop0 = (sess["stop"] if pre is None else pre)  # expected flag at entry: left by the previous call unless reassigned
    flag_at_entry = bool(st.stop_training)
    h_before = param_hash(st)
    rec.hashes[h_before] = 0
    data_obj = container(data, run["form"])
    bases_a = np.array(bases) if bases is not None else None
    orig_randperm = torch.randperm

    def rp(*a, **k):
        rec.log.append(["shuffle"])
        return orig_randperm(*a, **k)

    buf = io.StringIO()
    err = None
    torch.randperm = rp
    try:
        with contextlib.redirect_stdout(buf):
            st.fit(data_obj, epochs=epochs, pos_batch_size=B, neg_batch_size=neg, k=1, lr=0.1, input_bases=bases_a, progbar=False,
                   starting_epoch=start, time=timer, callbacks=cb_arg,
                   optimizer=make_optimizer_class(rec, st), optimizer_args={"weight_decay": 0.05},
                   scheduler=(make_scheduler_class(rec) if sched else None))
    except Exception as e:  # fit is not expected to raise on these inputs
        err = f"{type(e).__name__}: {e}"
    finally:
        torch.randperm = orig_randperm
    prints = parse_prints(buf.getvalue())
    final = {"stop": bool(st.stop_training), "ver": rec.opt_steps, "sched": rec.sched_steps}
    h_after = param_hash(st)
    if run["cb_form"] in ("list", "tuple", "cblist"):  # frame: the caller's container still holds exactly the callbacks it listed
        ident_of = {id(o): i for i, o in objs.items()}
        after_items = [ident_of.get(id(o), f"foreign:{type(o).__name__}") for o in cb_arg]
        ctx.point("caller's callbacks container after the call", "aux", after_items, cbs, case, exact=True, sig=f"{kind}/fit/callbacks-container-frame")
    L = len(cbs)
    calls = [en for en in rec.log if en[0] == "call"]
    groups = [calls[k:k + L] for k in range(0, len(calls), L)] if L else []
    impl_events = [g[0][2] for g in groups] if L else None

    sig = f"{kind}/fit"
    exp_events, exp_stop = ref_events(
        start, epochs, nb, stop0,
        lambda p: (p[0] == "mid" and [p[1], p[2]] in inj_mid) or (p[0] != "mid" and any(i in cbs and ev == p for i, ev in inj_cb)))
    sess["stop"] = exp_stop
    begun = sum(1 for ev in exp_events if ev[0] == "es")
    if begun >= 1 and (bool(inj_cb) or bool(inj_mid) or nb >= 2 or L >= 2):
        sess["nontriv"] = True
    if sess["sample"] is None:
        sess["sample"] = {"kind": kind, "calls": len(case["runs"]), "start": start, "epochs": epochs, "N": N, "B": B, "neg": neg,
                          "nb": nb, "cbs": cbs, "cb_form": run["cb_form"], "inject_cb": inj_cb, "inject_mid": inj_mid,
                          "events": len(exp_events)}
    negkey = ("None" if neg is None else "0" if neg == 0 else "<B" if neg < B else "=B" if neg == B else
              ">B,same#batches" if -(-N // neg) == nb else ">B,fewer")
    for key in (f"kind={kind}", f"epochs-start={epochs - start}", f"batches={nb}", f"callbacks={L}", f"time={timer}",
                f"sched={sched}", f"stop0={stop0}", f"neg={negkey}", f"cb_form={run['cb_form']}", f"form={run['form']}",
                f"call#{r_idx}:pre={pre}", f"N%B={'0' if N % B == 0 else 'r'}"):
        ctx.count(key)
    if inj_cb:
        ctx.count(f"inject_at={inj_cb[0][1][0]}")
    if run.get("periodic"):
        ctx.count(f"periodic_requests(p={run['periodic']})" + (",start>1" if start > 1 else ""))
    if r_idx and pre is None and stop0:
        ctx.count("call_after_a_call_that_ended_stopped(no reset)")
    if inj_mid:
        ctx.count("inject_at=mid")
    if not inj_cb and not inj_mid:
        ctx.count("inject_at=none")

    # ---------------- oracles on the implementation (independent of the model)
    ctx.oracle("fit raised", err is None, case, detail=err, sig=f"{sig}/exception", theorem="C12_protocol")
    ctx.oracle("flag at entry == flag left by the previous call (or the caller's assignment)", flag_at_entry == stop0, case,
               detail={"impl": flag_at_entry, "expected": stop0}, sig=f"{sig}/flag-at-entry", theorem="C12_sticky, C12_session_stopped")
    if L:
        ok_disp = (len(calls) % L == 0 and all([c[1] for c in g] == cbs and all(c[2] == g[0][2] for c in g) for g in groups))
        ctx.oracle("dispatch: every event reaches all callbacks in list order", ok_disp, case,
                   detail={"calls": [[c[1], c[2]] for c in calls[:60]]}, sig=f"{sig}/dispatch-order",
                   theorem="C12_dispatch_order, C12_callbacks_container")
        ctx.oracle("event trace == protocol reference", impl_events == exp_events, case,
                   detail={"impl": impl_events, "expected": exp_events}, sig=f"{sig}/protocol",
                   theorem="C12_protocol, C12_complete_without_stop, C12_stop_*, C12_batches_per_epoch")
        # parameter window: version changes by exactly one from a batch-start to its batch-end, never elsewhere
        ok_win = True
        prev = None
        for g in groups:
            vs = {c[4] for c in g}
            if len(vs) != 1:
                ok_win = False
            v = g[0][4]
            if prev is not None:
                pev, pv = prev
                want = pv + 1 if pev[0] == "bs" else pv
                if v != want or (pev[0] == "bs" and g[0][2] != ["be", pev[1], pev[2]]):
                    ok_win = False
            elif v != 0:
                ok_win = False
            prev = (g[0][2], v)
        ctx.oracle("parameters change exactly once per batch window and nowhere else", ok_win, case,
                   detail={"versions": [[g[0][2], g[0][4]] for g in groups]}, sig=f"{sig}/param-window", theorem="C12_param_window")
        # seen flags: OR of the requests made so far
        run_flag = stop0
        ok_seen = True
        k_opt = 0
        for en in rec.log:
            if en[0] == "call":
                if en[3] != run_flag:
                    ok_seen = False
                if any(i == en[1] and ev == en[2] for i, ev in inj_cb):
                    run_flag = True
            elif en[0] == "opt":
                if k_opt in rec.inject_mid:
                    run_flag = True
                k_opt += 1
        ctx.oracle("flag seen by handlers == OR of requests so far (sticky)", ok_seen and final["stop"] == run_flag, case,
                   sig=f"{sig}/sticky", theorem="C12_sticky")
    ctx.oracle("final flag", final["stop"] == exp_stop, case, detail={"impl": final["stop"], "expected": exp_stop},
               sig=f"{sig}/final-flag", theorem="C12_sticky")
    n_bs = sum(1 for ev in exp_events if ev[0] == "bs")
    ctx.oracle("one optimizer step per batch begun", final["ver"] == n_bs, case, detail={"steps": final["ver"], "batches": n_bs},
               sig=f"{sig}/opt-count", theorem="C12_param_window, C12_batches_per_epoch")
    ctx.oracle("one scheduler step per epoch begun", final["sched"] == (begun if sched else 0), case,
               detail={"steps": final["sched"], "epochs_begun": begun}, sig=f"{sig}/sched-count", theorem="C12_scheduler_once_per_epoch")
    # batches per epoch: every epoch that is not cut short by a stop has ceil(N / pos_batch_size) optimizer steps
    per_epoch = []
    for en in rec.log:
        if en[0] == "shuffle":
            per_epoch.append(0)
        elif en[0] == "opt" and per_epoch:
            per_epoch[-1] += 1
    full = per_epoch[:-1] if exp_stop and not stop0 else per_epoch
    ctx.oracle("every uninterrupted epoch has ceil(N / pos_batch_size) batches", all(x == nb for x in full) and len(per_epoch) == begun,
               case, detail={"per_epoch": per_epoch, "expected": nb}, sig=f"{sig}/batches-per-epoch", theorem="C12_batches_per_epoch")
    # scheduler position: after the last optimizer step of the epoch and before the epoch-end calls
    if sched and L:
        ok_pos = True
        for k, en in enumerate(rec.log):
            if en[0] == "sched":
                before = rec.log[k - 1] if k else None
                after = rec.log[k + 1] if k + 1 < len(rec.log) else None
                if not (before and before[0] == "call" and before[2][0] == "be" and after and after[0] == "call" and after[2][0] == "ee"
                        and after[2][1] == before[2][1]):
                    ok_pos = False
        ctx.oracle("scheduler step sits between the last batch-end and the epoch-end", ok_pos, case,
                   sig=f"{sig}/sched-position", theorem="C12_scheduler_once_per_epoch")
    if stop0:
        ctx.oracle("stopped run is a no-op", rec.log == [] and prints == [] and h_after == h_before and final["stop"], case,
                   detail={"log": rec.log[:10], "prints": prints}, sig=f"{sig}/noop", theorem="C12_stopped_run_is_noop, C12_session_stopped")
    if timer and not stop0:
        first_set = None
        if L:
            run_flag, k_opt, in_group = False, 0, 0
            for en in rec.log:
                if en[0] == "opt":
                    if k_opt in rec.inject_mid:
                        run_flag = True
                    k_opt += 1
                elif en[0] == "call":
                    if any(i == en[1] and ev == en[2] for i, ev in inj_cb):
                        run_flag = True
                    in_group += 1
                    if in_group == L:  # the Timer runs after the last user callback of this dispatch
                        in_group = 0
                        if run_flag and first_set is None and en[2][0] in ("be", "ee"):
                            first_set = en[2]
            want = ([["tb", first_set[1], first_set[2]]] if first_set and first_set[0] == "be" else
                    [["tep", first_set[1]]] if first_set else []) + [["total"]]
            ctx.oracle("Timer lines", prints == want, case, detail={"impl": prints, "expected": want}, sig=f"{sig}/timer-oracle")
        else:
            ctx.oracle("Timer prints total", prints[-1:] == [["total"]], case, detail={"impl": prints}, sig=f"{sig}/timer-oracle")
    if not timer:
        ctx.oracle("no Timer output without time=True", prints == [], case, detail={"impl": prints}, sig=f"{sig}/timer-oracle")

    # ---------------- correspondence with the model (QV.Train.session; this call's entry)
    if m is not None:
        if "error" in m:
            ctx.point("model error on a call the implementation completed", "property", err, m["error"], case, exact=True, sig=f"{sig}/events")
            return
        if L:
            ctx.point("events", "property", impl_events, m["events"], case, exact=True, sig=f"{sig}/events",
                      theorem="C12_protocol, C12_complete_without_stop, C12_stop_in_batch/at_epoch_end/at_epoch_start/at_train_start, C12_fit_args")
            ctx.point("calls", "property", [[c[1], c[2]] for c in calls], m["calls"], case, exact=True, sig=f"{sig}/calls",
                      theorem="C12_dispatch_order, C12_callbacks_container")
        ctx.point("log", "property", rec.log, strip_model_log(m["log"]), case, exact=True, sig=f"{sig}/log",
                  theorem="C12_param_window, C12_sticky, C12_scheduler_once_per_epoch, C12_batches_per_epoch")
        ctx.point("final", "property", final, {"stop": m["stop"], "ver": m["ver"], "sched": m["sched"]}, case, exact=True,
                  sig=f"{sig}/final", theorem="C12_sticky, C12_param_window, C12_scheduler_once_per_epoch, C12_stopped_run_is_noop, C12_session_stopped")
        if full:
            ctx.point("batches per uninterrupted epoch", "property", sorted(set(full)), [m["batchesPerEpoch"]], case, exact=True,
                      sig=f"{sig}/batches-per-epoch", theorem="C12_batches_per_epoch")
        ctx.point("callbacks reached", "property", sorted({c[1] for c in calls}) if exp_events else [], sorted(set(m["cbs"])) if exp_events else [],
                  case, exact=True, sig=f"{sig}/callbacks-reached", theorem="C12_callbacks_container")
        ctx.point("timer_prints", "aux", prints, m["prints"], case, exact=True, sig=f"{sig}/timer")


# ------------------------------------------------------------------ generation
def base_configs(ctx, thorough):
    rng = ctx.rng
    out = []
    starts = [1, 0, -2, 3, 7]
    for d in range(-2, 4):
        for (N, B) in NB_CHOICES:
            start = rng.choice(starts)
            out.append((start, start + d, N, B))
    return out


def cb_lists(rng):
    return rng.choice([[0], [0, 1], [0, 1, 2], [1, 0], [2, 0, 1], [0, 1, 0], [0], [0, 1]])


def neg_choice(rng, N, B):
    """neg_batch_size: None / 0 (falsy) / smaller / equal / larger than pos_batch_size (incl. >= N: a single negative slice)"""
    mode = rng.choice(["none", "none", "zero", "lt", "eq", "gt", "gt", "big", "big"])
    if mode == "none":
        return None
    if mode == "zero":
        return 0
    if mode == "lt":
        return rng.randint(1, B - 1) if B > 1 else None
    if mode == "eq":
        return B
    if mode == "gt":
        return B + rng.randint(1, max(1, B))
    return max(B + 1, N + rng.randint(0, 3))


def cb_form_choice(rng, cbs):
    return rng.choice(CB_FORMS if cbs else ("none", "none") + CB_FORMS)


def periodic(start, epochs, nb, cbs, rng):
    """a callback that asks for a stop at every p-th epoch end (as EarlyStopping-like callbacks with a period do) or at every
    p-th batch end; only the first request inside the run matters"""
    p = rng.choice([2, 3])
    i = rng.choice(cbs)
    if rng.random() < 0.6 or nb < 2:
        return [[i, ["ee", e]] for e in range(start, epochs + 1) if e % p == 0], p
    return [[i, ["be", e, b]] for e in range(start, epochs + 1) for b in range(nb) if (b + 1) % p == 0], p


def injections(start, epochs, nb, cbs, rng, thorough, quota):
    """list of (inject_cb, inject_mid, stop0[, period])"""
    pts = ref_points(start, epochs, nb)
    out = [([], [], False), ([], [], True)]
    if not cbs:
        cand = [p for p in pts if p[0] == "mid"]
    else:
        cand = pts
    if not thorough:
        cand = rng.sample(cand, min(quota, len(cand)))
    for p in cand:
        if p[0] == "mid":
            out.append(([], [[p[1], p[2]]], False))
        else:
            out.append(([[rng.choice(cbs), p]], [], False))
    # double requests: only the first matters; a request by a callback that is not in the list is never made
    if len(pts) >= 4:
        a, b = sorted(rng.sample(range(len(pts)), 2))
        pa, pb = pts[a], pts[b]
        icb = [[rng.choice(cbs), q] for q in (pa, pb) if q[0] != "mid" and cbs]
        imid = [[q[1], q[2]] for q in (pa, pb) if q[0] == "mid"]
        out.append((icb, imid, False))
        if cbs and pb[0] != "mid":
            out.append(([[99, pa if pa[0] != "mid" else pb], [rng.choice(cbs), pb]], [], False))
    if cbs and epochs >= start:
        icb, p = periodic(start, epochs, nb, cbs, rng)
        out.append((icb, [], False, p))
    return out


def make_run(rng, start, epochs, N, B, cbs, timer, sched, icb, imid, pre):
    return {"start": start, "epochs": epochs, "N": N, "B": B, "neg": neg_choice(rng, N, B), "form": rng.choice(DATA_FORMS),
            "cbs": cbs, "cb_form": cb_form_choice(rng, cbs), "time": timer, "sched": sched, "pre": pre,
            "inject_cb": icb, "inject_mid": imid}


def gen_session(rng):
    """2..3 consecutive calls on one object; each call has its own sizes / callbacks / options; the caller sometimes clears or sets
    the flag in between, sometimes passes the same callbacks container again"""
    runs = []
    for r in range(rng.choice([2, 2, 3])):
        N, B = rng.choice(NB_CHOICES)
        nb = -(-N // B)
        start = rng.choice([1, 1, 0, -2, 3, 7])
        epochs = start + rng.choice([-1, 0, 0, 1, 1, 2])
        if r and rng.random() < 0.5:
            cbs = list(runs[-1]["cbs"])
        else:
            cbs = cb_lists(rng) if rng.random() < 0.85 else []
        pts = ref_points(start, epochs, nb)
        icb, imid, per = [], [], None
        u = rng.random()
        cand = [p for p in pts if (cbs or p[0] == "mid")]
        if u < 0.45 and cand:
            p = rng.choice(cand)
            if p[0] == "mid":
                imid = [[p[1], p[2]]]
            else:
                icb = [[rng.choice(cbs), p]]
        elif u < 0.55 and cbs and epochs >= start:
            icb, per = periodic(start, epochs, nb, cbs, rng)
        pre = rng.choice([None, None, None, False, False, True]) if r else rng.choice([None, None, None, None, False, True])
        run = make_run(rng, start, epochs, N, B, cbs, rng.random() < 0.6, rng.random() < 0.5, icb, imid, pre)
        if per:
            run["periodic"] = per
        if r and cbs == runs[-1]["cbs"] and rng.random() < 0.7:
            run["cb_form"] = runs[-1]["cb_form"]
            run["cb_same"] = True
        runs.append(run)
    return runs


def gen_cases(ctx, thorough):
    rng = ctx.rng
    for (start, epochs, N, B) in base_configs(ctx, thorough):
        nb = -(-N // B)
        kinds = list(KINDS) if thorough else ["pos", rng.choice(["cplx", "dens"])]
        for kind in kinds:
            variants = (6 if kind == "pos" else 2) if thorough else 1
            for v in range(variants):
                cbs = cb_lists(rng) if (rng.random() < 0.9 and v != 5) else []
                lam = [rng.random() < 0.5 for _ in range(3)]
                timer = (v % 2 == 0) if thorough else rng.random() < 0.5
                sched = rng.random() < 0.6
                quota = 4 if kind == "pos" else 2
                for (icb, imid, stop0, *per) in injections(start, epochs, nb, cbs, rng, thorough, quota):
                    run = make_run(rng, start, epochs, N, B, cbs, timer, sched, icb, imid, True if stop0 else None)
                    if per:
                        run["periodic"] = per[0]
                    yield {"kind": kind, "lambda": lam, "dseed": rng.randrange(1 << 30), "runs": [run]}
    for i in range(1500 if thorough else 150):
        yield {"kind": KINDS[i % 3] if i % 2 else "pos", "lambda": [rng.random() < 0.5 for _ in range(3)],
               "dseed": rng.randrange(1 << 30), "runs": gen_session(rng)}


def run(ctx):
    ctx.rule = RULE
    for case in gen_cases(ctx, ctx.tier == "thorough"):
        one_case(ctx, case)


def search(ctx):
    drv, ctx.driver = ctx.driver, None
    try:
        for case in gen_cases(ctx, True):
            one_case(ctx, case)
            if len(ctx.prop_mismatch) >= 3:
                break
    finally:
        ctx.driver = drv


def replay(ctx, case):
    one_case(ctx, {k: v for k, v in case.items() if k != "run"})
