"""C09 — correspondence of the SWAP model (QV.Model.Observables: swapRun / swapApply / roll1 / normRegion) with
qucumber.observables.SWAP, plus the property oracle evaluated on the implementation:
Σ_{s1,s2} p(s1) p(s2) SWAP_A(s1,s2) = tr(ρ̂_A²) with ρ̂_A an explicit numpy partial trace of the implementation's
psi / rho, Rényi-2 non-negativity, A <-> complement symmetry and trivial regions for pure states, the cyclic pairing
rule and no mutation of the batch."""
import itertools

import numpy as np

from . import qc
from .c08 import build_state, rho_hat, state_req
from .common import unbits
from .qc import torch

FILES = [
    "qucumber/observables/entanglement.py",
    "qucumber/nn_states/neural_state.py",
    "qucumber/nn_states/wavefunction.py",
    "qucumber/nn_states/density_matrix.py",
    "qucumber/utils/cplx.py",
]
REQUIRED_THEOREMS = [
    "C09_purity", "C09_purity_pure", "C09_purity_mixed", "C09_purity_real_pos", "C09_purity_le_one", "C09_renyi_nonneg",
    "C09_pure_is_state", "C09_pure_symmetric", "C09_pure_trivial", "C09_pairing", "C09_no_mutation", "C09_region",
]
THEOREMS = {
    "apply": "C09_purity (+ C09_no_mutation: run = per-pair value on (samples[i], samples[(i-1) mod B]); C09_region)",
    "after": "C09_no_mutation",
    "pairing": "C09_pairing",
    "nonneg": "C09_renyi_nonneg / C09_purity_le_one",
    "sym": "C09_pure_symmetric",
    "trivial": "C09_pure_trivial",
}
RULE = ("case = (state kind pos/cplx/dens, n<=3 quick / <=4 thorough, h, [a], scale in {0.3,1,2}, parameters all non-zero, region A, "
        "argument form, batch); for every subset A of sites: all two-row batches over unordered pairs of basis states (each gives both "
        "ordered pairs) with A as a list, one Eulerian batch of length 4^n whose cyclic neighbours cover every ordered pair once, and "
        "random batches (size 1..9, repeated rows) with A as int (singletons) / list / numpy array / torch tensor; plus a malformed "
        "stream (negative, repeated, out-of-range indices); non-trivial iff n >= 2, A proper non-empty, parameters non-zero; "
        "distinct by hash of (state, region, form, batch)")


def region_forms(A, rng):
    """the argument forms the library documents: int (singletons only), list, np.array, torch.Tensor"""
    forms = [("list", list(A)), ("array", np.array(list(A), dtype=np.int64)), ("tensor", torch.tensor(list(A), dtype=torch.long))]
    if len(A) == 1:
        forms.append(("int", int(A[0])))
    return forms


def region_as_list(form, A):
    """glue: what index list the argument denotes (ints, possibly negative / repeated), for the model's normRegion"""
    if form == "int":
        return [int(A)]
    if form == "list":
        return [int(k) for k in A]
    return [int(k) for k in (A.tolist())]


def mk_region(form, lst):
    if form == "int":
        return int(lst[0])
    if form == "list":
        return list(lst)
    if form == "array":
        return np.array(list(lst), dtype=np.int64)
    return torch.tensor(list(lst), dtype=torch.long)


def euler_sequence(N):
    """cyclic sequence of length N*N over range(N) in which every ordered pair (x, y) occurs exactly once as
    (seq[i-1], seq[i]) (Hierholzer on the complete digraph with loops)"""
    nxt = {x: list(range(N)) for x in range(N)}
    stack, out = [0], []
    while stack:
        x = stack[-1]
        if nxt[x]:
            stack.append(nxt[x].pop())
        else:
            out.append(stack.pop())
    out.reverse()
    return out[:-1]  # closed walk: drop the repeated start


def purity_np(R, n, A):
    """tr(rho_A^2) with rho_A the partial trace of R over the complement of A — explicit loops"""
    Aset = sorted(set(A))
    comp = [j for j in range(n) if j not in Aset]

    def idx(bits_by_site):
        return sum(bits_by_site[j] << (n - 1 - j) for j in range(n))

    ka, kc = len(Aset), len(comp)
    rA = np.zeros((2 ** ka, 2 ** ka), dtype=complex)
    for ia, a in enumerate(itertools.product([0, 1], repeat=ka)):
        for ib, b in enumerate(itertools.product([0, 1], repeat=ka)):
            tot = 0j
            for g in itertools.product([0, 1], repeat=kc):
                s = {**dict(zip(Aset, a)), **dict(zip(comp, g))}
                t = {**dict(zip(Aset, b)), **dict(zip(comp, g))}
                tot += R[idx(s), idx(t)]
            rA[ia, ib] = tot
    return np.trace(rA @ rA)


def impl_swap(st, region, samples):
    from qucumber.observables import SWAP

    t = torch.tensor(samples, dtype=torch.double).reshape(len(samples), -1)
    before = t.numpy().tobytes()
    try:
        r = SWAP(region).apply(st, t)
        ok_shape = isinstance(r, torch.Tensor) and tuple(r.shape) == (len(samples),) and r.dtype == torch.float64
        vals = r.detach().numpy().astype(np.float64).ravel().tolist()
    except Exception as e:  # noqa: BLE001
        return {"error": type(e).__name__}, True, t.numpy().tobytes() == before, t.numpy().astype(int).tolist()
    return vals, ok_shape, t.numpy().tobytes() == before, t.numpy().astype(int).tolist()


def one_apply(ctx, st, base, form, region_list, samples, level="property", register=True):
    """one SWAP(A).apply on implementation + model; returns the implementation's values"""
    kind, n = base["kind"], base["n"]
    case = {**base, "form": form, "region": region_list, "samples": samples}
    region = mk_region(form, region_list)
    vals, ok_shape, unchanged, after = impl_swap(st, region, samples)
    if register:
        A = sorted({k % n for k in region_list if -n <= k < n}) if n else []
        nontriv = n >= 2 and 0 < len(A) < n
        ctx.case({"state": [base["am"], base["ph"]], "region": region_list, "form": form, "samples": samples}, nontrivial=nontriv,
                 sample={"kind": kind, "n": n, "region": region_list, "form": form, "batch": len(samples)})
        ctx.count(f"kind={kind}"); ctx.count(f"n={n}"); ctx.count(f"form={form}"); ctx.count(f"|A|={len(A)}")
        ctx.count(f"batch={'2' if len(samples) == 2 else ('euler' if len(samples) == 4 ** n and n > 0 else 'random')}")
    ctx.oracle("apply leaves the batch unchanged (bytes)", bool(unchanged), case, sig=f"{kind}/swap/no-mutation", theorem=THEOREMS["after"])
    if not isinstance(vals, dict):
        ctx.oracle("apply returns one float64 per sample", bool(ok_shape), case, sig=f"{kind}/swap/shape")
    if ctx.driver is not None:
        model = ctx.driver.call("c09.eval", samples=samples, region=region_list,
                                **state_req(kind, n, base["h"], base["a"], base["am"], base["ph"]))
        if isinstance(vals, dict) or "error" in model:
            ctx.point("SWAP.apply", level, vals if isinstance(vals, dict) else "values",
                      {"error": model["error"]} if "error" in model else "values", case, exact=True,
                      theorem=THEOREMS["apply"], sig=f"{kind}/swap/apply")
        else:
            m = unbits(model["vals"]) if len(samples) else np.zeros(0)
            ctx.point("SWAP.apply", level, vals, m, case, scale=max(1.0, float(np.max(np.abs(m))) if len(m) else 1.0),
                      theorem=THEOREMS["apply"], sig=f"{kind}/swap/apply")
            ctx.point("SWAP: batch after apply", "property", after, model["after"], case, exact=True, theorem=THEOREMS["after"],
                      sig=f"{kind}/swap/after")
            # pairing rule of the model vs torch.roll on row indices
            B = len(samples)
            ctx.point("torch.roll(arange(B), 1, 0)", "aux", torch.roll(torch.arange(B), 1, 0).tolist(), model["roll"], case, exact=True,
                      theorem=THEOREMS["pairing"], sig="swap/roll")
    return vals


def one_state(ctx, kind, n, h, a, scale, am, ph, thorough):
    base = {"kind": kind, "n": n, "h": h, "a": a, "scale": scale, "am": am, "ph": ph}
    st = build_state(kind, n, h, a, am, ph)
    rng = ctx.rng
    states = qc.all_states(n)
    N = len(states)
    space_t = torch.tensor(states, dtype=torch.double)
    Z = float(st.normalization(space_t))
    p = st.probability(space_t, Z).detach().numpy()
    R = rho_hat(st, kind, n)
    est = {}
    subsets = [list(c) for k in range(n + 1) for c in itertools.combinations(range(n), k)]
    eul = [states[k] for k in euler_sequence(N)]
    eul_idx = euler_sequence(N)
    for A in subsets:
        # --- all ordered pairs through two-row batches (A as list): row 0 = (s_x, s_y), row 1 = (s_y, s_x)
        tot, bad = 0.0, False
        for x in range(N):
            for y in range(x, N):
                vals = one_apply(ctx, st, base, "list", A, [states[x], states[y]])
                if isinstance(vals, dict):
                    bad = True
                    continue
                tot += p[x] * p[y] * vals[0]
                if y != x:
                    tot += p[y] * p[x] * vals[1]
        case = {**base, "form": "list", "region": A, "samples": [states[0], states[N - 1]]}
        exact = purity_np(R, n, A)
        tol = 1e-8 * (1.0 + abs(exact))
        ctx.oracle("sum_{s1,s2} p(s1)p(s2) SWAP_A(s1,s2) == tr(rho_A^2) (explicit partial trace)",
                   (not bad) and abs(tot - exact.real) <= tol and abs(exact.imag) <= 1e-8, case,
                   detail={"estimator_average": tot, "purity_re": float(exact.real), "purity_im": float(exact.imag), "raised": bad},
                   sig=f"{kind}/swap/purity", theorem="C09_purity")
        ctx.oracle("Renyi-2 entropy non-negative: estimator average <= 1 and > 0", (not bad) and 0.0 < tot <= 1.0 + 1e-8, case,
                   detail={"estimator_average": tot}, sig=f"{kind}/swap/nonneg", theorem=THEOREMS["nonneg"])
        est[tuple(A)] = tot
        # --- one long batch whose cyclic neighbours cover every ordered pair once: tests pairing + estimator together
        vals = one_apply(ctx, st, base, "list", A, eul)
        if not isinstance(vals, dict):
            tot2 = sum(p[eul_idx[i]] * p[eul_idx[i - 1]] * vals[i] for i in range(len(eul)))
            ctx.oracle("Eulerian batch: sum_i p(s_i)p(s_{i-1}) apply_i == tr(rho_A^2)", abs(tot2 - exact.real) <= tol,
                       {**base, "form": "list", "region": A, "samples": eul},
                       detail={"estimator_average": tot2, "purity_re": float(exact.real)}, sig=f"{kind}/swap/pairing-purity",
                       theorem="C09_purity + C09_pairing")
        # --- every argument form on a random batch with repeats; all forms agree; pairing rule on the implementation
        B = rng.randrange(1, 10)
        pool = [rng.choice(states) for _ in range(max(1, B - 2))]
        batch = [list(rng.choice(pool)) for _ in range(B)]
        ref = None
        for form, _ in region_forms(A, rng):
            vals = one_apply(ctx, st, base, form, A, batch)
            if ref is None:
                ref = vals
            else:
                ctx.oracle("all region argument forms agree", vals == ref, {**base, "form": form, "region": A, "samples": batch},
                           sig=f"{kind}/swap/forms", theorem="C09_region")
        if not isinstance(ref, dict):
            ok = True
            for i in range(B):
                two = impl_swap(st, list(A), [batch[i], batch[i - 1]])[0]
                ok = ok and (not isinstance(two, dict)) and abs(two[0] - ref[i]) <= 1e-9 * (1 + abs(ref[i]))
            ctx.oracle("row i is paired with row (i-1) mod B", bool(ok), {**base, "form": "list", "region": A, "samples": batch},
                       sig=f"{kind}/swap/pairing", theorem=THEOREMS["pairing"])
    # --- pure states: region <-> complement, trivial regions
    case0 = {**base, "form": "list", "region": [], "samples": [states[0], states[N - 1]]}
    if kind != "dens":
        for A in subsets:
            comp = tuple(j for j in range(n) if j not in A)
            ctx.oracle("pure state: estimator average of A equals that of its complement",
                       abs(est[tuple(A)] - est[comp]) <= 1e-8 * (1 + abs(est[comp])), {**case0, "region": list(A)},
                       detail={"A": est[tuple(A)], "complement": est[comp]}, sig=f"{kind}/swap/symmetric", theorem=THEOREMS["sym"])
        for A in ([], list(range(n))):
            ctx.oracle("pure state: empty / full region has purity 1 (S2 = 0)", abs(est[tuple(A)] - 1.0) <= 1e-8, {**case0, "region": A},
                       detail={"estimator_average": est[tuple(A)]}, sig=f"{kind}/swap/trivial", theorem=THEOREMS["trivial"])
    else:
        ctx.oracle("mixed state: empty region has purity 1", abs(est[()] - 1.0) <= 1e-8, case0, detail={"estimator_average": est[()]},
                   sig="dens/swap/trivial", theorem="C09_empty_region")
    # --- malformed / unusual region arguments (auxiliary: outside the documented forms' normal use)
    batch = [list(rng.choice(states)) for _ in range(3)]
    for form, lst in [("list", [-1]), ("list", [0, 0]), ("list", [n]), ("int", [n]), ("int", [-1]), ("tensor", [-n]), ("array", [-n - 1]),
                      ("list", [0, -n])]:
        one_apply(ctx, st, base, form, lst, batch, level="aux")
        ctx.count("malformed_region")


def gen_states(ctx, thorough):
    rng = ctx.rng
    if thorough:
        archs = [(1, 2), (2, 1), (2, 3), (3, 2), (3, 4), (4, 2)]
    else:
        archs = [(1, 2), (2, 3), (3, 2)]
    scales = [0.3, 1.0, 2.0]
    for (n, h) in archs:
        for kind in ("pos", "cplx", "dens"):
            scale = rng.choice(scales)
            a = rng.choice([1, 2, 3]) if kind == "dens" else 0
            if kind == "dens":
                am = qc.rand_prbm_params(rng, n, h, a, scale)
                ph = qc.rand_prbm_params(rng, n, h, a, scale)
            else:
                am = qc.rand_rbm_params(rng, n, h, scale)
                ph = qc.rand_rbm_params(rng, n, h, scale) if kind == "cplx" else None
            yield kind, n, h, a, scale, am, ph


def run(ctx):
    ctx.rule = RULE
    thorough = ctx.tier == "thorough"
    for args in gen_states(ctx, thorough):
        one_state(ctx, *args, thorough)


def search(ctx):
    drv, ctx.driver = ctx.driver, None
    try:
        for args in gen_states(ctx, True):
            one_state(ctx, *args, True)
    finally:
        ctx.driver = drv


def replay(ctx, case):
    base = {k: case[k] for k in ("kind", "n", "h", "a", "scale", "am", "ph")}
    st = build_state(case["kind"], case["n"], case["h"], case["a"], case["am"], case["ph"])
    vals = one_apply(ctx, st, base, case["form"], case["region"], case["samples"])
    # re-evaluate the exact-average property for this region on the implementation
    n = case["n"]
    A = sorted({k % n for k in case["region"] if -n <= k < n}) if n else []
    if not isinstance(vals, dict) and all(-n <= k < n for k in case["region"]):
        states = qc.all_states(n)
        space_t = torch.tensor(states, dtype=torch.double)
        p = st.probability(space_t, float(st.normalization(space_t))).detach().numpy()
        R = rho_hat(st, case["kind"], n)
        tot = 0.0
        for x in range(len(states)):
            for y in range(len(states)):
                v = impl_swap(st, list(case["region"]), [states[x], states[y]])[0]
                tot += p[x] * p[y] * v[0]
        exact = purity_np(R, n, A)
        ctx.oracle("sum_{s1,s2} p(s1)p(s2) SWAP_A(s1,s2) == tr(rho_A^2) (explicit partial trace)",
                   abs(tot - exact.real) <= 1e-8 * (1 + abs(exact)), case,
                   detail={"estimator_average": tot, "purity_re": float(exact.real)}, sig=f"{case['kind']}/swap/purity", theorem="C09_purity")
