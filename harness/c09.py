"""C09 — correspondence of the SWAP model (QV.Model.Observables: swapRun / swapApply / roll1 / normRegion) with
qucumber.observables.SWAP, plus the property oracle evaluated on the implementation:
Σ_{s1,s2} p(s1) p(s2) SWAP_A(s1,s2) = tr(ρ̂_A²) with ρ̂_A an explicit numpy partial trace of the implementation's
psi / rho, Rényi-2 non-negativity, A <-> complement symmetry and trivial regions for pure states, the cyclic pairing
rule and no mutation of the batch."""
import itertools

import numpy as np

from . import argforms_a as af
from . import qc
from .c08 import SAMPLE_DTYPES, build_state, given_Z, one_real_per_sample, rho_hat, state_req
from .common import unbits
from .layouts import LAYOUTS, make_batch, outside_untouched, same_values
from .qc import torch

FILES = [
    "qucumber/observables/entanglement.py",
    "qucumber/nn_states/neural_state.py",
    "qucumber/nn_states/wavefunction.py",
    "qucumber/nn_states/density_matrix.py",
    "qucumber/utils/cplx.py",
]
REQUIRED_THEOREMS = [
    "C09_purity", "C09_purity_pure", "C09_purity_mixed", "C09_purity_real_pos", "C09_purity_le_one", "C09_renyi_nonneg",
    "C09_pure_is_state", "C09_pure_symmetric", "C09_pure_trivial", "C09_pairing", "C09_no_mutation", "C09_region",
    # audit round: the RBM density matrix is a state (C02) -> Renyi-2 >= 0 for mixed states
    "C09_mixed_is_state", "C09_purity_mixed_rbm", "C09_purity_pos_mixed_rbm", "C09_renyi_nonneg_mixed_rbm", "C09_empty_region",
    "C09_renyi_nonneg_pure_rbm", "C09_renyi_nonneg_pure_rbm_pos",   # second audit C09-A1: hypothesis-free instances for the RBM wavefunctions
    # extension round X3: the batch mean on B >= 2 i.i.d. rows is unbiased; a one-row batch is paired with itself (value 1, biased)
    "C09_batch_list_form", "C09_batch_mean_unbiased", "C09_single_row", "C09_single_row_mean", "C09_single_row_biased",
    "C09_statistics_unbiased_generic", "C09_statistics_unbiased",   # late theorems L4: SWAP through the statistics loop
]
THEOREMS = {
    "apply": "C09_purity (+ C09_no_mutation: run = per-pair value on (samples[i], samples[(i-1) mod B]); C09_region)",
    "after": "C09_no_mutation",
    "pairing": "C09_pairing",
    "nonneg": "C09_renyi_nonneg / C09_purity_le_one (pure: C09_pure_is_state, RBM instances C09_renyi_nonneg_pure_rbm / _pos; mixed: C09_renyi_nonneg_mixed_rbm under C02's guard NZ, "
              "C09_purity_pos_mixed_rbm without)",
    "sym": "C09_pure_symmetric",
    "trivial": "C09_pure_trivial",
}
RULE = ("case = (state kind pos/cplx/dens, n<=4 (quick: n = 1,2,3 with every region + one n = 4 state of each kind with the empty, the full, "
        "a random proper region and its complement; thorough: n = 4 with every region), h, [a], scale in {0.3,1,2}, parameters all non-zero, region A, "
        "argument form, batch); for every subset A of sites: all two-row batches over unordered pairs of basis states (each gives both "
        "ordered pairs) with A as a list, one Eulerian batch of length 4^n whose cyclic neighbours cover every ordered pair once, and "
        "random batches (size 1..9, repeated rows; contiguous / strided-view / transposed memory layout) and Eulerian batches with A in every "
        "accepted form: python int, numpy integer scalars, 0-d ndarray / tensor (singletons), list, tuple, 1-d int64/int32 ndarray / tensor, "
        "lists of numpy ints / 0-d tensors, range (arithmetic progressions), boolean masks; slices, tuples, ranges and lists of 0-d tensors are handed over too but are NOT among the forms the "
        "property lists (int/list/array/tensor): informational counters only, no verdict; call histories on one SWAP / state / "
        "tensor object; plus a malformed "
        "stream (negative, repeated, out-of-range indices: not subsets of the sites, outside the quantifier - applied, outcome counted, NO verdict of any level); "
        "the random batch of every region additionally in every other element type (f32, f16, i64, i32, i16, i8, u8, bool; pure states: must give the "
        "float64 values, one real per sample, batch unchanged; DensityMatrix refuses them: counted); non-trivial iff n >= 2, A proper non-empty, parameters non-zero; "
        "distinct by hash of (state, region, form, batch); "
        "argument forms (round 5): further integer forms of the region (np.intp / np.uint8 / np.int16 scalars, 0-d int32 ndarray / tensor, lists of np.int32 / "
        "np.intp / 0-d int32 tensors / mixed element types, tuples of numpy ints / 0-d tensors, intp / int16 / uint32 ndarrays, the empty range; a random "
        "selection per region in quick, all in thorough), SWAP(A) / SWAP(A=A); the state and RBM constructor sizes and `gpu` are drawn from the state's "
        "seeded stream `aseed` (harness/argforms_a.py: Python int, numpy integer scalars, 0-d numpy / torch integers; keyword and positional; oracle: "
        "constructed architecture == requested), the normalisation is handed to probability as tensor / float / np.float64 and `expand` of rho as a truthy "
        "flag object; a case without `aseed` replays with plain ints / bools by keyword. Left out (the clean code reads them as byte MASKS, torch semantics of "
        "uint8 indices): uint8 ndarrays / tensors (1-d and 0-d), lists of np.uint8; rejected by torch: int8 / int16 tensors, lists of 0-d ndarrays, sets, floats")


SCALAR_FORMS = ("int", "npint", "npint32", "array0", "tensor0")
SEQ_FORMS = ("list", "tuple", "array", "array32", "tensor", "tensor32", "list_np", "list_t0")
# round 5 (argument-form sweep): the remaining integer forms `s[:, A]` of the clean library accepts with the meaning "these sites" (probed for every
# subset of n <= 4 sites on pure and mixed states).  NOT accepted, hence not generated: uint8 ndarray / tensor (1-d or 0-d) and lists of np.uint8
# (torch reads uint8 indices as a byte MASK: IndexError unless len(A) == n, then silently other sites, with torch's deprecation warning), int8 /
# int16 tensors and lists of 0-d ndarrays (IndexError / TypeError from torch), sets, Python / numpy floats.
SCALAR_FORMS_R5 = ("npintp", "npuint8", "npint16", "array0_32", "tensor0_32")
SEQ_FORMS_R5 = ("list_np32", "list_npintp", "list_t0_32", "list_mixed", "tuple_np", "tuple_t0", "array_intp", "array16", "array_u32")
MASK_FORMS = ("mask_list", "mask_array", "mask_tensor")
# The property's quantifier lists the forms of the region: "given as int/list/array/tensor" = a Python / numpy integer, a list / tuple / range of
# integers, an integer numpy array (incl. 0-d), an integer torch tensor (incl. 0-d) and - coordinator's ruling - boolean MASKS over the sites
# (they are of the documented container types list / np.array / torch.Tensor, the clean code handles them, and a change that silently swaps
# another region for them is a regression: seeded M3_C09_2, M4_C09_1).  A Python `slice` happens to work with `s[:, A]` of the present code but
# is not a documented type: a rewrite that normalises the region through `operator.index` raises TypeError for it, loudly, and keeps the
# property.  The slice form is still handed over (an outcome that changes is counted) but carries NO verdict of any level.
# Hardening round (benign B3_C09_1): a TUPLE and a `range` are not among the listed / documented types either ("int or list or np.array or
# torch.Tensor"): they work only because `s[:, A]` of the present code treats a tuple INSIDE an index tuple as a sequence.  A rewrite that
# builds a site mask (`mask[A] = True`) keeps every listed form and reads a bare tuple as a multi-dimensional index (IndexError, or - for the
# empty tuple - "all sites"): the property as stated still holds.  Same treatment as the slice: handed over, counted, no verdict.
# Likewise a LIST WHOSE ELEMENTS ARE 0-d TENSORS (list_t0, list_t0_32, list_mixed): "list" in the property / docstring is a list of site numbers;
# torch converts a list of 0-d tensors only on the `s[:, A]` path (the same mask rewrite gets IndexError for it).  Lists of Python / numpy
# integers stay at property level.
INFO_FORMS = ("slice", "tuple", "tuple_np", "tuple_t0", "range", "list_t0", "list_t0_32", "list_mixed")


def slice_for(A, n, rng):
    """a (start, stop, step) triple with list(range(n))[start:stop:step] == A for a sorted arithmetic progression A (None otherwise);
    the equivalent spellings (None ends, negative ends, stop beyond the last element / beyond n) are chosen from rng"""
    A = list(A)
    if n == 0 or A != sorted(set(A)) or any(not 0 <= k < n for k in A):
        return None
    if len(A) >= 2:
        step = A[1] - A[0]
        if any(A[i + 1] - A[i] != step for i in range(len(A) - 1)):
            return None
    else:
        step = rng.choice([1, 1, 2, n + 1])
    if not A:
        k = rng.randrange(n + 1)
        return rng.choice([(k, k, None), (n, None, None), (k, 0, 1), (n + 3, n + 5, 1)])
    first, last = A[0], A[-1]
    starts = [first, first - n] + ([None] if first == 0 else [])
    stops = list(range(last + 1, min(last + step, n) + 1)) + [e - n for e in range(last + 1, min(last + step, n)) if e - n < 0]
    if last + step >= n:
        stops += [None, n + rng.randrange(0, 3)]
    sl = (rng.choice(starts), rng.choice(stops), rng.choice([step, None] if step == 1 else [step]))
    assert list(range(n))[slice(*sl)] == A, (A, n, sl)
    return sl


def region_forms(A, n, rng, extra=None):
    """every way of passing the region that `s[:, A]` of the unchanged library accepts with the meaning 'these sites':
    scalars (python int, numpy integer scalars, 0-d ndarray, 0-d tensor) for singletons; list, tuple, 1-d ndarray (int64/int32),
    1-d tensor (int64/int32), list of numpy ints / of 0-d tensors; slice and range for arithmetic progressions; boolean masks of
    length n (list / ndarray / tensor); plus `extra` of the round-5 sequence forms and (singletons) `extra // 2` of the round-5 scalar forms
    (None: all of them).  -> [(form, slice triple or None)]"""
    A = list(A)
    forms = [(f, None) for f in SEQ_FORMS]
    forms += [(f, None) for f in (SEQ_FORMS_R5 if extra is None else rng.sample(SEQ_FORMS_R5, min(extra, len(SEQ_FORMS_R5))))]
    if len(A) == 1:
        forms += [(f, None) for f in SCALAR_FORMS]
        forms += [(f, None) for f in (SCALAR_FORMS_R5 if extra is None else rng.sample(SCALAR_FORMS_R5, min(max(1, extra // 2), len(SCALAR_FORMS_R5))))]
    sl = slice_for(A, n, rng)
    if sl is not None:
        forms.append(("slice", list(sl)))
        forms.append(("range", None))      # the empty region as range(0)
    if n > 0:
        forms += [(f, None) for f in MASK_FORMS]
    return forms


def mk_region(form, lst, n=None, sl=None):
    """the actual argument object handed to SWAP(...)"""
    lst = [int(k) for k in lst]
    if form == "int":
        return int(lst[0])
    if form == "npint":
        k = lst[0]
        return np.arange(min(k, 0), max(k, 0) + 1)[k - min(k, 0)]     # an element of np.arange: numpy integer scalar
    if form == "npint32":
        return np.int32(lst[0])
    if form == "array0":
        return np.array(lst[0])
    if form == "tensor0":
        return torch.tensor(lst[0])
    if form == "list":
        return list(lst)
    if form == "tuple":
        return tuple(lst)
    if form == "array":
        return np.array(lst, dtype=np.int64)
    if form == "array32":
        return np.array(lst, dtype=np.int32)
    if form == "tensor":
        return torch.tensor(lst, dtype=torch.long)
    if form == "tensor32":
        return torch.tensor(lst, dtype=torch.int32)
    if form == "list_np":
        return [np.int64(k) for k in lst]
    if form == "list_t0":
        return [torch.tensor(k) for k in lst]
    if form == "npintp":
        return np.intp(lst[0])
    if form == "npuint8":
        return np.uint8(lst[0]) if 0 <= lst[0] < 256 else np.int64(lst[0])
    if form == "npint16":
        return np.int16(lst[0])
    if form == "array0_32":
        return np.array(lst[0], dtype=np.int32)
    if form == "tensor0_32":
        return torch.tensor(lst[0], dtype=torch.int32)
    if form == "list_np32":
        return [np.int32(k) for k in lst]
    if form == "list_npintp":
        return [np.intp(k) for k in lst]
    if form == "list_t0_32":
        return [torch.tensor(k, dtype=torch.int32) for k in lst]
    if form == "list_mixed":
        return [(k, np.int64(k), np.int32(k), torch.tensor(k), np.intp(k))[(i + len(lst)) % 5] for i, k in enumerate(lst)]
    if form == "tuple_np":
        return tuple(np.int64(k) for k in lst)
    if form == "tuple_t0":
        return tuple(torch.tensor(k) for k in lst)
    if form == "array_intp":
        return np.array(lst, dtype=np.intp)
    if form == "array16":
        return np.array(lst, dtype=np.int16)
    if form == "array_u32":
        return np.array(lst, dtype=np.uint32) if all(k >= 0 for k in lst) else np.array(lst, dtype=np.int64)
    if form == "slice":
        return slice(*sl)
    if form == "range":
        return range(lst[0], lst[-1] + 1, (lst[1] - lst[0]) if len(lst) > 1 else 1) if lst else range(0)
    mask = [j in lst for j in range(n)]
    if form == "mask_list":
        return mask
    if form == "mask_array":
        return np.array(mask, dtype=bool)
    if form == "mask_tensor":
        return torch.tensor(mask, dtype=torch.bool)
    raise ValueError(form)


def region_sites(form, lst, n, sl=None):
    """glue: the index list the argument denotes (ints, possibly negative / repeated / out of range), for the model's normRegion —
    stated independently of torch: python's own slice semantics for slices, the positions of True for masks"""
    if form == "slice":
        return list(range(n))[slice(*sl)]
    return [int(k) for k in lst]


def euler_sequence(N):
    """cyclic sequence of length N*N over range(N) in which every ordered pair (x, y) occurs exactly once as
    (seq[i-1], seq[i]) (Hierholzer on the complete digraph with loops)"""
    nxt = {x: list(range(N)) for x in range(N)}
    stack, out = [0], []
    while stack:
        x = stack[-1]
        if nxt[x]:
            stack.append(nxt[x].pop())
        else:
            out.append(stack.pop())
    out.reverse()
    return out[:-1]  # closed walk: drop the repeated start


def purity_np(R, n, A):
    """tr(rho_A^2) with rho_A the partial trace of R over the complement of A — explicit loops"""
    Aset = sorted(set(A))
    comp = [j for j in range(n) if j not in Aset]

    def idx(bits_by_site):
        return sum(bits_by_site[j] << (n - 1 - j) for j in range(n))

    ka, kc = len(Aset), len(comp)
    rA = np.zeros((2 ** ka, 2 ** ka), dtype=complex)
    for ia, a in enumerate(itertools.product([0, 1], repeat=ka)):
        for ib, b in enumerate(itertools.product([0, 1], repeat=ka)):
            tot = 0j
            for g in itertools.product([0, 1], repeat=kc):
                s = {**dict(zip(Aset, a)), **dict(zip(comp, g))}
                t = {**dict(zip(Aset, b)), **dict(zip(comp, g))}
                tot += R[idx(s), idx(t)]
            rA[ia, ib] = tot
    return np.trace(rA @ rA)


def impl_swap(st, region, samples, layout="contig", kw=False, dtype="f64"):
    """`kw`: hand the region over by keyword, SWAP(A=region) (cases of round 5, batches of odd length), instead of positionally;
    `dtype`: element type of the 0/1 batch (key of layouts.DTYPES)"""
    from qucumber.observables import SWAP

    n = len(samples[0]) if samples else 0
    t, backing = make_batch(samples, n, layout, dtype) if samples else (torch.tensor(samples, dtype=torch.double).reshape(0, -1), None)
    before = t.numpy().tobytes()
    same = lambda: t.numpy().tobytes() == before and outside_untouched(backing, layout)  # noqa: E731
    try:
        r = (SWAP(A=region) if kw and len(samples) % 2 else SWAP(region)).apply(st, t)
        ok_shape = one_real_per_sample(r, len(samples))   # second audit, item 6: "one real number per sample" (container / precision not constrained)
        vals = np.asarray(r.detach().cpu().to(torch.float64).numpy() if hasattr(r, "detach") else r, dtype=np.float64).ravel().tolist()
    except Exception as e:  # noqa: BLE001
        return {"error": type(e).__name__}, True, same(), t.numpy().astype(int).tolist()
    return vals, ok_shape, same(), t.numpy().astype(int).tolist()


def one_apply(ctx, st, base, form, region_list, samples, level="property", register=True, sl=None, layout="contig"):
    """one SWAP(A).apply on implementation + model; returns the implementation's values"""
    kind, n = base["kind"], base["n"]
    case = {**base, "form": form, "region": region_list, "samples": samples}
    if sl is not None:
        case["slice"] = sl
    if layout != "contig":
        case["layout"] = layout
    region = mk_region(form, region_list, n, sl)
    if form in INFO_FORMS:
        # not a form of the property's quantifier (see INFO_FORMS): applied, the outcome class is counted, no verdict
        vals = impl_swap(st, region, samples, layout)[0]
        want = impl_swap(st, sorted({k % n for k in region_sites(form, region_list, n, sl) if -n <= k < n}) if n else [], samples, layout)[0]
        ctx.count(f"form={form} (informational, not a listed form): " + ("raises" if isinstance(vals, dict) else
                                                                          "same values as the list of sites" if same_values(vals, want) else "other values"))
        return vals
    if level == "info":
        # a region that is NOT a subset of the sites (negative, repeated, out-of-range indices): outside the quantifier "every subset A of sites".
        # Applied (a crash of a later call would show); whether it raises, what it raises and which values it returns are not constrained:
        # informational counters only, no verdict of any level (second audit, item C09-FA1); C09_region stays a theorem about the model.
        vals = impl_swap(st, region, samples, layout)[0]
        out = "raises" if isinstance(vals, dict) else "returns values"
        if ctx.driver is not None:
            model = ctx.driver.call("c09.eval", samples=samples, region=region_sites(form, region_list, n, sl),
                                    **state_req(kind, n, base["h"], base["a"], base["am"], base["ph"]))
            if isinstance(vals, dict) or "error" in model:
                same = isinstance(vals, dict) and "error" in model
            else:
                same = same_values(vals, unbits(model["vals"]).tolist() if len(samples) else [], rtol=1e-8)
            out += ", outcome class / values " + ("as modelled" if same else "differ from the model")
        ctx.count(f"malformed_region (informational): {out}")
        return vals
    vals, ok_shape, unchanged, after = impl_swap(st, region, samples, layout, kw=base.get("aseed") is not None)
    if base.get("aseed") is not None and len(samples) % 2:
        ctx.count("argform/region by keyword: SWAP(A=...)")
    region_list = region_sites(form, region_list, n, sl)
    if register:
        A = sorted({k % n for k in region_list if -n <= k < n}) if n else []
        nontriv = n >= 2 and 0 < len(A) < n
        ctx.case({"state": [base["am"], base["ph"]], "region": region_list, "form": form, "samples": samples}, nontrivial=nontriv,
                 sample={"kind": kind, "n": n, "region": region_list, "form": form, "batch": len(samples)})
        ctx.count(f"kind={kind}"); ctx.count(f"n={n}"); ctx.count(f"form={form}"); ctx.count(f"|A|={len(A)}"); ctx.count(f"layout={layout}")
        ctx.count(f"batch={'2' if len(samples) == 2 else ('euler' if len(samples) == 4 ** n and n > 0 else 'random')}")
    ctx.oracle("apply leaves the batch unchanged (bytes)", bool(unchanged), case, sig=f"{kind}/swap/no-mutation", theorem=THEOREMS["after"])
    if not isinstance(vals, dict):
        ctx.oracle("apply returns one real number per sample (B reals)", bool(ok_shape), case, sig=f"{kind}/swap/shape")
    if ctx.driver is not None:
        model = ctx.driver.call("c09.eval", samples=samples, region=region_list,
                                **state_req(kind, n, base["h"], base["a"], base["am"], base["ph"]))
        if isinstance(vals, dict) or "error" in model:
            ctx.point("SWAP.apply", level, vals if isinstance(vals, dict) else "values",
                      {"error": model["error"]} if "error" in model else "values", case, exact=True,
                      theorem=THEOREMS["apply"], sig=f"{kind}/swap/apply")
        else:
            m = unbits(model["vals"]) if len(samples) else np.zeros(0)
            ctx.point("SWAP.apply", level, vals, m, case, scale=max(1.0, float(np.max(np.abs(m))) if len(m) else 1.0),
                      theorem=THEOREMS["apply"], sig=f"{kind}/swap/apply")
            ctx.point("SWAP: batch after apply", "property", after, model["after"], case, exact=True, theorem=THEOREMS["after"],
                      sig=f"{kind}/swap/after")
            # pairing rule of the model vs torch.roll on row indices
            B = len(samples)
            ctx.point("torch.roll(arange(B), 1, 0)", "aux", torch.roll(torch.arange(B), 1, 0).tolist(), model["roll"], case, exact=True,
                      theorem=THEOREMS["pairing"], sig="swap/roll")
    return vals


def build_checked(ctx, base, AF):
    """the state of `base` with every constructor size / `gpu` in the forms of the stream AF, or None if the constructed architecture is not
    the requested one (reported as a property oracle; the rest of the case cannot be evaluated then)"""
    kind, n, h, a = base["kind"], base["n"], base["h"], base["a"]
    st = build_state(kind, n, h, a, base["am"], base["ph"], A=AF)
    ok = af.check_sizes(ctx, st, (n, h, a) if kind == "dens" else (n, h), base, AF, f"{kind}/ctor-sizes",
                        "C09_purity (stated for the state of the architecture the caller asked for)")
    return st if ok else None


def exact_weights(ctx, st, base, AF):
    """(p, R): the exact basis-state distribution probability(space, Z) - Z handed over as tensor / float / np.float64, keyword or positional -
    and the normalised density matrix from psi / rho(space, space, expand=<true object>); None if a call does not return what its
    documentation promises for these objects (reported)"""
    kind, n = base["kind"], base["n"]
    space_t = torch.tensor(qc.all_states(n), dtype=torch.double)
    pt, zform = given_Z(AF, st, space_t, st.normalization(space_t))
    p = pt.detach().numpy()
    R = rho_hat(st, kind, n, AF)
    ok = R is not None and p.shape == (2 ** n,) and bool(np.allclose(p, np.real(np.diag(R)), rtol=1e-8, atol=1e-12))
    ctx.oracle("probability(space, Z) is the diagonal of the normalised state (Z / expand handed over in the case's forms)", ok, base,
               detail={"Z_given_as": zform, "given_as": AF.used(), "rho_shape_ok": R is not None}, sig=f"{kind}/born", theorem="C09_purity")
    AF.count_into(ctx)
    return (p, R) if ok else None


def one_state(ctx, kind, n, h, a, scale, am, ph, thorough, regions=None, aseed=None):
    """`regions`: the list of regions to run (default: every subset of the sites); `aseed`: seed of the state's argument-form stream
    (constructor sizes, gpu, Z, expand; None: plain ints / bools by keyword, the calls made before round 5)"""
    base = {"kind": kind, "n": n, "h": h, "a": a, "scale": scale, "am": am, "ph": ph}
    if aseed is not None:
        base["aseed"] = aseed
    ctx.current_case = base
    AF = af.Args(aseed)
    st = build_checked(ctx, base, AF)
    if st is None:
        return
    rng = ctx.rng
    states = qc.all_states(n)
    N = len(states)
    pr = exact_weights(ctx, st, base, AF)
    if pr is None:
        return
    p, R = pr
    if kind == "dens":
        # which side of the hypothesis of C09_renyi_nonneg_mixed_rbm the case lies on: C02_NZ_of_phase_weights_small (sum_j |U_mu kj| < 2 pi
        # for every auxiliary unit) is sufficient for the guard NZ; the oracle below is evaluated on the implementation either way
        import math
        ctx.count("dens:NZ_guard_sufficient_condition=" + str(all(sum(abs(x) for x in row) < 2 * math.pi for row in ph["U"])))
    est = {}
    subsets = [list(c) for k in range(n + 1) for c in itertools.combinations(range(n), k)]
    if regions is not None:
        subsets = [sorted(A) for A in regions]
        ctx.count(f"region_subset_of_n={n}")
    eul = [states[k] for k in euler_sequence(N)]
    eul_idx = euler_sequence(N)
    for A in subsets:
        # --- all ordered pairs through two-row batches (A as list): row 0 = (s_x, s_y), row 1 = (s_y, s_x)
        tot, bad = 0.0, False
        for x in range(N):
            for y in range(x, N):
                vals = one_apply(ctx, st, base, "list", A, [states[x], states[y]])
                if isinstance(vals, dict):
                    bad = True
                    continue
                tot += p[x] * p[y] * vals[0]
                if y != x:
                    tot += p[y] * p[x] * vals[1]
        case = {**base, "form": "list", "region": A, "samples": [states[0], states[N - 1]]}
        exact = purity_np(R, n, A)
        tol = 1e-8 * (1.0 + abs(exact))
        ctx.oracle("sum_{s1,s2} p(s1)p(s2) SWAP_A(s1,s2) == tr(rho_A^2) (explicit partial trace)",
                   (not bad) and abs(tot - exact.real) <= tol and abs(exact.imag) <= 1e-8, case,
                   detail={"estimator_average": tot, "purity_re": float(exact.real), "purity_im": float(exact.imag), "raised": bad},
                   sig=f"{kind}/swap/purity", theorem="C09_purity")
        ctx.oracle("Renyi-2 entropy non-negative: estimator average <= 1 and > 0", (not bad) and 0.0 < tot <= 1.0 + 1e-8, case,
                   detail={"estimator_average": tot}, sig=f"{kind}/swap/nonneg", theorem=THEOREMS["nonneg"])
        est[tuple(A)] = tot
        # --- one long batch whose cyclic neighbours cover every ordered pair once: tests pairing + estimator together
        vals = one_apply(ctx, st, base, "list", A, eul)
        if not isinstance(vals, dict):
            tot2 = sum(p[eul_idx[i]] * p[eul_idx[i - 1]] * vals[i] for i in range(len(eul)))
            ctx.oracle("Eulerian batch: sum_i p(s_i)p(s_{i-1}) apply_i == tr(rho_A^2)", abs(tot2 - exact.real) <= tol,
                       {**base, "form": "list", "region": A, "samples": eul},
                       detail={"estimator_average": tot2, "purity_re": float(exact.real)}, sig=f"{kind}/swap/pairing-purity",
                       theorem="C09_purity + C09_pairing")
        # --- every argument form (scalars, sequences, slices, ranges, masks; see region_forms) on a random batch with repeats and, for
        #     n <= 3, on the Eulerian batch (every ordered pair): the values are compared with the model, all forms must agree, and the
        #     exact-average property is evaluated for each form
        B = rng.randrange(1, 10)
        pool = [rng.choice(states) for _ in range(max(1, B - 2))]
        batch = [list(rng.choice(pool)) for _ in range(B)]
        ref = None
        for form, sl in region_forms(A, n, rng, extra=None if thorough else 4):
            lay = rng.choice(LAYOUTS)    # the batch as a contiguous tensor / strided view of a larger buffer / transposed
            vals = one_apply(ctx, st, base, form, A, batch, sl=sl, layout=lay)
            fcase = {**base, "form": form, "region": A, "samples": batch, **({"slice": sl} if sl is not None else {}),
                     **({"layout": lay} if lay != "contig" else {})}
            if form in INFO_FORMS:
                continue
            if ref is None:
                ref = vals
            else:
                ctx.oracle("all region argument forms agree", same_values(vals, ref), fcase, sig=f"{kind}/swap/forms", theorem="C09_region")
            if form != "list" and n <= 3:
                vals = one_apply(ctx, st, base, form, A, eul, sl=sl)
                bad_f = isinstance(vals, dict)
                tot_f = float("nan") if bad_f else sum(p[eul_idx[i]] * p[eul_idx[i - 1]] * vals[i] for i in range(len(eul)))
                ctx.oracle("Eulerian batch, region given in this form: sum_i p(s_i)p(s_{i-1}) apply_i == tr(rho_A^2)",
                           (not bad_f) and abs(tot_f - exact.real) <= tol, {**fcase, "samples": eul},
                           detail={"estimator_average": tot_f, "purity_re": float(exact.real), "raised": bad_f},
                           sig=f"{kind}/swap/purity-form", theorem="C09_purity + C09_region")
        if not isinstance(ref, dict):
            ok = True
            for i in range(B):
                two = impl_swap(st, list(A), [batch[i], batch[i - 1]])[0]
                ok = ok and (not isinstance(two, dict)) and abs(two[0] - ref[i]) <= 1e-9 * (1 + abs(ref[i]))
            ctx.oracle("row i is paired with row (i-1) mod B", bool(ok), {**base, "form": "list", "region": A, "samples": batch},
                       sig=f"{kind}/swap/pairing", theorem=THEOREMS["pairing"])
        # --- the same 0/1 batch in every other element type (final pass; pure states: the clean code converts the batch when it multiplies it
        #     with the float64 parameters, every type is accepted and gives the float64 values; DensityMatrix refuses every non-float64 batch:
        #     outcome counted, no verdict)
        if not isinstance(ref, dict):
            lay = rng.choice(LAYOUTS)
            for dt in SAMPLE_DTYPES:
                vals, ok_shape, unchanged, _ = impl_swap(st, list(A), batch, lay, dtype=dt)
                if kind == "dens":
                    ctx.count(f"batch dtype {dt} / dens (no verdict: refused by the clean code): " + ("raises" if isinstance(vals, dict) else "returns values"))
                    continue
                dcase = {**base, "form": "list", "region": A, "samples": batch, "batch_dtype": dt, **({"layout": lay} if lay != "contig" else {})}
                ctx.count(f"batch dtype {dt}: verdict")
                ctx.oracle(f"apply on the batch given as {dt} leaves it unchanged (bytes)", bool(unchanged), dcase, sig=f"{kind}/swap/no-mutation/dtype",
                           theorem=THEOREMS["after"])
                ctx.oracle(f"SWAP(A).apply(batch of element type {dt}) == one real number per sample, the value of the same 0/1 batch given as float64",
                           (not isinstance(vals, dict)) and bool(ok_shape) and same_values(vals, ref, rtol=1e-9), dcase,
                           detail={"as_" + dt: vals if isinstance(vals, dict) else vals[:8], "as_float64": ref[:8]}, sig=f"{kind}/swap/batch-dtype",
                           theorem=THEOREMS["apply"])
    # --- pure states: region <-> complement, trivial regions
    case0 = {**base, "form": "list", "region": [], "samples": [states[0], states[N - 1]]}
    if kind != "dens":
        for A in subsets:
            comp = tuple(j for j in range(n) if j not in A)
            if comp not in est:
                continue
            ctx.oracle("pure state: estimator average of A equals that of its complement",
                       abs(est[tuple(A)] - est[comp]) <= 1e-8 * (1 + abs(est[comp])), {**case0, "region": list(A)},
                       detail={"A": est[tuple(A)], "complement": est[comp]}, sig=f"{kind}/swap/symmetric", theorem=THEOREMS["sym"])
        for A in ([], list(range(n))):
            ctx.oracle("pure state: empty / full region has purity 1 (S2 = 0)", abs(est[tuple(A)] - 1.0) <= 1e-8, {**case0, "region": A},
                       detail={"estimator_average": est[tuple(A)]}, sig=f"{kind}/swap/trivial", theorem=THEOREMS["trivial"])
    else:
        ctx.oracle("mixed state: empty region has purity 1", abs(est[()] - 1.0) <= 1e-8, case0, detail={"estimator_average": est[()]},
                   sig="dens/swap/trivial", theorem="C09_empty_region")
    # --- malformed region arguments (not subsets of the sites: outside the quantifier; informational counters only), in scalar and sequence forms
    batch = [list(rng.choice(states)) for _ in range(3)]
    for form, lst in [("list", [-1]), ("list", [0, 0]), ("list", [n]), ("int", [n]), ("int", [-1]), ("tensor", [-n]), ("array", [-n - 1]),
                      ("list", [0, -n]), ("npint", [n]), ("npint", [-1]), ("npint32", [-n - 1]), ("array0", [n]), ("array0", [-n]),
                      ("tensor0", [n]), ("tensor0", [-1]), ("tensor0", [-n - 1]), ("tuple", [0, -n]), ("tuple", [n]), ("list_np", [-1, 0]),
                      ("list_t0", [n]), ("tensor32", [-1]), ("array32", [n + 1])]:
        one_apply(ctx, st, base, form, lst, batch, level="info")
        ctx.count("malformed_region")
    # --- call history on the same objects
    for _ in range(3 if thorough else 2):
        A = rng.choice(subsets)
        form, sl = rng.choice([fs for fs in region_forms(A, n, rng) if fs[0] not in INFO_FORMS])
        ctx.current_case = base
        history_probe(ctx, gen_history(rng, base, form, A, sl, states))


def gen_history(rng, base, form, A, sl, states):
    kind, n, h, a = base["kind"], base["n"], base["h"], base["a"]
    scale = rng.choice([0.3, 1.0, 2.0])
    if kind == "dens":
        am2, ph2 = qc.rand_prbm_params(rng, n, h, a, scale), qc.rand_prbm_params(rng, n, h, a, scale)
    else:
        am2 = qc.rand_rbm_params(rng, n, h, scale)
        ph2 = qc.rand_rbm_params(rng, n, h, scale) if kind == "cplx" else None
    B = rng.randrange(2, 7)
    B2 = rng.choice([b for b in range(1, 9) if b != B])
    mk = lambda k: [list(rng.choice(states)) for _ in range(k)]  # noqa: E731
    return {**base, "hist": True, "form": form, "region": list(A), **({"slice": sl} if sl is not None else {}),
            "am2": am2, "ph2": ph2, "batches": [mk(B), mk(B), mk(B2), mk(B)]}


def history_probe(ctx, case):
    """ONE SWAP object, ONE state object and ONE sample tensor object used repeatedly: (0) first evaluation, (1) the sample tensor
    overwritten in place (a chain advanced with overwrite=True), (2) the state re-parametrised in place (training between two
    evaluations), (3) a batch of another length, (4) the first tensor object again with new content.  Every evaluation is compared
    with the model of the CURRENT parameters and content."""
    from qucumber.observables import SWAP

    kind, n, h, a = case["kind"], case["n"], case["h"], case["a"]
    form, A, sl = case["form"], case["region"], case.get("slice")
    if form in INFO_FORMS:      # a history stored by an earlier round with a form outside the property's quantifier: no verdict
        ctx.count(f"history_probe with form={form} (informational, not a listed form): skipped")
        return
    AF = af.Args(case.get("aseed"))
    st = build_checked(ctx, {k: case[k] for k in ("kind", "n", "h", "a", "scale", "am", "ph", "aseed") if k in case}, AF)
    if st is None:
        return
    obs = SWAP(mk_region(form, A, n, sl))
    sites = region_sites(form, A, n, sl)
    b = case["batches"]
    t = torch.tensor(b[0], dtype=torch.double).reshape(len(b[0]), n)
    t3 = torch.tensor(b[2], dtype=torch.double).reshape(len(b[2]), n)
    ctx.case({"hist": [case["am"], case["am2"], A, form, b]}, nontrivial=n >= 2 and 0 < len(set(sites)) < n,
             sample={"kind": kind, "n": n, "region": A, "form": form, "history": "same SWAP/state/tensor objects, 5 evaluations"})
    ctx.count("history_probe")
    am, ph = case["am"], case["ph"]
    for step in range(5):
        if step == 1:
            t.copy_(torch.tensor(b[1], dtype=torch.double).reshape(len(b[1]), n))
        elif step == 2:
            am, ph = case["am2"], case["ph2"]
            if kind == "dens":
                qc.set_prbm(st.rbm_am, am, inplace=True); qc.set_prbm(st.rbm_ph, ph, inplace=True)
            else:
                qc.set_rbm(st.rbm_am, am, inplace=True)
                if kind == "cplx":
                    qc.set_rbm(st.rbm_ph, ph, inplace=True)
        elif step == 4:
            t.copy_(torch.tensor(b[3], dtype=torch.double).reshape(len(b[3]), n))
        cur, content = (t3, b[2]) if step == 3 else (t, b[[0, 1, 1, 2, 3][step]])
        sub = {**case, "step": step}
        before = cur.numpy().tobytes()
        try:
            vals = obs.apply(st, cur).detach().numpy().astype(np.float64).ravel().tolist()
        except Exception as e:  # noqa: BLE001
            vals = {"error": type(e).__name__}
        ctx.oracle("history: apply leaves the batch unchanged (bytes)", cur.numpy().tobytes() == before, sub, sig=f"{kind}/swap/no-mutation",
                   theorem=THEOREMS["after"])
        if ctx.driver is not None:
            model = ctx.driver.call("c09.eval", samples=content, region=sites, **state_req(kind, n, h, a, am, ph))
            if isinstance(vals, dict) or "error" in model:
                ctx.point("history: SWAP.apply", "property", vals if isinstance(vals, dict) else "values",
                          {"error": model["error"]} if "error" in model else "values", sub, exact=True, theorem=THEOREMS["apply"],
                          sig=f"{kind}/swap/history")
            else:
                m = unbits(model["vals"])
                ctx.point("history: SWAP.apply", "property", vals, m, sub, scale=max(1.0, float(np.max(np.abs(m)))),
                          theorem=THEOREMS["apply"], sig=f"{kind}/swap/history")
        # secondary (metamorphic, used by the model-free search): a fresh observable on a fresh copy of state and batch
        fresh_st = build_checked(ctx, {**{k: case[k] for k in ("kind", "n", "h", "a", "scale", "aseed") if k in case}, "am": am, "ph": ph}, AF)
        AF.count_into(ctx)
        if fresh_st is None:
            return
        fresh = impl_swap(fresh_st, mk_region(form, A, n, sl), content)[0]
        ctx.oracle("history: same objects evaluated again == fresh objects with the current parameters and content", same_values(vals, fresh), sub,
                   detail={"reused": vals, "fresh": fresh}, sig=f"{kind}/swap/history-oracle", theorem=THEOREMS["apply"])


def gen_states(ctx, thorough):
    rng = ctx.rng
    if thorough:
        archs = [(1, 2), (2, 1), (2, 3), (3, 2), (3, 4), (4, 2)]
    else:
        archs = [(1, 2), (2, 3), (3, 2)]
    scales = [0.3, 1.0, 2.0]
    for (n, h) in archs:
        for kind in ("pos", "cplx", "dens"):
            scale = rng.choice(scales)
            a = rng.choice([1, 2, 3]) if kind == "dens" else 0
            if kind == "dens":
                am = qc.rand_prbm_params(rng, n, h, a, scale)
                ph = qc.rand_prbm_params(rng, n, h, a, scale)
            else:
                am = qc.rand_rbm_params(rng, n, h, scale)
                ph = qc.rand_rbm_params(rng, n, h, scale) if kind == "cplx" else None
            yield kind, n, h, a, scale, am, ph
    if not thorough:
        # n = 4 (the upper end of the property's quantifier) in the quick tier: one state of each kind with the empty and
        # the full region, a random proper region and its complement (all ordered pairs of the 16 basis states for each of them)
        n, h = 4, 2
        for kind in ("pos", "cplx", "dens"):
            scale = rng.choice(scales)
            a = rng.choice([1, 2]) if kind == "dens" else 0
            if kind == "dens":
                am, ph = qc.rand_prbm_params(rng, n, h, a, scale), qc.rand_prbm_params(rng, n, h, a, scale)
            else:
                am = qc.rand_rbm_params(rng, n, h, scale)
                ph = qc.rand_rbm_params(rng, n, h, scale) if kind == "cplx" else None
            A = sorted(rng.sample(range(n), rng.randrange(1, n)))
            yield kind, n, h, a, scale, am, ph, [[], list(range(n)), A, [j for j in range(n) if j not in A]]
    # large unnormalised probabilities: every |psi|^2 (rho diagonal) is finite but the
    # product of two of them is not, so the estimator must divide pair by pair.
    for kind in ("pos", "cplx", "dens"):
        n = 2
        h = 14 if kind != "dens" else 8
        a = 2 if kind == "dens" else 0
        if kind == "dens":
            am = qc.rand_prbm_params(rng, n, h, a, 0.3)
            ph = qc.rand_prbm_params(rng, n, h, a, 0.3)
        else:
            am = qc.rand_rbm_params(rng, n, h, 0.3)
            ph = qc.rand_rbm_params(rng, n, h, 0.3) if kind == "cplx" else None
        am["c"] = [27.0 + 3.0 * rng.random() for _ in range(h)]
        yield kind, n, h, a, 0.3, am, ph


def run(ctx):
    ctx.rule = RULE
    thorough = ctx.tier == "thorough"
    for args in gen_states(ctx, thorough):
        one_state(ctx, *args[:7], thorough, regions=(args[7] if len(args) > 7 else None), aseed=af.draw_aseed(ctx.rng))


def search(ctx):
    drv, ctx.driver = ctx.driver, None
    try:
        for args in gen_states(ctx, True):
            one_state(ctx, *args, True, aseed=af.draw_aseed(ctx.rng))
    finally:
        ctx.driver = drv


def replay(ctx, case):
    if case.get("hist"):
        history_probe(ctx, {k: v for k, v in case.items() if k != "step"})
        return
    base = {k: case[k] for k in ("kind", "n", "h", "a", "scale", "am", "ph")}
    if case.get("aseed") is not None:
        base["aseed"] = case["aseed"]
    ctx.current_case = base
    AF = af.Args(case.get("aseed"))
    st = build_checked(ctx, base, AF)
    if st is None:
        return
    if "form" not in case:       # a case reported by the constructor / normalisation oracles: the state alone
        exact_weights(ctx, st, base, AF)
        return
    sl = case.get("slice")
    if case.get("batch_dtype"):
        ref = impl_swap(st, list(case["region"]), case["samples"])[0]
        vals, ok_shape, unchanged, _ = impl_swap(st, list(case["region"]), case["samples"], case.get("layout", "contig"), dtype=case["batch_dtype"])
        ctx.oracle(f"apply on the batch given as {case['batch_dtype']} leaves it unchanged (bytes)", bool(unchanged), case,
                   sig=f"{case['kind']}/swap/no-mutation/dtype", theorem=THEOREMS["after"])
        ctx.oracle("SWAP(A).apply(batch of another element type) == one real number per sample, the value of the same 0/1 batch given as float64",
                   (not isinstance(vals, dict)) and bool(ok_shape) and same_values(vals, ref, rtol=1e-9), case,
                   detail={"as_dtype": vals if isinstance(vals, dict) else vals[:8], "as_float64": ref if isinstance(ref, dict) else ref[:8]},
                   sig=f"{case['kind']}/swap/batch-dtype", theorem=THEOREMS["apply"])
    vals = one_apply(ctx, st, base, case["form"], case["region"], case["samples"], sl=sl, layout=case.get("layout", "contig"))
    if case["form"] in INFO_FORMS:
        return
    # re-evaluate the exact-average property for this region, given in this form, on the implementation
    n = case["n"]
    sites = region_sites(case["form"], case["region"], n, sl)
    A = sorted({k % n for k in sites if -n <= k < n}) if n else []
    if not isinstance(vals, dict) and all(-n <= k < n for k in sites):
        states = qc.all_states(n)
        pr = exact_weights(ctx, st, base, AF)
        if pr is None:
            return
        p, R = pr
        tot = 0.0
        for x in range(len(states)):
            for y in range(len(states)):
                v = impl_swap(st, mk_region(case["form"], case["region"], n, sl), [states[x], states[y]])[0]
                tot += p[x] * p[y] * v[0]
        exact = purity_np(R, n, A)
        ctx.oracle("sum_{s1,s2} p(s1)p(s2) SWAP_A(s1,s2) == tr(rho_A^2) (explicit partial trace)",
                   abs(tot - exact.real) <= 1e-8 * (1 + abs(exact)), case,
                   detail={"estimator_average": tot, "purity_re": float(exact.real)}, sig=f"{case['kind']}/swap/purity", theorem="C09_purity")

