"""C14 — seeded reproducibility and read-only evaluation (PARTIAL claim).

This is where the implementation is examined.  Every generated history of public operations is
executed THREE times, each in a fresh interpreter (harness/c14_runner.py):
  run 1, run 2: same `set_random_seed(s)` and same library operations, but different torch /
                numpy / `random` states before the seeding and different foreign numpy / `random`
                draws interleaved between the library operations;
  run 3       : run 1 with other seeds (every seeding call of the history has a partner seed).
Seeds are drawn from the whole range torch.manual_seed accepts, [-2^63, 2^64): small, >= 2^31, >= 2^32, >= 2^63,
negative, boundary values, and partners that differ from the seed only in bit 31, only above bit 32, only in sign,
or by 2^64.  What "a different seed" means is measured on torch itself, independently of qucumber
(`torch_stream`): two seeds must give different draws exactly when `torch.Generator().manual_seed(a)` and
`.manual_seed(b)` give different `torch.rand` streams (torch's mt19937 reads the low 32 bits of the seed word), and
after `set_random_seed(s)` torch's CPU generator must be in exactly the state `torch.manual_seed(s)` produces.
Checked: bitwise equality (sha1 of bytes) of all results and all parameters of run 1 vs run 2;
parameters of every live object before/after each read-only operation; numpy / `random` states
before/after each library operation; every seed-probe sample (k=0, >= 32 fair bits) of run 3
differs from run 1.  The Lean model (driver op `c14.run`, token semantics) predicts for every
operation the calls to torch's random functions with element counts (only the element TOTAL per operation is
compared with what the recorders observe), whether torch's generator advances, which objects are written, the
result kind (none / value / raised; exception classes are counted only), and the equality pattern of
results / parameters.
"""
import json
import math
import os
import shutil
import subprocess
import sys
import tempfile
import zlib
from concurrent.futures import ThreadPoolExecutor

from .common import REPO, VERIF, InternalError

FILES = [
    "qucumber/__init__.py",
    "qucumber/nn_states/neural_state.py",
    "qucumber/nn_states/positive_wavefunction.py",
    "qucumber/nn_states/complex_wavefunction.py",
    "qucumber/nn_states/density_matrix.py",
    "qucumber/rbm/binary_rbm.py",
    "qucumber/rbm/purification_rbm.py",
    "qucumber/observables/observable.py",
    "qucumber/observables/system.py",
    "qucumber/observables/pauli.py",
    "qucumber/observables/entanglement.py",
    "qucumber/utils/training_statistics.py",
    "qucumber/utils/unitaries.py",
]
REQUIRED_THEOREMS = ["C14_forwarded_read_only", "C14_forwarded_table", "C14_frame_rng", "C14_frame_rng_unchanged", "C14_seeded_determinism", "C14_read_only_step",
                     "C14_read_only", "C14_read_only_skeleton", "C14_draw_count", "C14_draw_count_closed_forms",
                     "C14_different_seed_partial", "C14_seed_accepted", "C14_seed_rejected", "C14_same_stream_same_results",
                     "C14_read_only_ops_ext", "C14_fit_evaluator_calls", "C14_fit_evaluator_draws", "C14_eval_epochs_closed"]
EXTRA_TRUSTED = [
    "C14 is PARTIAL: bit-identity across runs rests on the determinism of torch's CPU kernels (single thread) and "
    "'different seed => different draws' on torch's PRNG; both are only observed by the three-process replay, not proved",
    "which seeds torch accepts ([-2^63, 2^64), reduced mod 2^64) and which accepted seeds have the same stream (equal low 32 bits of the "
    "seed word) are facts about the installed torch: modelled in QV.Model.Frame (seedWord, tokenSem.mix) and re-measured in every run on a "
    "private torch.Generator (harness/c14.py torch_stream), independently of qucumber",
    "the C14 model is a frame model (which generator / which parameters each operation touches, how many elements it draws); "
    "values are uninterpreted; the recorders in harness/c14_runner.py (pass-through wrappers of torch.bernoulli/randn/"
    "randperm/randint/rand/manual_seed, sha1 of parameter and generator-state bytes) are trusted",
]
RULE = ("case = one history: [different per-run prefix: foreign numpy/random seeding, torch draws, optionally an unseeded "
        "junk object] + set_random_seed(s) with s from the WHOLE range torch accepts (classes <2^31, <2^32, <2^63, <2^64, negative, boundary "
        "values; gpu=True on 30%) and, for run 3, a partner seed (unrelated / differing only in bit 31 / only above bit 32 / only in sign / by 2^64 / "
        "equal mod 2^31 / adjacent); every second history re-seeds in mid-history, every fourth calls set_random_seed(cpu=False) (also with "
        "values torch refuses); plus seed-sweep histories of 10..14 seedings each followed by a probe and a construct / reinit / sample / fit, "
        "and refused seeds (2^64, -2^63-1) in the malformed history; then 8..16 library operations drawn from {construct x3 kinds, reinit, sample "
        "(with/without initial state, k=0 seed probes), Observable/System.statistics, fit (random epochs, batch sizes, k, "
        "optimizer, bases for complex/mixed), eval, metrics (fidelity/KL/NLL), rotate_*, gradient methods, "
        "compute_batch_gradients, save, load} with foreign numpy/random draws interleaved differently per run, plus fixed "
        "malformed histories (missing slot, num_samples=0, pos_batch_size=0, missing bases, no reference-basis rows, "
        "missing file); every generated history applies EVERY operation class of the API table (one per public callable found by "
        "introspection: amplitude, phase, rho(v,v'), pi, pi_grad, am_grads, ph_grads, importance_sampling_*, subspace_vector, composite observables, "
        "Observable.sample, System.statistics_from_samples, sample/statistics(overwrite=True), save(metadata=), rotate_*(psi=/rho=, unitaries=None, "
        "include_extras), fit with an ObservableEvaluator callback / scheduler / time) at least once to its first object "
        "(kind cycling pos/cplx/dens), every third one builds an unseeded object before the seeding (parameters compared "
        "from slot b=1); non-trivial iff it contains a fit and (a statistics call or a save/load pair or >= 2 state kinds) "
        "and runs 1 and 2 each contain >= 2 foreign operations; distinct by hash of the three op lists.  ARGUMENT FORMS: every boolean option of "
        "every public call (set_random_seed cpu/gpu/quiet, constructors gpu, sample/statistics overwrite, fit time/progbar, evaluator verbose, pi/pi_grad "
        "expand/phase, include_extras, observable absolute/periodic_bcs) is handed over as bool singleton / 0,1 / numpy.bool_ / numpy comparison / 0-d "
        "array / 0-d tensor, every integer option (seed over the whole accepted range, num_visible/num_hidden/num_aux, k, num_samples, num_chains, burn_in, "
        "steps, epochs, pos/neg_batch_size, starting_epoch, period, size, num) as Python int / numpy.int64,int32,intp,uint8,(uint64) / 0-d integer array / "
        "0-d integer tensor (only the forms the clean tree accepts for that option), by keyword or as a random positional prefix of the documented order; "
        "the objects are rebuilt in the runner process from two per-operation seeds (fseed, iseed) stored in the case, identically in all runs and in a replay.  "
        "CHAIN BLOCK (every generated history, before the final probes): [set_random_seed(s), sample / Observable.sample(k, num, initial_state=X)] four times with the "
        "same s on the same unchanged object, X = A, B (A with one bit flipped), A, A with overwrite=True; k = history index mod 3 (k = 0 returns the start chains "
        "themselves): calls 1 and 3 are the same operation at the same stream position (must be bit-equal), call 2 differs only in the CONTENT of initial_state.  "
        "fit: data as numpy.ndarray on 30 %, k = 0 on 10 %.  FORWARDED API: the public methods of BinaryRBM / PurificationRBM called on the state (NeuralStateBase.__getattr__): evaluators as eval fwd_<name>, "
        "state.gibbs_steps as batchGradient:fwd.  ENVIRONMENTS: corpus cases are re-executed with the three runner processes INSIDE each process-global environment")

SEED_LO, SEED_HI = -2 ** 63, 2 ** 64  # torch.manual_seed accepts LO <= s < HI (established on the clean tree, re-measured below)
SEED_SPECIALS = [0, 1, 2 ** 31 - 1, 2 ** 31, 2 ** 32 - 1, 2 ** 32, 2 ** 40, 2 ** 63 - 1, 2 ** 63, 2 ** 64 - 1, -1, -2 ** 31, -2 ** 63]
_STREAMS = {}


def torch_stream(s):
    """what torch ITSELF does with the seed `s`, measured on a private torch.Generator (never through qucumber, never
    touching a global generator): None if torch refuses the value, else the hash of the generator state right after
    seeding (same formula as the runner's rng hash), the first 64 doubles of its `torch.rand` stream, and the seed word"""
    if s not in _STREAMS:
        import hashlib

        import torch

        g = torch.Generator()
        try:
            g.manual_seed(s)
        except (ValueError, RuntimeError, OverflowError, TypeError) as e:
            _STREAMS[s] = {"refused": type(e).__name__}
        else:
            _STREAMS[s] = {"state": hashlib.sha1(g.get_state().numpy().tobytes()).hexdigest()[:20], "word": g.initial_seed(),
                           "draws": hashlib.sha1(torch.rand(64, generator=g, dtype=torch.double).numpy().tobytes()).hexdigest()}
    return _STREAMS[s]


def seed_ok(s):
    return "refused" not in torch_stream(s)


def same_stream(a, b):
    """torch's own answer to 'are a and b the same seed as far as the draws are concerned'"""
    return torch_stream(a)["draws"] == torch_stream(b)["draws"]


def seed_class(s):
    if s < 0:
        return "negative"
    for name, hi in (("<2^31", 2 ** 31), ("<2^32", 2 ** 32), ("<2^63", 2 ** 63), ("<2^64", 2 ** 64)):
        if s < hi:
            return name
    return ">=2^64"


def gen_seed(rng):
    """a seed from the whole accepted range"""
    c = rng.random()
    if c < 0.2:
        return rng.randint(0, 2 ** 31 - 1)
    if c < 0.35:
        return rng.randint(2 ** 31, 2 ** 32 - 1)
    if c < 0.5:
        return rng.randint(2 ** 32, 2 ** 63 - 1)
    if c < 0.6:
        return rng.randint(2 ** 63, 2 ** 64 - 1)
    if c < 0.8:
        return -rng.randint(1, 2 ** 63)
    return rng.choice(SEED_SPECIALS)


def gen_partner(rng, s):
    """a seed != s for run 3: unrelated, or differing from s only in bit 31 / only above bit 32 (same torch stream) / only in
    sign / by 2^64 (same seed word) / equal to s modulo 2^31 / adjacent"""
    while True:
        c = rng.random()
        if c < 0.25:
            t = gen_seed(rng)
        elif c < 0.45:
            t = s + (2 ** 31 if (s >> 31) % 2 == 0 else -2 ** 31)
        elif c < 0.6:
            t = s + rng.choice([1, -1]) * 2 ** rng.choice([32, 33, 40, 62, 63])
        elif c < 0.7:
            t = -s
        elif c < 0.78:
            t = s + rng.choice([1, -1]) * 2 ** 64
        elif c < 0.9:
            t = s % 2 ** 31 if s % 2 ** 31 != s else s + 2 ** 31 * rng.randint(1, 3)
        else:
            t = s + rng.choice([1, -1, 2, 2 ** 16])
        if t != s and SEED_LO <= t < SEED_HI:
            return t


def seed_op(rng, cpu=True):
    s = gen_seed(rng)
    op = {"t": "setSeed", "s": s, "cpu": cpu, "alt": gen_partner(rng, s)}
    if rng.random() < 0.3:
        op["gpu"] = True  # no CUDA device in this process: must neither raise nor seed anything else
    return op


# ---------------------------------------------------------------- argument forms (round 5, notes/C14.md "Argument-form sweep")
# Operations whose public call takes boolean / integer options.  Each of them carries two seeds, "fseed" (qc.Flags) and "iseed" (qc.Ints),
# drawn from the case generator's rng; the runner process rebuilds from them the OBJECTS it hands over (bool singleton / 0,1 / numpy.bool_ /
# numpy comparison / 0-d array / 0-d tensor; Python int / numpy.int64,int32,intp,uint8 / 0-d integer array / 0-d integer tensor, for the seed
# also numpy.uint64) and the positional prefix of the call.  The VALUES stay in the operation as plain JSON ints / bools (that is what the
# Lean model is told).  An operation without the two keys is executed with plain Python values in the legacy layout.
FORM_OPS = {"setSeed", "construct", "sample", "obsSample", "statistics", "fit", "eval", "gradient", "batchGradient", "rotate"}


def assign_forms(rng, ops):
    """give every operation with options its two form seeds (once: operations shared between the runs of a history keep theirs)"""
    for o in ops:
        if o["t"] in FORM_OPS and "fseed" not in o:
            o["fseed"] = rng.randrange(2 ** 31)
            o["iseed"] = rng.randrange(2 ** 31)
            if o["t"] == "construct" and rng.random() < 0.2:
                o["gpu"] = True  # no CUDA device in this process: a ResourceWarning, then the CPU; nothing else may change
    return ops


def alt_run(ops, seed_at):
    """run 3: the same operations with every seeding call from `seed_at` on replaced by its partner seed"""
    return [dict(o, s=o["alt"], alt=o["s"]) if (i >= seed_at and o["t"] == "setSeed" and "alt" in o) else o for i, o in enumerate(ops)]


READ_ONLY = {"sample", "obsSample", "statistics", "eval", "metric", "rotate", "gradient", "batchGradient", "save"}

# ---------------------------------------------------------------- the public API <-> operation classes
# Every public callable of the library that takes (or is a method of) a model, as found by INTROSPECTION in the runner process
# (c14_runner.public_api), must be listed here with the operation class(es) that execute it: (t, what) pairs of runner ops, or an
# exclusion with its reason.  A callable that appears in the API but not here breaks the correspondence (aux point
# "public callables without an operation class"); so does an entry that is listed here but never executed in the run.
API_OPS = {
    "qucumber.set_random_seed": [("setSeed", None)],
    "state.sample": [("sample", None)], "state.fit": [("fit", None)], "state.reinitialize_parameters": [("reinit", None)],
    "state.save": [("save", None)], "state.load": [("load", None)],
    "state.compute_batch_gradients": [("batchGradient", None)],
    "state.psi": [("eval", "psi")], "state.rho": [("eval", "psi"), ("eval", "rho2")], "state.pi": [("eval", "pi")],
    "state.amplitude": [("eval", "amplitude")], "state.phase": [("eval", "phase")],
    "state.probability": [("eval", "probability")], "state.normalization": [("eval", "normalization")],
    "state.compute_normalization": [("eval", "compute_normalization")],
    "state.generate_hilbert_space": [("eval", "hilbert_space")], "state.subspace_vector": [("eval", "subspace_vector")],
    "state.importance_sampling_denominator": [("eval", "is_denominator")],
    "state.importance_sampling_numerator": [("eval", "is_numerator")],
    "state.importance_sampling_weight": [("eval", "is_weight")],
    "state.gradient": [("gradient", "gradient")], "state.positive_phase_gradients": [("gradient", "positive_phase")],
    "state.compute_exact_gradients": [("gradient", "exact")], "state.compute_exact_grads": [("gradient", "exact_grads")],
    "state.rotated_gradient": [("gradient", "rotated")], "state.am_grads": [("gradient", "am_grads")],
    "state.ph_grads": [("gradient", "ph_grads")], "state.pi_grad": [("gradient", "pi_grad")],
    "observable.apply": [("eval", "apply")], "observable.sample": [("obsSample", None)],
    "observable.statistics": [("statistics", None)], "observable.statistics_from_samples": [("eval", "sfs")],
    "System.statistics": [("statistics", None)], "System.statistics_from_samples": [("eval", "sys_sfs")],
    "training_statistics.fidelity": [("metric", "fidelity")], "training_statistics.KL": [("metric", "KL")],
    "training_statistics.NLL": [("metric", "NLL")],
    "unitaries.rotate_psi": [("rotate", "rotate_psi")], "unitaries.rotate_rho": [("rotate", "rotate_rho")],
    "unitaries.rotate_psi_inner_prod": [("rotate", "inner_prod")], "unitaries.rotate_rho_probs": [("rotate", "rho_probs")],
}
# the anchored RBM classes' public methods, reachable on a state through `NeuralStateBase.__getattr__` (introspected as "rbm.<name>")
_FWD_EVAL = ["effective_energy", "effective_energy_gradient", "partition", "prob_h_given_v", "prob_v_given_h", "prob_a_given_v",
             "prob_v_given_ha", "mixing_term", "gamma", "gamma_grad"]
API_OPS.update({f"rbm.{n}": [("eval", "fwd_" + n)] for n in _FWD_EVAL})
API_OPS["rbm.gibbs_steps"] = [("batchGradient", "fwd")]
_ONE_STEP = ("one half-step of the Gibbs chain; public only through attribute forwarding; its only caller in the library is gibbs_steps, which IS "
             "executed (through sample / statistics / fit and directly as the forwarded state.gibbs_steps); the direct call has no operation of its "
             "own in the frame model (scope note in claims.d/C14.json)")
API_EXCLUDED = {
    "rbm.initialize_parameters": "WRITES and DRAWS: re-initialises ONE network; the public state-level call is reinitialize_parameters (op `reinit`, all "
                                 "networks), which calls it for every network; the forwarded state.initialize_parameters() (rbm_am only) has no operation "
                                 "of its own in the frame model (scope note in claims.d/C14.json) — listed so that it is visibly NOT read-only",
    "rbm.sample_h_given_v": _ONE_STEP, "rbm.sample_v_given_h": _ONE_STEP, "rbm.sample_a_given_v": _ONE_STEP, "rbm.sample_v_given_ha": _ONE_STEP,
    "state.autoload": "static constructor: builds a NEW object and loads into it (= construct + load; C11 examines it); not a read-only operation",
    "observables.to_01": "pure conversion of a tensor, takes no model", "observables.to_pm1": "pure conversion of a tensor, takes no model",
    "unitaries.create_dict": "builds a dictionary, takes no model",
}


def op_class(op):
    if op["t"] == "batchGradient":
        return (op["t"], "fwd" if op.get("fwd") else None)
    return (op["t"], op.get("what") if op["t"] in ("eval", "metric", "rotate", "gradient") else None)


def check_api(ctx, api, executed):
    """the introspected API against the operation table and against what this run actually executed"""
    case = {"api": api}
    missing = sorted(n for n in api if n not in API_OPS and n not in API_EXCLUDED)
    stale = sorted(n for n in list(API_OPS) + list(API_EXCLUDED) if n not in api)
    ctx.point("public callables without an operation class (introspected API vs the operation table)", "aux", missing, [], case,
              exact=True, sig="api/unclassified", theorem="C14_read_only_ops_ext / C14_read_only_step")
    ctx.point("operation-table entries that are no longer public callables", "aux", stale, [], case, exact=True, sig="api/stale")
    never = sorted(f"{n} -> {t}:{w}" for n, cl in API_OPS.items() if n in api for (t, w) in cl if (t, w) not in executed)
    ctx.point("operation classes of public callables never executed in this run", "aux", never, [], case, exact=True,
              sig="api/not-executed", theorem="C14_read_only_step")
    ctx.count("api_public_callables", len(api))
    ctx.count("api_operation_classes_executed", len({c for cl in API_OPS.values() for c in cl} & set(executed)))

def check_forwarding(ctx, fwd):
    """(extension round 2) attribute forwarding `state.<name>` -> `rbm_am.<name>` (NeuralStateBase.__getattr__ / WaveFunctionBase.__getattr__)
    as the runner observed it on real states, against QV.Frame.resolveMethod / rbmMethods (driver op c14.resolve); the class the model gives
    a forwarded name against the operation table of this harness (whose evaluator / gibbs classes ARE executed, see check_api); and the
    compute_normalization alias. The property constrains what the operations do, not how names are resolved: resolution, the set of forwarded
    names and the alias are RECORDED (ctx.info, audit 3 B11); only `forwarding/class` - the tie of the model's classes to the operation table
    this harness executes - stays auxiliary."""
    if not fwd or ctx.driver is None:
        ctx.count("forwarding probe: not available" if not fwd else "forwarding probe: no driver")
        return
    for kind in ("pos", "cplx", "dens"):
        rows = [r for r in fwd["rows"] if r[0] == kind]
        own = sorted({r[1] for r in rows if r[2]})
        names = [r[1] for r in rows]
        m = ctx.driver.call("c14.resolve", kind=kind, own=own, names=names)
        case = {"forwarding": kind, "own": own, "names": names}
        impl = [[r[1], r[3]] for r in rows]
        model = [[n, o] for n, (o, _c) in zip(names, m["resolved"])]
        # audit 3 (B11): HOW a name is resolved (own method / __getattr__ forwarding / AttributeError - an exception type) is not in C14's
        # text, which constrains what the operations DO: recorded only (explicit delegating methods on the state are as good)
        ctx.info(f"forwarding/resolution/{kind}", impl, model)
        for r in rows:
            ctx.count(f"forwarding: {r[3]}")
        # the model's class of every forwarded name against this harness's operation table
        cls_model = {n: c for n, (o, c) in zip(names, m["resolved"]) if o == "forwarded"}
        cls_table = {}
        for n in cls_model:
            key = "rbm." + n
            if key in API_OPS:
                cls_table[n] = "evaluator" if API_OPS[key] == [("eval", "fwd_" + n)] else "gibbs" if API_OPS[key] == [("batchGradient", "fwd")] else "?"
            elif key in API_EXCLUDED:
                cls_table[n] = "initParams" if n == "initialize_parameters" else "halfStep"
            else:
                cls_table[n] = "unclassified"
        ctx.point(f"class of every forwarded method ({kind}): model table vs operation table", "aux", cls_table, cls_model, case, exact=True,
                  sig=f"forwarding/class/{kind}", theorem="C14_forwarded_read_only")
        tab = sorted(n for n, _c in m["table"])
        seen = sorted(r[1] for r in rows if r[3] == "forwarded")
        # audit 3 (B11): the SET of forwarded names (a new public helper on the RBM, a method that became the state's own) is recorded only
        ctx.info(f"forwarding/table/{kind}", seen, tab)
    # audit 3 (B11): that the alias is computed by the very same route (bit for bit) is not in the property text: recorded only
    ctx.info("forwarding/compute_normalization", [list(a) for a in fwd["alias"]], [[k, True] for k in ("pos", "cplx", "dens")])

THM_DET = "C14_seeded_determinism / C14_frame_rng"
THM_RO = "C14_read_only_step / C14_read_only"


# ------------------------------------------------------------------ running the implementation
_PRE = {}      # (json of the op list, environment name) -> Future of run_impl: runner processes started ahead of time
_POOL = [None]


def _key(ops, envname):
    return (json.dumps(ops, sort_keys=True), envname or None)


def prefetch_corpus(case):
    """The framework replays every stored corpus case first in the ordinary environment and then once under every process-global
    environment of common.ENVS, one `replay` call after the other.  Each is three fresh interpreters; started one case at a time they
    would dominate the quick tier.  On the first replay of a stored corpus case ALL runner processes of all stored cases under all
    environments are started at once (bounded pool); `run_impl` then picks its result up.  Purely a scheduling device: the same op
    lists are executed in the same kind of process, and anything not prefetched is executed on demand."""
    if _POOL[0] is not None:
        return
    cdir = os.path.join(VERIF, "corpus", "C14")
    stored = []
    if os.path.isdir(cdir):
        for f in sorted(os.listdir(cdir)):
            if f.endswith(".json"):
                stored.append(json.load(open(os.path.join(cdir, f)))["case"])
    if not any(c.get("runs") == case["runs"] for c in stored):
        return
    from .common import ENVS
    _POOL[0] = ThreadPoolExecutor(max_workers=max(1, min(8, (os.cpu_count() or 2) // 2)))
    for envname in [None] + list(ENVS):
        for c in stored:
            for ops in c["runs"]:
                if _key(ops, envname) not in _PRE:
                    _PRE[_key(ops, envname)] = _POOL[0].submit(_run_impl, ops, envname)


def run_impl(ops, envname=None, timeout=600):
    """execute one history in a fresh interpreter (inside the named process-global environment, if any); returns the runner's records"""
    f = _PRE.pop(_key(ops, envname), None)
    if f is not None:
        return f.result()
    return _run_impl(ops, envname, timeout)


def _run_impl(ops, envname=None, timeout=600):
    wd = tempfile.mkdtemp(prefix="c14_")
    try:
        env = dict(os.environ)
        env["PYTHONPATH"] = f"{REPO}:{VERIF}"
        env["QV_REPO"] = REPO
        env["PYTHONDONTWRITEBYTECODE"] = "1"
        env["OMP_NUM_THREADS"] = "1"
        env["MKL_NUM_THREADS"] = "1"
        env["OPENBLAS_NUM_THREADS"] = "1"
        env["MKL_CBWR"] = "AUTO"  # MKL's documented run-to-run reproducibility mode
        env.pop("PYTHONHASHSEED", None)
        p = subprocess.run([sys.executable, "-W", "ignore", "-m", "harness.c14_runner"], cwd=VERIF, env=env,
                           input=json.dumps({"ops": ops, "workdir": wd, "env": envname or None}), capture_output=True, text=True, timeout=timeout)
        for line in p.stdout.splitlines():
            if line.startswith("C14RESULT "):
                return json.loads(line[len("C14RESULT "):])
        raise InternalError("c14 runner produced no result: " + (p.stderr or p.stdout)[-1500:])
    finally:
        shutil.rmtree(wd, ignore_errors=True)


# ------------------------------------------------------------------ implementation op -> model op
def _arg(op):
    d = {k: v for k, v in op.items() if k != "slot"}
    return zlib.crc32(json.dumps(d, sort_keys=True).encode())


def model_op(op, kinds):
    """translate an implementation-level operation into the model's operation (frame-relevant
    arguments only; everything else is summarised in `arg`). `kinds[slot]` = kind of the object."""
    t = op["t"]
    if t == "ext":
        w = op["what"]
        return {"t": w, **({"s": op["s"]} if "s" in op else {"m": op["m"]})}
    if t == "setSeed":
        return {"t": t, "s": op["s"], "cpu": op["cpu"]}  # `gpu` has no effect on a process without CUDA
    if t in ("burn", "reinit", "save", "load"):
        return {k: v for k, v in op.items() if k not in ("fseed", "iseed")}
    if t == "construct":
        return {"t": t, "kind": op["kind"], "n": op["n"], "h": op["h"], "a": op.get("a")}
    # the CONTENT of `initial_state` (and `overwrite`) is part of the operation: the value returned is a function of the start
    # chains (k = 0 returns their clone), so equal (k, num, row count) with different rows must not be the same model operation
    if t == "sample":
        return {"t": t, "slot": op["slot"], "k": op["k"], "num": op["num"],
                "init": None if op.get("init") is None else len(op["init"]),
                "arg": _arg({"init": op.get("init"), "ow": bool(op.get("overwrite"))})}
    if t == "obsSample":
        return {"t": t, "slot": op["slot"], "k": op["k"], "num": op["num"],
                "init": None if op.get("init") is None else len(op["init"]),
                "arg": _arg({"obs": op["obs"], "ow": op.get("overwrite"), "init": op.get("init")})}
    if t == "statistics":
        return {"t": t, "slot": op["slot"], "ns": op["ns"], "nc": op["nc"], "bi": op["bi"], "steps": op["steps"],
                "init": None if op.get("init") is None else len(op["init"]),
                "arg": _arg({"obs": op["obs"], "ow": op.get("overwrite"), "init": op.get("init")})}
    if t == "fit":
        bases = op.get("bases")
        M = None if bases is None else sum(1 for b in bases if set(b) <= {"Z"})
        m = {"t": t, "slot": op["slot"], "N": len(op["data"]), "epochs": op["epochs"], "start": op["start"],
             "posB": op["posB"], "negB": op["negB"], "k": op["k"], "bases": M, "arg": _arg(op)}
        if op.get("evaluator") is not None:
            m["evaluator"] = {k: op["evaluator"][k] for k in ("period", "ns", "nc", "bi", "steps")}
        return m
    if t in ("eval", "metric", "rotate", "gradient"):
        return {"t": t, "slot": op["slot"], "arg": _arg(op)}
    if t == "batchGradient":
        return {"t": t, "slot": op["slot"], "k": op["k"], "rows": len(op["neg"]), "arg": _arg(op)}
    raise KeyError(t)


def kinds_of(ops):
    return [o["kind"] for o in ops if o["t"] == "construct"]


# ------------------------------------------------------------------ generators
def bits_rows(rng, rows, n):
    return [[float(rng.randint(0, 1)) for _ in range(n)] for _ in range(rows)]


def rand_basis(rng, n, allow_z=True):
    while True:
        b = "".join(rng.choice("XYZ" if rng.random() < 0.6 else "ZZX") for _ in range(n))
        if allow_z or set(b) != {"Z"}:
            return b


def rand_target(rng, kind, n):
    d = 2 ** n
    if kind != "dens":
        re = [rng.gauss(0, 1) for _ in range(d)]
        im = [rng.gauss(0, 1) if kind == "cplx" else 0.0 for _ in range(d)]
        nrm = math.sqrt(sum(x * x for x in re) + sum(x * x for x in im))
        return [[x / nrm for x in re], [x / nrm for x in im]]
    # rho = A A^dagger / tr
    ar = [[rng.gauss(0, 1) for _ in range(d)] for _ in range(d)]
    ai = [[rng.gauss(0, 1) for _ in range(d)] for _ in range(d)]
    re = [[sum(ar[i][k] * ar[j][k] + ai[i][k] * ai[j][k] for k in range(d)) for j in range(d)] for i in range(d)]
    im = [[sum(ai[i][k] * ar[j][k] - ar[i][k] * ai[j][k] for k in range(d)) for j in range(d)] for i in range(d)]
    tr = sum(re[i][i] for i in range(d))
    return [[[x / tr for x in r] for r in re], [[x / tr for x in r] for r in im]]


def gen_construct(rng, kind=None):
    kind = kind or rng.choice(["pos", "cplx", "dens"])
    n = rng.randint(2, 4 if kind != "dens" else 3)
    h = rng.choice([None, 1, 2, 3, 4]) if kind != "dens" else rng.choice([None, 1, 2, 3])
    a = rng.choice([None, 1, 2]) if kind == "dens" else None
    return {"t": "construct", "kind": kind, "n": n, "h": h, "a": a}


def probe(slot, n):
    """seed probe: k = 0 returns the Bernoulli(1/2) start configuration itself, >= 32 fair bits"""
    return {"t": "sample", "slot": slot, "k": 0, "num": -(-32 // n) + 2, "init": None, "probe": True}


CLASSES = ["sample", "statistics", "fit", "eval", "metric", "rotate", "gradient", "batchGradient", "reinit", "save", "load", "obsSample"]
WEIGHTS = [16, 14, 10, 8, 10, 8, 8, 6, 4, 5, 5, 6]
_CUM = {"sample": 0.0, "statistics": 0.2, "fit": 0.4, "eval": 0.55, "metric": 0.6, "rotate": 0.7, "gradient": 0.8,
        "batchGradient": 0.85, "reinit": 0.9, "save": 0.95, "load": 0.98}


def whats_of(kind):
    """every (class, what) the runner can execute on an object of this kind"""
    wf = kind != "dens"
    ev = ["psi", "probability", "normalization", "apply", "sfs", "sys_sfs", "is_denominator", "is_numerator", "is_weight",
          "hilbert_space", "subspace_vector", "compute_normalization"] + (["amplitude", "phase"] if wf else ["rho2", "pi"])
    ev += ["fwd_" + x for x in (["effective_energy", "effective_energy_gradient", "partition", "prob_h_given_v"]
                                + (["prob_v_given_h"] if wf else ["prob_a_given_v", "prob_v_given_ha", "mixing_term", "gamma", "gamma_grad"]))]
    gr = ["gradient", "positive_phase", "exact"] + {"pos": ["exact_grads"], "cplx": ["rotated", "am_grads", "ph_grads"],
                                                     "dens": ["rotated", "am_grads", "ph_grads", "pi_grad"]}[kind]
    ro = ["rotate_psi", "inner_prod"] if wf else ["rotate_rho", "rho_probs"]
    return {"eval": ev, "gradient": gr, "rotate": ro, "metric": ["fidelity", "KL", "NLL"]}


def all_wants(kind):
    """one request per operation class the API table names, for an object of this kind (save before load)"""
    w = whats_of(kind)
    return (["sample", "sample:ow", "obsSample", "statistics", "statistics:ow", "fit", "fit:evaluator", "batchGradient", "batchGradient:fwd", "reinit", "save", "save:md"]
            + [f"{t}:{x}" for t in ("eval", "metric", "rotate", "gradient") for x in w[t]])


def gen_lib_op(rng, slot, cons, files, want=None):
    """one library operation of class `want` (random class if None; "class:what" forces the variant) on the object in `slot`
    (constructed by `cons`)"""
    kind, n = cons["kind"], cons["n"]
    pos = kind == "pos"
    forced = None
    if want and ":" in want:
        want, forced = want.split(":")
    cls = want or rng.choices(CLASSES, weights=WEIGHTS)[0]
    W = whats_of(kind)
    rows = lambda lo=2, hi=6: bits_rows(rng, rng.randint(lo, hi), n)  # noqa: E731
    some_bases = lambda k: None if pos else [rand_basis(rng, n) for _ in range(k)]  # noqa: E731
    one_obs = lambda: rng.choice(["SigmaX", "SigmaY", "SigmaZ", "Neighbour", "SWAP", "Composite"])  # noqa: E731
    if cls == "obsSample":
        init = rows(1, 4) if rng.random() < 0.4 else None
        op = {"t": "obsSample", "slot": slot, "obs": one_obs(), "k": rng.randint(0, 4), "num": rng.randint(1, 6), "init": init}
        if init is not None and rng.random() < 0.5:
            op["overwrite"] = True
        return op
    c = _CUM[cls]
    if c < 0.16:
        if forced == "ow" or rng.random() < 0.4:
            op = {"t": "sample", "slot": slot, "k": rng.randint(0, 4), "num": rng.randint(1, 5), "init": rows(1, 4)}
            if forced == "ow" or rng.random() < 0.5:
                op["overwrite"] = True  # the caller's chain tensor is overwritten; no parameter may be
            return op
        return {"t": "sample", "slot": slot, "k": rng.randint(0, 5), "num": rng.randint(1, 9), "init": None}
    if c < 0.30:
        obs = rng.choice([["SigmaX"], ["SigmaY"], ["SigmaZ"], ["SigmaXabs"], ["Neighbour"], ["SWAP"], ["Composite"],
                          ["SigmaZ", "SigmaX"], ["SigmaY", "NeighbourP", "SigmaZ"], ["Composite", "SigmaZ"]])
        ns = rng.randint(1, 12)
        op = {"t": "statistics", "slot": slot, "obs": obs, "ns": ns, "nc": rng.choice([0, 1, 2, 3, 5, 20]),
              "bi": rng.randint(0, 6), "steps": rng.randint(0, 3),
              "init": rows(2, 4) if (forced == "ow" or rng.random() < 0.3) else None}
        if op["init"] is not None and (forced == "ow" or rng.random() < 0.5):
            op["overwrite"] = True
        return op
    if c < 0.50:
        N = rng.randint(2, 11) if pos else rng.randint(4, 11)
        data = bits_rows(rng, N, n)
        bases = None
        if not pos:
            bases = [rand_basis(rng, n) for _ in range(N)]
            zrows = rng.sample(range(N), max(2, N // 3))
            for i in zrows:
                bases[i] = "Z" * n
            data[zrows[0]] = [0.0] * n  # two different reference-basis rows: the negative-phase start matters
            data[zrows[1]] = [1.0] * n
        posB = rng.choice([1, 2, 3, 4, N, N + 3])
        negB = rng.choice([None, None, posB, 1, 2, 5])
        ep = rng.randint(1, 3)
        start = rng.choice([1, 1, 2]) if ep >= 2 else 1
        op = {"t": "fit", "slot": slot, "data": data, "bases": bases, "epochs": ep, "start": start, "posB": posB,
              "negB": negB, "k": rng.randint(1, 3), "lr": rng.choice([0.1, 0.01, 0.5]),
              "optimizer": rng.choice(["SGD", "SGD", "Adam", "Adadelta"])}
        if forced == "evaluator" or rng.random() < 0.45:
            # an evaluator callback that samples inside the epoch loop, every `period`-th epoch (the configuration most users run)
            op["evaluator"] = {"period": rng.choice([1, 1, 2, 3]), "obs": rng.choice([["SigmaZ"], ["SigmaX", "SigmaZ"], ["Neighbour"], ["SWAP", "SigmaY"]]),
                               "ns": rng.randint(1, 6), "nc": rng.choice([0, 1, 2, 3, 9]), "bi": rng.randint(0, 3), "steps": rng.randint(0, 2)}
            if rng.random() < 0.5:
                op["epochs"] = ep + rng.randint(1, 2)  # more epochs: evaluator draws between the shuffles of consecutive epochs
        if rng.random() < 0.3:
            op["sched"] = True
        if rng.random() < 0.15:
            op["time"] = True
        if rng.random() < 0.3:
            op["np_data"] = True  # data as numpy.ndarray (the documented type)
        if rng.random() < 0.1:
            op["k"] = 0           # no Gibbs step: the negative phase is the start chains themselves (no Bernoulli draw)
        return op
    if c < 0.58:
        w = forced or rng.choice(W["eval"])
        op = {"t": "eval", "slot": slot, "what": w, "rows": rows(2, 5)}
        if w in ("apply", "sfs"):
            op["obs"] = one_obs()
        if w == "sys_sfs":
            op["obss"] = rng.choice([["SigmaZ", "SigmaX"], ["Composite", "SigmaY"], ["SWAP"]])
        if w in ("rho2", "pi", "is_numerator", "is_weight", "fwd_gamma", "fwd_gamma_grad"):
            op["rows2"] = bits_rows(rng, len(op["rows"]), n)
        if w == "pi":
            op["expand"] = rng.random() < 0.5
        if w == "hilbert_space":
            op["size"] = rng.choice([None, 1, n])
        if w == "subspace_vector":
            op["size"] = rng.choice([None, n])
            op["num"] = rng.randrange(2 ** n)
        return op
    if c < 0.68:
        w = forced or rng.choice(["fidelity", "KL", "NLL"])
        if w == "fidelity":
            return {"t": "metric", "slot": slot, "what": w, "target": rand_target(rng, kind, n)}
        if w == "KL":
            bs = None if pos or rng.random() < 0.3 else [rand_basis(rng, n) for _ in range(rng.randint(1, 2))]
            return {"t": "metric", "slot": slot, "what": w, "target": rand_target(rng, kind, n), "bases": bs}
        r = rows(2, 5)
        return {"t": "metric", "slot": slot, "what": w, "rows": r, "bases": some_bases(len(r)) if rng.random() < 0.7 else None}
    if c < 0.76:
        w = forced or rng.choice(W["rotate"])
        op = {"t": "rotate", "slot": slot, "what": w, "basis": rand_basis(rng, n), "rows": rows(1, 4)}
        if rng.random() < 0.35:
            op["given"] = True  # psi= / rho= given explicitly
        if rng.random() < 0.3:
            op["default_dict"] = True  # unitaries=None
        if w in ("inner_prod", "rho_probs") and rng.random() < 0.3:
            op["extras"] = True
        return op
    if c < 0.84:
        w = forced or rng.choice(W["gradient"])
        r = rows(2, 5)
        op = {"t": "gradient", "slot": slot, "what": w, "rows": r, "bases": some_bases(len(r))}
        if w == "rotated":
            op["basis"] = rand_basis(rng, n, allow_z=False)
        if w == "pi_grad":
            op["rows2"] = bits_rows(rng, len(r), n)
            op["phase"] = rng.random() < 0.5
            op["expand"] = rng.random() < 0.5
        return op
    if c < 0.89:
        r = rows(2, 4)
        op = {"t": "batchGradient", "slot": slot, "k": rng.randint(1, 3), "rows": r, "neg": rows(1, 4),
              "bases": some_bases(len(r))}
        if forced == "fwd" or (forced is None and rng.random() < 0.25):
            op["fwd"] = True  # state.gibbs_steps(k, chains): the RBM's public method through the state's attribute forwarding (same chains, same draws)
            op["k"] = rng.randint(0, 3)
        return op
    if c < 0.93:
        return {"t": "reinit", "slot": slot}
    key = json.dumps([kind, n, cons["h"], cons["a"]])
    cands = sorted(p for p, k in files.items() if k == key)
    if c < 0.97 or not cands:
        path = rng.randint(0, 3)
        files[path] = key  # last writer of that path, in execution order
        op = {"t": "save", "slot": slot, "path": path}
        if forced == "md":
            op["metadata"] = rng.choice([{"epoch": 3}, {"note": "x", "lr": 0.1, "nested": {"a": [1, 2]}}])
        elif rng.random() < 0.4:
            op["metadata"] = rng.choice([{}, {"epoch": 3}, {"note": "x", "lr": 0.1, "nested": {"a": [1, 2]}}])
        return op
    # load a file last written by an object of the same architecture
    return {"t": "load", "slot": slot, "path": rng.choice(cands)}


def gen_ext(rng):
    w = rng.choice(["seedNumpy", "perturbNumpy", "perturbNumpy", "seedPy", "perturbPy", "perturbPy"])
    if w.startswith("seed"):
        return {"t": "ext", "what": w, "s": rng.randint(0, 2 ** 31 - 1)}
    return {"t": "ext", "what": w, "m": rng.randint(1, 40)}


def interleave(rng, core, lo=2):
    """foreign numpy / random operations between the library operations"""
    out = []
    k = 0
    for op in core:
        while rng.random() < 0.45:
            out.append(gen_ext(rng))
            k += 1
        out.append(op)
    while k < lo:
        out.insert(rng.randint(0, len(out)), gen_ext(rng))
        k += 1
    return out


def chain_block(rng, slot, n, idx):
    """the SAME stream position on the SAME unchanged object, three times (re-seeding with one seed; sampling is read-only), with start chains
    A, B, A of equal shape and different content: results 1 and 3 are the same operation at the same stream position (model-equal, must be
    bit-equal), result 2 is a DIFFERENT operation although (k, num_samples, row count) agree — the content of `initial_state` is part of the
    operation (k = 0 returns the clone of the start chains).  Exercises `pattern/results` on what used to alias in the model."""
    sd = seed_op(rng)
    rows = rng.randint(1, 4)
    A = bits_rows(rng, rows, n)
    B = [list(r) for r in A]
    i, j = rng.randrange(rows), rng.randrange(n)
    B[i][j] = 1.0 - B[i][j]
    k, num = idx % 3, rng.randint(1, 5)  # k = 0: the result IS the start chains; k > 0: a function of them and of the stream
    cls = rng.choice(["sample", "sample", "obsSample"])
    out = []
    for init, ow in ((A, False), (B, False), (A, False), (A, True)):
        op = {"t": cls, "slot": slot, "k": k, "num": num, "init": [list(r) for r in init]}
        if cls == "obsSample":
            op["obs"] = "SigmaZ"
        if ow:
            op["overwrite"] = True
        out += [dict(sd), op]
    return out


def gen_history(rng, idx):
    """returns the case: three explicit op lists + the slot `b` from which parameters are compared"""
    main = seed_op(rng)
    junk = idx % 3 == 2  # an unseeded object built before the seeding (slot 0, never addressed later)
    b = 1 if junk else 0
    core = []
    cons = {}
    files = {}
    kinds_wanted = [["pos", "cplx", "dens"][(idx + idx // 3) % 3]]
    nobj = rng.randint(1, 3)
    length = rng.randint(8, 16)
    slot_next = b
    for j in range(nobj):
        c = gen_construct(rng, kinds_wanted[j] if j == 0 else None)
        core.append(c)
        cons[slot_next] = c
        core.append(probe(slot_next, c["n"]))
        slot_next += 1
        # the first object gets every class of operation once (save before load), later ones a random selection
        wants = [None] * max(1, length // nobj)
        if j == 0:
            # every operation class the API table names for this kind, once (save before load), plus a random selection
            wants = all_wants(c["kind"]) + [None] * (length // 3)
            rng.shuffle(wants)
            wants.insert(rng.randint(wants.index("save") + 1, len(wants)), "load")
        for w in wants:
            slot = min(cons) if w is not None else rng.choice(sorted(cons))
            core.append(gen_lib_op(rng, slot, cons[slot], files, w))
    if idx % 4 == 1:
        # cpu=False: not a seeding of the CPU generator, whatever the value (even one torch would refuse) and whatever `gpu`
        op = seed_op(rng, cpu=False)
        if rng.random() < 0.3:
            op["s"] = rng.choice([2 ** 64, -2 ** 63 - 1, 2 ** 70 + 3])
            op["alt"] = op["s"] + 1
        core.insert(rng.randint(3, len(core)), op)
    if idx % 2 == 0:
        # a second seeding in mid-history (runs 1, 2: the same seed; run 3: its partner), followed by a probe
        at = rng.randint(3, len(core))
        core[at:at] = [seed_op(rng), probe(min(cons), cons[min(cons)]["n"])]
    if idx % 5 == 3:
        core.insert(rng.randint(3, len(core)), {"t": "burn", "m": rng.randint(1, 9)})
    core += chain_block(rng, min(cons), cons[min(cons)]["n"], idx)
    for slot in sorted(cons):
        core.append(probe(slot, cons[slot]["n"]))
    runs = []
    for r in range(2):
        pre = [{"t": "ext", "what": "seedNumpy", "s": rng.randint(0, 2 ** 31 - 1)},
               {"t": "ext", "what": "seedPy", "s": rng.randint(0, 2 ** 31 - 1)}]
        if rng.random() < 0.5:
            pre.append({"t": "setSeed", "s": gen_seed(rng), "cpu": True})
        pre.append({"t": "burn", "m": rng.randint(1, 50)})
        if junk:
            pre.append({"t": "construct", "kind": "pos", "n": 2, "h": 2, "a": None})
        pre += [gen_ext(rng) for _ in range(rng.randint(0, 2))]
        runs.append({"pre": pre, "body": interleave(rng, core)})
    ops = [runs[0]["pre"] + [main] + runs[0]["body"],
           runs[1]["pre"] + [main] + runs[1]["body"]]
    assign_forms(rng, ops[0] + ops[1])  # (the library operations are the same objects in both lists; run 3 is derived below)
    ops.append(alt_run(ops[0], len(runs[0]["pre"])))
    return {"name": f"h{idx}", "runs": ops, "b": b, "seed_at": [len(runs[0]["pre"]), len(runs[1]["pre"]), len(runs[0]["pre"])]}


def gen_seed_sweep(rng, idx):
    """a history that is mostly seeding calls: 10..14 seedings from the whole seed range (each with a partner for run 3), every one
    followed by a k=0 probe and a construction / re-initialisation / Gibbs sample / small fit, so that initialisation, samples and
    trained parameters are compared between seeds that torch distinguishes and between seeds that torch identifies"""
    kind = ["pos", "cplx", "dens"][idx % 3]
    c0 = gen_construct(rng, kind)
    core = [c0, probe(0, c0["n"])]
    cons, files = {0: c0}, {}
    fixed_pairs = [(7, 7 + 2 ** 31), (0, 2 ** 31), (2 ** 31 + 2 ** 30 + 11, 2 ** 30 + 11), (5, -5), (-1, 2 ** 31 - 1), (3, 3 + 2 ** 32),
                   (2 ** 63 - 1, 2 ** 31 - 1), (-1, 2 ** 64 - 1), (2 ** 40, 0), (2 ** 63, -2 ** 63)]
    rng.shuffle(fixed_pairs)
    for j in range(rng.randint(10, 14)):
        op = seed_op(rng)
        if j % 2 == 0:
            a, b = fixed_pairs[(j // 2) % len(fixed_pairs)]
            if rng.random() < 0.5:
                a, b = b, a
            op["s"], op["alt"] = a, b
        core.append(op)
        slot = rng.choice(sorted(cons))
        core.append(probe(slot, cons[slot]["n"]))
        what = ["construct", "reinit", "sample", "fit", "burn"][j % 5]
        if what == "construct" and len(cons) < 3:
            c = gen_construct(rng)
            cons[len(cons)] = c
            core.append(c)
        elif what == "burn":
            core.append({"t": "burn", "m": rng.randint(1, 9)})
        else:
            core.append(gen_lib_op(rng, slot, cons[slot], files, what if what != "construct" else "sample"))
        core.append(probe(slot, cons[slot]["n"]))
    runs = []
    for r in range(2):
        pre = [{"t": "ext", "what": "seedNumpy", "s": rng.randint(0, 2 ** 31 - 1)}, {"t": "ext", "what": "seedPy", "s": rng.randint(0, 2 ** 31 - 1)},
               {"t": "burn", "m": rng.randint(1, 50)}]
        runs.append({"pre": pre, "body": interleave(rng, core)})
    main = seed_op(rng)
    ops = [runs[0]["pre"] + [main] + runs[0]["body"], runs[1]["pre"] + [main] + runs[1]["body"]]
    assign_forms(rng, ops[0] + ops[1])
    ops.append(alt_run(ops[0], len(runs[0]["pre"])))
    return {"name": f"sweep{idx}", "runs": ops, "b": 0, "seed_at": [3, 3, 3]}


def malformed_histories():
    """fixed histories exercising the error cases of the model"""
    data = [[0.0, 1.0], [1.0, 1.0], [1.0, 0.0], [0.0, 0.0]]
    core = [
        {"t": "construct", "kind": "cplx", "n": 2, "h": 2, "a": None},
        probe(0, 2),
        {"t": "sample", "slot": 3, "k": 1, "num": 2, "init": None},                       # missing slot
        {"t": "statistics", "slot": 0, "obs": ["SigmaZ"], "ns": 0, "nc": 2, "bi": 1, "steps": 1, "init": None},
        {"t": "fit", "slot": 0, "data": data, "bases": ["ZZ", "XZ", "ZZ", "ZY"], "epochs": 2, "start": 1, "posB": 0,
         "negB": None, "k": 1, "lr": 0.1, "optimizer": "SGD"},                             # ceil(N / 0)
        {"t": "fit", "slot": 0, "data": data, "bases": None, "epochs": 2, "start": 1, "posB": 2,
         "negB": None, "k": 1, "lr": 0.1, "optimizer": "SGD"},                             # no bases
        {"t": "fit", "slot": 0, "data": data, "bases": ["XZ", "XZ", "ZY", "ZY"], "epochs": 2, "start": 1, "posB": 2,
         "negB": None, "k": 1, "lr": 0.1, "optimizer": "SGD"},                             # no reference-basis rows
        {"t": "fit", "slot": 0, "data": data, "bases": ["ZZ", "XZ", "ZZ", "ZY"], "epochs": 1, "start": 2, "posB": 2,
         "negB": None, "k": 1, "lr": 0.1, "optimizer": "SGD"},                             # empty epoch range
        {"t": "load", "slot": 0, "path": 9},                                               # missing file
        {"t": "construct", "kind": "pos", "n": 3, "h": 0, "a": None},                      # num_hidden=0 -> n
        {"t": "fit", "slot": 1, "data": [[0.0, 1.0, 1.0]] * 5, "bases": None, "epochs": 2, "start": 1, "posB": 7,
         "negB": 0, "k": 2, "lr": 0.1, "optimizer": "SGD"},                                # negB=0 -> posB, posB > N
        probe(0, 2), probe(1, 3),
        {"t": "setSeed", "s": 2 ** 64, "cpu": True},                                       # torch refuses: ValueError, nothing is seeded
        probe(0, 2),
        {"t": "setSeed", "s": -2 ** 63 - 1, "cpu": True, "gpu": True},
        {"t": "setSeed", "s": 2 ** 64 + 5, "cpu": False, "gpu": True},                     # cpu=False: torch is never asked
        {"t": "setSeed", "s": -2 ** 63, "cpu": True, "alt": 2 ** 63},                      # smallest accepted seed = the seed word 2^63
        probe(1, 3),
        {"t": "setSeed", "s": 2 ** 64 - 1, "cpu": True, "alt": -1}, probe(0, 2),           # largest accepted seed = -1
    ]
    pre1 = [{"t": "ext", "what": "seedNumpy", "s": 1}, {"t": "burn", "m": 3}]
    pre2 = [{"t": "ext", "what": "seedPy", "s": 2}, {"t": "burn", "m": 11}, {"t": "ext", "what": "perturbNumpy", "m": 5}]
    body1 = core[:4] + [{"t": "ext", "what": "perturbPy", "m": 3}] + core[4:]
    body2 = core[:2] + [{"t": "ext", "what": "perturbNumpy", "m": 2}] + core[2:9] + [{"t": "ext", "what": "seedPy", "s": 5}] + core[9:]
    sd = {"t": "setSeed", "s": 1234, "cpu": True, "alt": 4321}
    for i, o in enumerate([sd] + pre1 + pre2 + core):  # fixed form seeds (this history is not drawn from the rng)
        if o["t"] in FORM_OPS:
            o["fseed"], o["iseed"] = 7001 + 2 * i, 9001 + 2 * i
    return [{"name": "malformed", "runs": [pre1 + [sd] + body1, pre2 + [sd] + body2, alt_run(pre1 + [sd] + body1, len(pre1))], "b": 0,
             "seed_at": [len(pre1), len(pre2), len(pre1)]}]


# ------------------------------------------------------------------ one case
def model_runs(ctx, case):
    if ctx.driver is None:
        return None
    out = []
    for r, ops in enumerate(case["runs"]):
        kinds = kinds_of(ops)
        mops = [model_op(o, kinds) for o in ops]
        out.append(ctx.driver.call("c14.run", ops=mops, torch=[1000 + r, 0], numpy=[2000 + r, 0], py=[3000 + r, 0]))
    return out


def closed_form(ctx, op, ops):
    """the model's closed-form draw count (driver op c14.counts) for construct / reinit / sample / statistics / fit"""
    t = op["t"]
    if t not in ("construct", "reinit", "sample", "obsSample", "statistics", "fit", "batchGradient"):
        return None
    cons = [o for o in ops if o["t"] == "construct"]
    c = op if t == "construct" else (cons[op["slot"]] if op["slot"] < len(cons) else None)
    if c is None:
        return None
    req = {"kind": c["kind"], "n": c["n"], "h": c["h"], "a": c.get("a")}
    m = model_op(op, None)
    if t in ("sample", "obsSample"):
        req["sample"] = {"k": m["k"], "num": m["num"], "init": m["init"]}
    if t == "batchGradient":
        req["sample"] = {"k": m["k"], "num": 0, "init": m["rows"]}
    if t == "statistics":
        req["stat"] = {k: m[k] for k in ("ns", "nc", "bi", "steps", "init")}
    if t == "fit":
        req["fit"] = {k: m[k] for k in ("N", "epochs", "start", "posB", "negB", "k", "bases")}
        if "evaluator" in m:
            req["fit"]["evaluator"] = m["evaluator"]
    res = ctx.driver.call("c14.counts", **req)
    key = {"construct": "init", "reinit": "init", "sample": "sample", "obsSample": "sample", "batchGradient": "sample",
           "statistics": "stat", "fit": "fit"}[t]
    return res[key]


def lib_indices(ops, seed_at):
    """indices of the non-foreign operations after the seeding call"""
    return [i for i, o in enumerate(ops) if i > seed_at and o["t"] != "ext"]


def check_case(ctx, case, impl):
    """all comparisons for one history; impl = [records of run 1, 2, 3]"""
    name = case["name"]
    b = case["b"]
    runs = case["runs"]
    model = model_runs(ctx, case)
    has = {o["t"] for o in runs[0]}
    kinds = set(kinds_of(runs[0]))
    next_ok = all(sum(1 for o in ops if o["t"] == "ext") >= 2 for ops in runs[:2])
    nontrivial = bool(has & {"fit"}) and (("statistics" in has) or ("save" in has and "load" in has) or len(kinds) >= 2) and next_ok
    ctx.case({"runs": runs}, nontrivial=nontrivial,
             sample={"name": name, "ops_run1": [o["t"] + (":" + o.get("what", "") if "what" in o else "") for o in runs[0]][:40],
                     "b": b})
    for o in runs[0]:
        ctx.count("op=" + o["t"] + (":" + o["what"] if o["t"] in ("ext", "metric", "rotate", "gradient", "eval") else ""))
        if o["t"] == "construct":
            ctx.count("kind=" + o["kind"])
        if o["t"] == "setSeed":
            ctx.count(f"seed_class={seed_class(o['s'])}/cpu={o['cpu']}" + ("/gpu" if o.get("gpu") else ""))
        if o["t"] == "fit":
            ctx.count("fit_optimizer=" + o["optimizer"])
            ctx.count("fit_data=" + ("numpy.ndarray" if o.get("np_data") else "torch.Tensor"))
            ctx.count("fit_k=" + ("0" if o["k"] == 0 else ">=1"))
            ctx.count("fit_negB=" + ("default" if not o["negB"] else ("same" if o["negB"] == o["posB"] else "different")))
    ctx.count("histories")
    for rec in impl[0]["records"]:  # the forms the runner process actually handed over (run 1)
        for nm, form, pos in rec.get("forms", []):
            ctx.count(f"arg {nm} given as {form}")
            ctx.count(("flag_form=" if form in ("int", "np_bool", "np_cmp", "np_0d", "torch_0d") else "int_form=" if form != "py" else "form=") + form
                      + (":positional" if pos else ":keyword"))
        for call, p in rec.get("layout", []):
            ctx.count(f"call {call} options handed over positionally: {p}")

    # ---------- per-run, per-operation observations
    for r in range(3):
        recs = impl[r]["records"]
        ops = runs[r]
        for i, (op, rec) in enumerate(zip(ops, recs)):
            where = {"history": name, "run": r + 1, "index": i, "op": {k: v for k, v in op.items() if k not in ("data", "target")}}
            ccase = {"runs": runs, "b": b, "seed_at": case["seed_at"], "name": name, "focus": where}
            lib = op["t"] != "ext"
            changed = [j for j, (x, y) in enumerate(zip(rec["params_before"], rec["params_after"])) if x != y]
            changed += list(range(len(rec["params_before"]), len(rec["params_after"])))  # freshly constructed objects
            # property oracle: read-only operations leave every parameter of every object unchanged
            if op["t"] in READ_ONLY:
                ctx.oracle("read-only op leaves all parameters unchanged", not changed, ccase,
                           detail={"changed_slots": changed, "op": where["op"]}, sig=f"read-only/{op['t']}", theorem=THM_RO)
            # property oracle (independent of the model): the seeding call hands the seed to torch as it is
            if op["t"] == "setSeed":
                ref = torch_stream(op["s"])
                unchanged = rec["rng_before"]["torch"] == rec["rng_after"]["torch"]
                # Values torch.manual_seed refuses are not seeds ("all seeds" = what the seeding call can hand to torch): for them only
                # "nothing is seeded" is judged; WHICH exception class is raised, and whether cpu=False with such a value raises at all
                # (an early range check would), is counted, not demanded.
                if not op["cpu"]:
                    if "refused" in ref:
                        ok = unchanged and not rec["seeds"]
                        ctx.count("refused value with cpu=False: " + ("raises " + str(rec["out"].get("error")) if rec["out"]["kind"] == "err" else "accepted silently"))
                    else:
                        ok = unchanged and rec["out"]["kind"] == "none" and not rec["seeds"]
                    what = "set_random_seed(cpu=False) neither touches torch's CPU generator nor (for a value torch accepts) raises (gpu on or off)"
                elif "refused" in ref:
                    ok = unchanged and rec["out"]["kind"] == "err"
                    ctx.count(f"refused seed raises {rec['out'].get('error')} (torch itself: {ref['refused']})")
                    what = "set_random_seed(s) with a value torch.manual_seed refuses raises and seeds nothing"
                else:
                    ok = rec["out"]["kind"] == "none" and rec["rng_after"]["torch"] == ref["state"]
                    what = "after set_random_seed(s) torch's CPU generator is in exactly the state torch.manual_seed(s) produces"
                ctx.oracle(what, ok, ccase, detail={"seed": op["s"], "cpu": op["cpu"], "gpu": op.get("gpu", False), "result": rec["out"],
                                                    "state_after": rec["rng_after"]["torch"], "torch_reference": ref,
                                                    "state_unchanged": unchanged, "seeding_calls": rec["seeds"]},
                           sig=f"seeding/{'cpu' if op['cpu'] else 'nocpu'}/{seed_class(op['s'])}", theorem="C14_seed_accepted / C14_seed_rejected")
            # result kinds of the error cases actually raise what is expected to be raised
            if model is not None:
                m = model[r]["trace"][i]
                mo = m["out"]
                io = rec["out"]
                # raised / not raised only: the exception CLASS of the malformed calls (ZeroDivisionError for pos_batch_size=0, …) is not
                # something the property constrains — an added argument check with another class is harmless; classes are counted
                # (a value torch refuses handed over with cpu=False is outside the quantifier: raised-or-not is counted by the oracle above)
                if not (op["t"] == "setSeed" and not op["cpu"] and not seed_ok(op["s"])):
                    ctx.point("result kind (none / value / raised)", "aux", io["kind"], mo["kind"], ccase, exact=True, sig=f"outkind/{op['t']}")
                if io["kind"] == "err" and mo["kind"] == "err":
                    ctx.count(f"error class {op['t']}: " + ("as modelled" if io.get("error") == mo.get("error") else f"{io.get('error')} (model: {mo.get('error')})"))
                # WHICH torch function produces the elements (bernoulli / rand_like < p / ...) and in which order the calls of one
                # operation are made is an implementation detail; the frame model is about HOW MUCH of the global stream an
                # operation consumes: only the element total per operation is compared (the ordered lists stay in the replay detail)
                ctx.point("elements drawn from torch's global stream by this operation = model draws", "aux",
                          sum(c[1] for c in rec["calls"]), m["draws"], ccase, exact=True, sig=f"draws/{op['t']}",
                          theorem="C14_draw_count_step")
                if r == 0:
                    cf = closed_form(ctx, op, ops)
                    if cf is not None and io["kind"] != "err":
                        ctx.point("torch draws = closed form in the arguments", "aux", sum(c[1] for c in rec["calls"]), cf, ccase,
                                  exact=True, sig=f"closed-form/{op['t']}", theorem="C14_draw_count_closed_forms")
                t_adv = rec["rng_before"]["torch"] != rec["rng_after"]["torch"]
                ctx.point("torch generator state changed", "aux", t_adv, m["torch_before"] != m["torch_after"], ccase, exact=True,
                          sig=f"torch-advance/{op['t']}", theorem="C14_draw_count_step")
                ctx.point("numpy generator state changed", "aux", rec["rng_before"]["numpy"] != rec["rng_after"]["numpy"],
                          m["numpy_changed"], ccase, exact=True, sig=f"numpy-state/{op['t']}", theorem="C14_frame_rng_unchanged")
                ctx.point("python random state changed", "aux", rec["rng_before"]["py"] != rec["rng_after"]["py"],
                          m["py_changed"], ccase, exact=True, sig=f"py-state/{op['t']}", theorem="C14_frame_rng_unchanged")
                ctx.point("parameters written outside the model's write set", "aux",
                          sorted(set(changed) - set(m["written"])), [], ccase, exact=True, sig=f"write-set/{op['t']}",
                          theorem="C14_read_only_step / C14_read_only_other_objects")
                if op["t"] != "setSeed":  # (how set_random_seed reaches torch is judged by the generator state, see the oracle above)
                    ctx.point("re-seeding calls made by an operation that is not a seeding", "aux", rec["seeds"], [], ccase, exact=True,
                              sig=f"seeding/{op['t']}")
                if m["written"] and not changed and lib:
                    ctx.count("model-write-without-observed-change")
            # model-free frame observation: library code never touches numpy's / Python's global generator
            if lib:
                ctx.oracle("library op leaves numpy/random generator states unchanged",
                           rec["rng_before"]["numpy"] == rec["rng_after"]["numpy"]
                           and rec["rng_before"]["py"] == rec["rng_after"]["py"], ccase, detail={"op": where["op"]},
                           sig=f"foreign-rng/{op['t']}", theorem="C14_frame_rng_unchanged")

    # ---------- run 1 vs run 2: bitwise identity after the seeding
    L = [lib_indices(runs[r], case["seed_at"][r]) for r in range(3)]
    ccase = {"runs": runs, "b": b, "seed_at": case["seed_at"], "name": name}
    if len(L[0]) != len(L[1]):
        raise InternalError("generator bug: library parts differ")
    res_eq, par_eq, tor_eq, first = [], [], [], None
    for k, (i1, i2) in enumerate(zip(L[0], L[1])):
        a, c = impl[0]["records"][i1], impl[1]["records"][i2]
        oa = {k2: v for k2, v in a["out"].items() if k2 != "msg"}
        oc = {k2: v for k2, v in c["out"].items() if k2 != "msg"}
        e1 = oa == oc
        e2 = a["params_after"][b:] == c["params_after"][b:]
        res_eq.append(e1)
        par_eq.append(e2)
        tor_eq.append(a["rng_after"]["torch"] == c["rng_after"]["torch"])
        if first is None and not (e1 and e2):
            first = {"lib_op_number": k, "index_run1": i1, "index_run2": i2,
                     "op": {k2: v for k2, v in runs[0][i1].items() if k2 not in ("data", "target")},
                     "result_run1": oa, "result_run2": oc,
                     "params_run1": a["params_after"], "params_run2": c["params_after"],
                     "params_l1_run1": a.get("params_l1"), "params_l1_run2": c.get("params_l1")}
    ok = all(res_eq) and all(par_eq)
    ctx.oracle("two identically seeded runs give bit-identical results and parameters", ok, ccase, detail=first,
               sig="two-run/" + (first["op"]["t"] if first else "ok"), theorem=THM_DET)
    ctx.oracle("two identically seeded runs leave torch's generator in the same state after every operation", all(tor_eq),
               ccase, sig="two-run/torch-state", theorem="C14_draw_count")
    if model is not None:
        m_res = [model[0]["trace"][i1]["out"] == model[1]["trace"][i2]["out"] for i1, i2 in zip(L[0], L[1])]
        m_par = [model[0]["trace"][i1]["params"][b:] == model[1]["trace"][i2]["params"][b:] for i1, i2 in zip(L[0], L[1])]
        ctx.point("two-run equality of results (per library op)", "property", res_eq, m_res, ccase, exact=True,
                  sig="two-run/results", theorem=THM_DET)
        ctx.point("two-run equality of parameters (per library op, slots >= b)", "property", par_eq, m_par, ccase, exact=True,
                  sig="two-run/params", theorem=THM_DET)
        # the model's `run` (the function the theorems are about) records the same results as the step-by-step trace
        for r in range(3):
            tr = [t["out"] for t in model[r]["trace"] if not t["external"]]
            ctx.point("run = trace", "aux", tr, model[r]["outs"], ccase, exact=True, sig="model/run-vs-trace")
            last = max(i for i, o in enumerate(runs[r]) if o["t"] == "setSeed" and o["cpu"] and seed_ok(o["s"]))
            ctx.point("position of torch's stream = sum of draws since the last accepted seeding", "aux", model[r]["final_torch"][1],
                      sum(t["draws"] for t in model[r]["trace"][last + 1:]), ccase, exact=True,
                      sig="model/hist-draws", theorem="C14_draw_count")
            ctx.point("seed word of torch's generator = the last accepted seed modulo 2^64", "aux", model[r]["final_torch"][0],
                      torch_stream(runs[r][last]["s"])["word"], ccase, exact=True, sig="model/seed-word", theorem="C14_seed_accepted")
        # equality pattern: wherever the model's tokens coincide (across runs 1 and 2 and within a run), the bytes coincide
        tok_par, tok_res = {}, {}
        for r in range(2):
            for i in range(len(runs[r])):
                m = model[r]["trace"][i]
                rec = impl[r]["records"][i]
                for j, (tk, hv) in enumerate(zip(m["params"], rec["params_after"])):
                    if j >= b:
                        tok_par.setdefault(tk, set()).add(hv)
                if m["out"]["kind"] == "val" and rec["out"]["kind"] == "val":
                    tok_res.setdefault(m["out"]["token"], set()).add(rec["out"]["hash"])
        bad_p = sorted(str(t) for t, hs in tok_par.items() if len(hs) > 1)
        bad_r = sorted(str(t) for t, hs in tok_res.items() if len(hs) > 1)
        ctx.point("model-equal parameters are bit-equal (load/save, untouched objects, both runs)", "property", bad_p, [], ccase,
                  exact=True, sig="pattern/params", theorem="C14_read_only / C14_seeded_determinism")
        ctx.point("model-equal results are bit-equal", "property", bad_r, [], ccase, exact=True, sig="pattern/results",
                  theorem=THM_DET)
        ctx.count("distinct_param_tokens", len(tok_par))

    # ---------- run 3: other seeds give other draws — exactly when torch's own streams for the two seeds differ
    # `cur`: the seeds in force in runs 1 and 3 (last accepted cpu seeding); `eq_so_far`: every seeding so far paired seeds with the
    # same torch stream (then run 3 must be bit-identical to run 1: results depend on the seed through its stream only)
    if len(L[0]) != len(L[2]):
        raise InternalError("generator bug: library parts of runs 1 and 3 differ")
    cur = (runs[0][case["seed_at"][0]]["s"], runs[2][case["seed_at"][2]]["s"])  # the seeding call that starts the compared part
    eq_so_far = same_stream(*cur)
    n_diff = n_same = 0
    bad_same, bad_diff, bad_equal = [], [], []
    m_same_probe, i_same_probe = [], []
    any_sample_differs = False
    for i1, i3 in zip(L[0], L[2]):
        o1, o3 = runs[0][i1], runs[2][i3]
        if o1["t"] == "setSeed" and o1["cpu"] and seed_ok(o1["s"]) and seed_ok(o3["s"]):
            cur = (o1["s"], o3["s"])
            eq_so_far = eq_so_far and same_stream(*cur)
            ctx.count("seed_pair=" + ("same-word" if torch_stream(cur[0])["word"] == torch_stream(cur[1])["word"] else
                                      "same-stream" if same_stream(*cur) else
                                      "same-mod-2^31" if (cur[0] - cur[1]) % 2 ** 31 == 0 else "other"))
            continue
        a, c = impl[0]["records"][i1], impl[2]["records"][i3]
        oa = {k2: v for k2, v in a["out"].items() if k2 != "msg"}
        oc = {k2: v for k2, v in c["out"].items() if k2 != "msg"}
        info = {"lib_index_run1": i1, "seeds": list(cur), "op": {k2: v for k2, v in o1.items() if k2 not in ("data", "target")}}
        if eq_so_far and (oa != oc or a["params_after"][b:] != c["params_after"][b:]):
            bad_equal.append(info)
        if o1["t"] == "sample" and o1.get("init") is None and oa != oc:
            any_sample_differs = True
        if o1.get("probe"):
            same = oa.get("hash") == oc.get("hash")
            if same:
                i_same_probe.append(i1)
            if same_stream(*cur):
                n_same += 1
                if not same:
                    bad_same.append(info)
            else:
                n_diff += 1
                if same:
                    bad_diff.append(info)
            # a k=0 probe returns the drawn Bernoulli(1/2) start configuration itself: the model's token of the drawn values
            if model is not None and model[0]["trace"][i1]["drawn"] == model[2]["trace"][i3]["drawn"]:
                m_same_probe.append(i1)
    ctx.oracle("a different seed yields different draws: every k=0 sample probe (>= 32 fair bits) after a seeding differs between two "
               "seeds whose torch streams differ (torch.Generator().manual_seed(a) vs (b), measured independently of the library)",
               not bad_diff, ccase, detail={"identical_probes": bad_diff[:4], "probes_with_different_streams": n_diff},
               sig="different-seed/probe", theorem="C14_different_seed_partial (not proved: streams of different seed words differ)")
    ctx.oracle("seeds that torch itself maps to the same stream give the same draws (probe by probe)", not bad_same, ccase,
               detail={"differing_probes": bad_same[:4], "probes_with_equal_streams": n_same}, sig="different-seed/same-stream-probe",
               theorem="C14_same_stream_same_results")
    ctx.oracle("while all seedings so far used seeds with the same torch stream, run 3 is bit-identical to run 1 (results and parameters)",
               not bad_equal, ccase, detail={"first_differences": bad_equal[:3]}, sig="different-seed/same-stream-run",
               theorem="C14_same_stream_same_results")
    if n_diff:
        ctx.oracle("a different seed changes at least one drawn sample", any_sample_differs, ccase, sig="different-seed/any-sample")
    if model is not None:
        ctx.point("probes identical across seeds", "aux", i_same_probe, m_same_probe, ccase, exact=True, sig="different-seed/model",
                  theorem="C14_same_stream_same_results")
    ctx.count("seed_probes_different_stream", n_diff)
    ctx.count("seed_probes_same_stream", n_same)


def first_two_run_diff(case, impl):
    """index (among the library operations after the seeding) of the first operation at which run 1 and run 2 differ
    in result, parameters (slots >= b) or torch generator state; None if they agree everywhere"""
    b = case["b"]
    L = [lib_indices(case["runs"][r], case["seed_at"][r]) for r in range(2)]
    for k, (i1, i2) in enumerate(zip(L[0], L[1])):
        a, c = impl[0]["records"][i1], impl[1]["records"][i2]
        oa = {k2: v for k2, v in a["out"].items() if k2 != "msg"}
        oc = {k2: v for k2, v in c["out"].items() if k2 != "msg"}
        if oa != oc or a["params_after"][b:] != c["params_after"][b:] or a["rng_after"]["torch"] != c["rng_after"]["torch"]:
            return {"lib_op_number": k, "op": {k2: v for k2, v in case["runs"][0][i1].items() if k2 not in ("data", "target")},
                    "params_l1_run1": a.get("params_l1"), "params_l1_run2": c.get("params_l1")}
    return None


def run_cases(ctx, cases):
    jobs = [(ci, r) for ci in range(len(cases)) for r in range(3)]
    workers = max(1, min(8, (os.cpu_count() or 2) // 2))
    envname = getattr(ctx, "env_name", None)  # the caller's process-global environment is re-created INSIDE the runner processes
    with ThreadPoolExecutor(max_workers=workers) as ex:
        results = list(ex.map(lambda j: run_impl(cases[j[0]]["runs"][j[1]], envname), jobs))
    for ci, case in enumerate(cases):
        impl = results[3 * ci: 3 * ci + 3]
        # the three processes must have imported the same qucumber source (the tree under test may be edited concurrently)
        attempts = 0
        while len({x for im in impl for x in im["src"]}) != 1:
            attempts += 1
            if attempts > 2:
                raise InternalError("the qucumber source tree keeps changing while the check runs")
            ctx.count("source_changed_during_history_reexecuted")
            ctx.note(f"history {case['name']}: the qucumber source tree changed while its three processes ran; re-executed")
            impl = [run_impl(ops, envname) for ops in case["runs"]]
        d = first_two_run_diff(case, impl)
        if d is not None:
            # Confirmation. Both op lists seed numpy / random explicitly, so a dependence of the library on those sources (or
            # on anything else in the op lists) reproduces when the same two op lists are executed again in fresh processes.
            # A difference that does NOT reproduce is run-to-run nondeterminism of the runtime (torch / BLAS kernels), which the
            # PARTIAL claim excludes; it is recorded in the evidence, not reported as a violation of the library.
            with ThreadPoolExecutor(max_workers=2) as ex:
                again = list(ex.map(lambda r: run_impl(case["runs"][r], envname), range(2)))
            d2 = first_two_run_diff(case, again + [impl[2]])
            ctx.count("two_run_difference_reexecuted")
            if d2 is None:
                ctx.count("two_run_difference_not_reproduced")
                ctx.note(f"history {case['name']}: runs 1 and 2 differed at library op {d['lib_op_number']} ({d['op']['t']}; "
                         f"|params|_1 {d['params_l1_run1']} vs {d['params_l1_run2']}) but agreed bit for bit when both op lists "
                         "were executed again in fresh processes: run-to-run nondeterminism of the runtime, outside the claim")
            if {x for im in again for x in im["src"]} == {x for x in impl[2]["src"]}:
                impl = again + [impl[2]]
        if impl[0].get("env") and impl[0]["env"][0]:
            e = impl[0]["env"]
            ctx.count(f"runner processes inside environment {e[0]}: default dtype {e[1]}, grad enabled {e[2]}, cwd changed {e[3]}")
        if impl[0].get("api") is not None:
            ctx.c14_api = impl[0]["api"]
            ctx.c14_fwd = impl[0].get("fwd")
        done = getattr(ctx, "c14_executed", set())
        for op, rec in zip(case["runs"][0], impl[0]["records"]):
            if rec["out"]["kind"] != "err":
                done.add(op_class(op))
        ctx.c14_executed = done
        check_case(ctx, case, impl)


def gen_cases(ctx, count, sweeps=1):
    return ([gen_history(ctx.rng, i) for i in range(count)] + [gen_seed_sweep(ctx.rng, i) for i in range(sweeps)]
            + malformed_histories())


def run(ctx):
    ctx.rule = RULE
    count = 60 if ctx.tier == "thorough" else 4
    run_cases(ctx, gen_cases(ctx, count, sweeps=6 if ctx.tier == "thorough" else 1))
    # completeness of the enumeration of operations: the public API as found by introspection in the runner processes
    check_api(ctx, getattr(ctx, "c14_api", []), getattr(ctx, "c14_executed", set()))
    check_forwarding(ctx, getattr(ctx, "c14_fwd", None))


def search(ctx):
    """oracle-only sweep (no model) used when a proof obligation or an auxiliary point is broken"""
    drv, ctx.driver = ctx.driver, None
    try:
        run_cases(ctx, [gen_history(ctx.rng, 1000 + i) for i in range(12)] + [gen_seed_sweep(ctx.rng, 1000 + i) for i in range(3)])
    finally:
        ctx.driver = drv


def replay(ctx, case):
    prefetch_corpus(case)
    c = {"name": case.get("name", "replay"), "runs": case["runs"], "b": case["b"], "seed_at": case["seed_at"]}
    run_cases(ctx, [c])
