"""C03 — correspondence of QV.Model.Grads with the gradient code of the three state types,
plus a finite-difference oracle of an independently written NLL."""
import itertools

import numpy as np

from . import argforms_a as af
from . import qc
from .common import bits, f2b, unbits
from .qc import torch

from qucumber.utils import unitaries  # noqa: E402
from torch.nn.utils import parameters_to_vector  # noqa: E402

FILES = ["qucumber/nn_states/neural_state.py", "qucumber/nn_states/complex_wavefunction.py", "qucumber/nn_states/density_matrix.py",
         "qucumber/nn_states/positive_wavefunction.py", "qucumber/rbm/binary_rbm.py", "qucumber/rbm/purification_rbm.py",
         "qucumber/utils/unitaries.py", "qucumber/utils/cplx.py"]
REQUIRED_THEOREMS = ['C03_energy_grad', 'C03_energy_grad_prbm', 'C03_logZ_grad', 'C03_logZ_grad_prbm', 'C03_exact_gradient_positive',
                     'C03_sample_gradient_complex', 'C03_exact_gradient_complex', 'C03_sample_gradient_density', 'C03_exact_gradient_density',
                     'C03_exact_gradient_density_eps_pos', 'C03_batch_is_sum_positive', 'C03_batch_is_sum_complex', 'C03_batch_is_sum_density',
                     'C03_perm_invariant_positive', 'C03_perm_invariant_complex', 'C03_perm_invariant_density',
                     # audit round: the losses are the Born-rule NLL of the dense Kronecker rotation (C04) / of rho (C02)
                     'C03_upsi_as_coded', 'C03_upsi_is_dense_amplitude', 'C03_loss_is_born_complex', 'C03_Zsum_is_norm',
                     'C03_born_complex_normalised', 'C03_nll_is_born_complex', 'C03_urhou_is_rotated_prob', 'C03_urhou_as_coded',
                     'C03_urhou_is_born', 'C03_loss_allZ_density', 'C03_loss_is_born_density', 'C03_urhou_nonneg',
                     'C03_born_density_normalised', 'C03_nll_is_born_density',
                     # layout, call forms, default branch of pi_grad
                     'C03_layout', 'C03_layout_prbm', 'C03_exact_gradient_positive_flat', 'C03_exact_gradient_complex_flat',
                     'C03_exact_gradient_density_flat', 'C03_single_sample', 'C03_single_sample_density', 'C03_bases_none',
                     'C03_bases_none_density', 'C03_pi_grad_branches_agree', 'C03_pi_grad_branches_differ', 'C03_default_dictionary_ok',
                     # extension round X2: the gradient model calls the complex kernel as coded at HEAD (C.invH, C.csigmoidH)
                     'C03_rot_comp_textbook', 'C03_pi_grad_sigmoid',
                     # extension round 2 (code inside the model): call forms of `bases`, zero rotated amplitude, batch layout
                     'C03_bases_forms_agree', 'C03_bases_forms_agree_1d', 'C03_bases_forms_refused', 'C03_gamma_grad_layout',
                     'C03_pi_grad_layout', 'C03_zero_amplitude_iff_infinite_nll']
RULE = ("case = (state kind, n, h[, a], parameters = scale*N(0,1) with all biases non-zero (the phase network's auxiliary bias of the mixed state is "
        "non-zero in about half of the cases, exactly zero in the others), scale in {0.3,0.7,1.2} plus saturated rows at scale 3 and 10, dataset of random "
        "basis states with repeats, per-sample basis strings over {X,Y,Z} incl. all-Z rows and mixed rows in one batch); regime all-strings: one dataset "
        "per rotating state kind whose rows carry EVERY string of {X,Y,Z}^n (n <= 3 quick, n <= 4 thorough); one n = 4 case per kind also in the quick tier; "
        "every public gradient method compared with the model "
        "and with central finite differences of an independently written NLL (Born rule through the dense Kronecker product); the model's rotated "
        "amplitude / probability compared with the same dense formula; permutation/split invariance; 1-D call form with the basis as str, "
        "list and char-array row; bases of a batch as list[str] / 1-D str ndarray (documented forms, F22 applied; list of lists / tuple of strings: undocumented, recorded only); "
        "public rotated_gradient / am_grads / ph_grads; positive state: rotated bases handed to its methods are ignored (informational, scope note); "
        "bases=None on the complex / mixed state; pi_grad on both branches of `expand`; "
        "argument forms (round 5): every integer / boolean option of a public call is drawn per case from a seeded stream (`aseed`; Python int, numpy "
        "integer scalars, 0-d numpy / torch integers; bool singleton, 0/1, numpy bools, 0-d bool arrays / tensors; keyword and positional): constructor "
        "sizes and `gpu` / `zero_weights`, `reduce` of effective_energy_gradient (both values), `eta` / `expand` of gamma_grad, `phase` / `expand` of "
        "pi_grad, `k` of compute_batch_gradients (k in 0..3), `epochs` / `pos_batch_size` / `neg_batch_size` / `k` of fit (any positional prefix of the "
        "documented order); the model is told the VALUE; "
        "regime huge-amplitude (extension round X2, complex state): 24..28 hidden units with biases in 20..30, tiny couplings, so that every amplitude "
        "|psi| is just below the overflow threshold of e^{-E} while |Upsi|^2 of the constructively interfering X rows exceeds 1.8e308 (the textbook "
        "inverse conj z / |z|^2 would return 0 there); gradient / positive_phase_gradients / rotated_gradient judged against the exact-arithmetic "
        "expectation evaluated in the log domain and its finite differences; "
        "non-trivial iff the dataset has >= 2 distinct bases with a non-Z letter (complex/mixed) or >= 2 distinct rows (positive); distinct by hash")
EPS = 1e-8
TH = {"pos": "C03_exact_gradient_positive(_flat)", "cplx": "C03_exact_gradient_complex(_flat) / C03_nll_is_born_complex",
      "dm": "C03_exact_gradient_density_eps_pos / C03_exact_gradient_density_flat / C03_nll_is_born_density"}
TH_SUM = {"pos": "C03_batch_is_sum_positive / C03_perm_invariant_positive", "cplx": "C03_batch_is_sum_complex / C03_perm_invariant_complex",
          "dm": "C03_batch_is_sum_density / C03_perm_invariant_density"}
TH_LAYOUT = {"pos": "C03_layout", "cplx": "C03_layout", "dm": "C03_layout_prbm"}
TH_ONE = {"pos": "C03_batch_is_sum_positive", "cplx": "C03_single_sample", "dm": "C03_single_sample_density"}


# ------------------------------------------------------------------ independent numpy NLL
def sp(x):
    return np.logaddexp(0.0, x)


def E_rbm(p, V):
    W, b, c = np.asarray(p["W"]), np.asarray(p["b"]), np.asarray(p["c"])
    return -(V @ b + sp(V @ W.T + c).sum(-1))


def E_prbm(p, V):
    W, U, b, c, d = (np.asarray(p[k]) for k in "WUbcd")
    return -(V @ b + sp(V @ W.T + c).sum(-1) + sp(V @ U.T + d).sum(-1))


def dict_np():
    """the three default basis-change matrices WRITTEN OUT here (second audit C03-4: taken from unitaries.create_dict() they fed both the
    finite-difference oracle and the model, so a wrong default X / Y was invisible to C03 by construction): X = Hadamard,
    Y = (1/sqrt 2) [[1, -i], [1, i]], Z = identity"""
    r = 1.0 / np.sqrt(2.0)
    return {"X": np.array([[r, r], [r, -r]], dtype=complex), "Y": np.array([[r, -1j * r], [r, 1j * r]], dtype=complex),
            "Z": np.array([[1.0, 0.0], [0.0, 1.0]], dtype=complex)}


def dense_K(basis, D):
    K = np.array([[1.0 + 0j]])
    for b in basis:
        K = np.kron(K, D[b])
    return K


def idx(s):
    k = 0
    for bit in s:
        k = 2 * k + int(bit)
    return k


def nll_pos(am, data, space):
    Es = E_rbm(am, np.asarray([s for s, _ in data], dtype=float))
    return Es.mean() + np.log(np.exp(-E_rbm(am, space)).sum())


def nll_cplx(am, ph, data, space, D):
    psi = np.exp(-(E_rbm(am, space) + 1j * E_rbm(ph, space)) / 2)
    Z = (np.abs(psi) ** 2).sum()
    tot = 0.0
    cache = {}
    for s, b in data:
        if b not in cache:
            cache[b] = np.abs(dense_K(b, D) @ psi) ** 2
        tot -= np.log(cache[b][idx(s)])
    return tot / len(data) + np.log(Z)


def rho_np(am, ph, space):
    """ρ(σ,σ') = exp(Γ+ + iΓ-) Π_a (1 + exp(x_a + i y_a)) — the partial trace in closed form"""
    Wl, Ul, bl, cl, dl = (np.asarray(am[k]) for k in "WUbcd")
    Wm, Um, bm, cm, dm_ = (np.asarray(ph[k]) for k in "WUbcd")
    tl = space @ bl + sp(space @ Wl.T + cl).sum(-1)
    tm = space @ bm + sp(space @ Wm.T + cm).sum(-1)
    gp = 0.5 * (tl[:, None] + tl[None, :])
    gm = 0.5 * (tm[:, None] - tm[None, :])
    al = space @ Ul.T + dl
    amu = space @ Um.T
    x = 0.5 * (al[:, None, :] + al[None, :, :])
    y = 0.5 * (amu[:, None, :] - amu[None, :, :])
    return np.exp(gp + 1j * gm) * np.prod(1 + np.exp(x + 1j * y), axis=-1)


def nll_dm(am, ph, data, space, D):
    rho = rho_np(am, ph, space)
    Z = np.real(np.trace(rho))
    tot = 0.0
    cache = {}
    for s, b in data:
        if b not in cache:
            K = dense_K(b, D)
            cache[b] = np.real(np.diag(K @ rho @ K.conj().T))
        rotated = any(ch != "Z" for ch in b)
        tot -= np.log(cache[b][idx(s)] + (EPS if rotated else 0.0))
    return tot / len(data) + np.log(Z)


ORDER_RBM = ["W", "b", "c"]
ORDER_PRBM = ["W", "U", "b", "c", "d"]


def flat(p, order):
    return np.concatenate([np.asarray(p[k], dtype=float).ravel() for k in order])


def unflat(vec, p, order):
    out, k = {}, 0
    for key in order:
        shp = np.asarray(p[key]).shape
        m = int(np.prod(shp))
        out[key] = vec[k:k + m].reshape(shp)
        k += m
    return out


_FD_SRC = {}   # id(result array) -> (f, p, order, hstep): lets an oracle ask for the refined estimate only when the cheap one disagrees


def _central(f, p, order, h):
    v = flat(p, order)
    g = np.zeros_like(v)
    for k in range(len(v)):
        e = np.zeros_like(v); e[k] = h
        g[k] = (f(unflat(v + e, p, order)) - f(unflat(v - e, p, order))) / (2 * h)
    return g


def fd_grad(f, p, order, hstep=1e-6):
    g = _central(f, p, order, hstep)
    if len(_FD_SRC) > 64:
        _FD_SRC.clear()
    _FD_SRC[id(g)] = (f, p, order, hstep, g)
    return g


def fd_refined(g):
    """ONE Richardson step on top of a central-difference estimate returned by fd_grad: g(h) and g(h/2) have truncation errors C h^2 and
    C h^2 / 4, so (4 g(h/2) - g(h)) / 3 is exact to O(h^4).  Plain central differences were off by 3.5e-5 relative in the
    near-cancellation regime (third derivatives of the NLL of order 1e8; seed 38 of the clean-tree seed sweep tripped the 2e-5 tolerance of
    the oracle below).  Computed lazily - only when the cheap estimate disagrees - to keep the quick tier within its budget."""
    src = _FD_SRC.get(id(g))
    if src is None or src[4] is not g:
        return g
    f, p, order, h, _ = src
    return (4.0 * _central(f, p, order, h / 2) - g) / 3.0


# ------------------------------------------------------------------ regime huge-amplitude (extension round, package X2)
TH_HUGE = "C03_sample_gradient_complex / C03_rot_comp_textbook / C15_invH_eq"
LOG_SQRT_MAX = 0.5 * float(np.log(np.finfo(float).max))   # |z| above e^354.89: |z|^2 is not a double


def egrad_rows(p, V):
    """rows of d E / d [W, b, c] (parameters() order) for every state of V, written out: E = -(b.v + sum softplus(c + W v))"""
    W, c = np.asarray(p["W"], dtype=float), np.asarray(p["c"], dtype=float)
    sg = 1.0 / (1.0 + np.exp(-(V @ W.T + c)))
    return np.concatenate([-(sg[:, :, None] * V[:, None, :]).reshape(len(V), -1), -V, -sg], axis=1)


def logdomain_cplx(am, ph, data, space, D):
    """exact-arithmetic expectation of ComplexWaveFunction.gradient(samples, bases) (sum over the batch, no negative phase), of the
    batch loss -sum log |Upsi|^2 and of log |Upsi| per row, evaluated in the LOG DOMAIN: psi is divided by its largest modulus
    before anything is summed, so no intermediate is larger than 2^(n/2)"""
    la, lp = -E_rbm(am, space) / 2, -E_rbm(ph, space) / 2
    m = float(la.max())
    psi = np.exp(la - m + 1j * lp)
    Ga, Gp = egrad_rows(am, space), egrad_rows(ph, space)
    ga, gp, logabs = np.zeros(Ga.shape[1]), np.zeros(Gp.shape[1]), []
    for s_, b_ in data:
        uv = dense_K(b_, D)[idx(s_)] * psi
        U = uv.sum()
        ga += np.real((uv @ Ga) / U)
        gp += np.real(1j * (uv @ Gp) / U)
        logabs.append(float(np.log(np.abs(U))) + m)
    return ga, gp, np.asarray(logabs)


def mk_huge_case(rng):
    """amplitude network: h in 24..28 hidden biases in 20..30 (every magnitude <= 30), couplings ~1e-3 and visible biases ~1e-2, shifted so that
    the LARGEST -E over the space is in (709.0, 709.5): e^{-E} (formed by `amplitude`) is still a double, |psi| ~ 1e154, and the rotated
    amplitude of an outcome 0 on k >= 2 X-rotated sites is ~2^(k/2) |psi|, whose square is not a double"""
    for _ in range(50):
        n, h = rng.choice([3, 4]), rng.randint(24, 28)
        target = rng.uniform(709.0, 709.5)
        mean = target / h
        dev = min(2.0, 29.8 - mean)
        am = {"W": [[rng.gauss(0.0, 1.0) * 1e-3 for _ in range(n)] for _ in range(h)], "b": [rng.choice([-1, 1]) * rng.uniform(0.005, 0.03) for _ in range(n)],
              "c": [mean + rng.uniform(-dev, dev) for _ in range(h)]}
        space = np.asarray(qc.all_states(n), dtype=float)
        shift = (target - float((-E_rbm(am, space)).max())) / h
        am["c"] = [x + shift for x in am["c"]]
        ph = qc.rand_rbm_params(rng, n, h, 0.02)
        ph["c"] = [rng.gauss(0.0, 1.0) for _ in range(h)]
        ph["b"] = [rng.gauss(0.0, 0.1) for _ in range(n)]
        top = float((-E_rbm(am, space)).max())
        if max(am["c"]) >= 30.0 or min(am["c"]) < 20.0 or not (709.0 < top < 709.6):
            continue
        # rows: outcome 0 on every X site (constructive interference), one all-Z row, one row with a Y site
        allx = "X" * n
        part = "".join("X" if j < 2 else "Z" for j in range(n)); part = "".join(rng.sample(list(part), n))
        withy = "".join(rng.choice("XYZ") for _ in range(n - 1)) + "Y"; withy = "".join(rng.sample(list(withy), n))
        rows = [([0] * n, allx), ([0 if ch == "X" else rng.randint(0, 1) for ch in part], part), ([rng.randint(0, 1) for _ in range(n)], "Z" * n),
                ([0 if ch == "X" else rng.randint(0, 1) for ch in withy], withy)]
        rng.shuffle(rows)
        la = logdomain_cplx(am, ph, rows, space, dict_np())[2]
        if int(np.sum(la > LOG_SQRT_MAX)) >= 2:
            return {"aseed": af.draw_aseed(rng), "kind": "cplx", "n": n, "h": h, "a": 0, "am": am, "ph": ph, "data": rows, "regime": "huge-amplitude"}
    raise RuntimeError("huge-amplitude: no case found")


def huge_case(ctx, case):
    """gradient calls that need no partition function (gradient, positive_phase_gradients, rotated_gradient) where |Upsi|^2 is beyond the doubles:
    property level = exact-arithmetic expectation in the log domain; the model (C.invH as coded at HEAD) must agree with the implementation"""
    n, h = case["n"], case["h"]
    ctx.current_case = case
    A = af.Args(case.get("aseed"))
    am, ph, data = case["am"], case["ph"], [(list(s), b) for s, b in case["data"]]
    space = np.asarray(qc.all_states(n), dtype=float)
    D = dict_np()
    S, B = tensors(data)
    want_a, want_p, logabs = logdomain_cplx(am, ph, data, space, D)
    n_over = int(np.sum(logabs > LOG_SQRT_MAX))
    ctx.case({k: case[k] for k in ("kind", "n", "h", "am", "ph", "data")}, nontrivial=n_over >= 1,
             sample={"kind": "cplx", "n": n, "h": h, "N": len(data), "bases": sorted({b for _, b in data}), "log|Upsi|": [round(float(x), 3) for x in logabs]})
    ctx.count("kind=cplx"); ctx.count(f"n={n}"); ctx.count("regime=huge-amplitude"); ctx.count(f"huge-amplitude/rows with |Upsi|^2 > 1.8e308: {n_over}")
    try:
        st = af.make_complex(A, n, h, am, ph)
        if not af.check_sizes(ctx, st, (n, h), case, A, "cplx/ctor-sizes", TH_CTOR):
            return
        with np.errstate(all="ignore"):
            g = [t.numpy().copy() for t in st.gradient(S, B)]
            pp = [t.numpy().copy() for t in st.positive_phase_gradients(S, B)]
            # what the TEXTBOOK inverse conj z / |z|^2 (cplx.inverse before 7038bfb) gives on the implementation's own Upsi (counter only)
            ups = [unitaries.rotate_psi_inner_prod(st, np.array(list(b_)), torch.tensor([s_], dtype=torch.double), include_extras=True)[0].numpy().ravel()
                   for s_, b_ in data if any(ch != "Z" for ch in b_)]
            tb = [np.array([u[0], -u[1]]) / (u[0] * u[0] + u[1] * u[1]) for u in ups]
        ctx.count(f"huge-amplitude/textbook inverse of Upsi is 0 or non-finite: {sum(1 for t in tb if not np.all(np.isfinite(t)) or np.all(t == 0))} of {len(tb)}")
        scale = max(1.0, float(np.max(np.abs(want_a))), float(np.max(np.abs(want_p))))
        for i, (got, want) in enumerate(zip(g, (want_a, want_p))):
            ok = bool(np.all(np.isfinite(got))) and bool(np.allclose(got, want, rtol=1e-8, atol=1e-8 * scale))
            ctx.oracle(f"gradient[{i}] finite and == exact-arithmetic (log-domain) gradient of -sum log |Upsi|^2", ok, case,
                       detail={"impl": np.asarray(got).tolist(), "want": want.tolist(), "log|Upsi|": logabs.tolist()},
                       sig="cplx/huge-amplitude-gradient", theorem=TH_HUGE)
        fds = [fd_grad(lambda p: -2.0 * float(logdomain_cplx(p, ph, data, space, D)[2].sum()), am, ORDER_RBM),
               fd_grad(lambda p: -2.0 * float(logdomain_cplx(am, p, data, space, D)[2].sum()), ph, ORDER_RBM)]
        for i, (got, d_) in enumerate(zip(g, fds)):
            tol = 5e-5 * max(1.0, float(np.max(np.abs(d_))))
            ok = bool(np.all(np.isfinite(got))) and bool(np.all(np.abs(got - d_) <= tol))
            ctx.oracle(f"gradient[{i}] == d (-sum log |Upsi|^2) / d theta by central differences of the log-domain loss", ok, case,
                       detail={"maxdiff": float(np.max(np.abs(np.nan_to_num(got) - d_)))}, sig="cplx/huge-amplitude-fd", theorem=TH_HUGE)
        ctx.oracle("positive_phase == gradient / N", bool(all(np.allclose(x, y / len(data), rtol=1e-12, atol=1e-12 * scale) for x, y in zip(pp, g))), case,
                   sig="cplx/huge-amplitude-posphase", theorem=TH_SUM["cplx"])
        # public rotated_gradient(basis, samples) of every rotated row == log-domain expectation of that row
        for s_, b_ in data:
            if all(ch == "Z" for ch in b_):
                continue
            wa, wp, _ = logdomain_cplx(am, ph, [(s_, b_)], space, D)
            with np.errstate(all="ignore"):
                rg = [t.numpy().ravel() for t in st.rotated_gradient(np.array(list(b_)), torch.tensor([s_], dtype=torch.double))]
            ok = all(bool(np.all(np.isfinite(x))) and np.allclose(x, y, rtol=1e-8, atol=1e-8 * scale) for x, y in zip(rg, (wa, wp)))
            ctx.oracle("rotated_gradient(basis, sample) finite and == exact-arithmetic (log-domain) value", bool(ok), {**case, "row": [s_, b_]},
                       sig="cplx/huge-amplitude-rotated-gradient", theorem=TH_HUGE)
        if ctx.driver is None:
            return
        dict_enc = {L: [[[f2b(D[L][r][c].real), f2b(D[L][r][c].imag)] for c in range(2)] for r in range(2)] for L in "XYZ"}
        samples = [{"bits": s_, "basis": b_} for s_, b_ in data]
        m = ctx.driver.call("c03.cplx", n=n, h=h, am=qc.pbits(am), ph=qc.pbits(ph), dict=dict_enc, samples=samples)
        for i in (0, 1):
            cmp_vec(ctx, f"gradient[{i}] (huge amplitude)", g[i], unbits(m["gradient"][i]), case, "cplx/gradient", TH["cplx"], scale)
            cmp_vec(ctx, f"positive_phase_gradients[{i}] (huge amplitude)", pp[i], unbits(m["positive_phase"][i]), case, "cplx/posphase", TH["cplx"], scale)
        mu = np.array([unbits(u) for u in m["upsi"]])
        with np.errstate(all="ignore"):
            got_log = np.log(np.hypot(mu[:, 0], mu[:, 1]))
        ctx.point("log |model Upsi| == log-domain value", "aux", got_log, logabs, case, scale=1.0, rtol=1e-9, atol=1e-9, theorem="C03_upsi_is_dense_amplitude")
        # the scalar kernel on the model's own Upsi: HEAD's inverse (C.invH, what cplxRotComp calls) against cplx.inverse of the implementation;
        # the textbook inverse (C.inv) of the same numbers is counted
        k = ctx.driver.call("c03.kernel", zr=bits(mu[:, 0]), zi=bits(mu[:, 1]), wr=bits(np.ones(len(mu))), wi=bits(np.zeros(len(mu))))
        from qucumber.utils import cplx as _cplx
        zt = torch.tensor(np.array([mu[:, 0], mu[:, 1]]), dtype=torch.double)
        with np.errstate(all="ignore"):
            inv_impl = _cplx.inverse(zt).numpy()
            abs_impl = _cplx.absolute_value(zt).numpy()
        inv_model = np.array([unbits(x) for x in k["invH"]])
        ctx.point("cplx.inverse(Upsi) == C.invH", "aux", np.r_[inv_impl[0], inv_impl[1]] * np.exp(LOG_SQRT_MAX), np.r_[inv_model[:, 0], inv_model[:, 1]] * np.exp(LOG_SQRT_MAX),
                  case, scale=1.0, rtol=1e-12, atol=1e-14, theorem="C15_inverse_entry / C15_invH_eq")
        ctx.point("cplx.absolute_value(Upsi) == C.absH", "aux", abs_impl / np.exp(LOG_SQRT_MAX), unbits(k["absH"]) / np.exp(LOG_SQRT_MAX), case, scale=1.0, rtol=1e-12, atol=1e-14,
                  theorem="C15_absolute_value_entry / C15_absH_eq")
        inv_tb = np.array([unbits(x) for x in k["inv"]])
        bad = sum(1 for r_, la_ in zip(inv_tb, logabs) if la_ > LOG_SQRT_MAX and (not np.all(np.isfinite(r_)) or np.all(r_ == 0)))
        ctx.count(f"huge-amplitude/model textbook C.inv of Upsi is 0 or non-finite on the overflow rows: {bad} of {n_over}")
    finally:
        A.count_into(ctx)


# ------------------------------------------------------------------ cases
def mk_data(rng, n, N, kind):
    data = []
    strings = ["".join(t) for t in itertools.product("XYZ", repeat=n)]
    pool = rng.sample(strings, min(len(strings), rng.randint(2, 4))) + ["Z" * n]
    for _ in range(N):
        s = [rng.randint(0, 1) for _ in range(n)]
        b = "Z" * n if kind == "pos" else rng.choice(pool)
        data.append((s, b))
    return data


def tensors(data):
    S = torch.tensor([s for s, _ in data], dtype=torch.double)
    B = np.array([list(b) for _, b in data])
    return S, B


def cmp_vec(ctx, name, impl, model, case, sig, th, scale):
    # both sides are float64 evaluations of the same formula: agreement is ~1e-12; 5e-8 leaves room for torch's softplus
    # threshold (abs. error 2e-9 per hidden unit in an energy) and catches single-precision round trips (~6e-8 and above)
    ctx.point(name, "property", impl, model, case, scale=scale, rtol=5e-8, atol=1e-10, sig=sig, theorem=th)


# ------------------------------------------------------------------ argument forms (round 5): calls with the options as the case's objects
# `A` is the case's af.Args stream; with Args(None) every helper makes exactly the call the harness made before (plain value, by keyword).
TH_CTOR = "C03_exact_gradient_* (stated for the architecture num_visible x num_hidden [x num_aux] the caller asked for)"
TH_EEG = {"pos": "C03_energy_grad / C03_batch_is_sum_positive", "cplx": "C03_energy_grad / C03_batch_is_sum_complex", "dm": "C03_energy_grad_prbm / C03_batch_is_sum_density"}


def eeg_form(net, S, A, flag):
    """net.effective_energy_gradient(S, reduce=<object denoting `flag`>), keyword or positional; -> (tensor, descriptor)"""
    o, d = A.b_desc(flag)
    return (net.effective_energy_gradient(S, o) if d["pos"] else net.effective_energy_gradient(S, reduce=o)), d


def gamma_grad_form(net, A, v, vp, eta, expand):
    """net.gamma_grad(v, vp, eta=<object denoting +1/-1>, expand=<object>): all keyword / eta positional / both positional"""
    e, (x, d) = A.i(eta), A.b_desc(expand)
    if d["pos"]:
        return net.gamma_grad(v, vp, e, x)
    if A.coin():
        return net.gamma_grad(v, vp, e, expand=x)
    return net.gamma_grad(v, vp, eta=e, expand=x)


def pi_grad_form(st, A, v, vp, phase, expand=None):
    """st.pi_grad(v, vp, phase=<object>, expand=<object>) (expand=None: left at its default), keyword / positional"""
    p, dp = A.b_desc(phase)
    if expand is None:
        return st.pi_grad(v, vp, p) if dp["pos"] else st.pi_grad(v, vp, phase=p)
    x, dx = A.b_desc(expand)
    if dp["pos"] and dx["pos"]:
        return st.pi_grad(v, vp, p, x)
    if dp["pos"]:
        return st.pi_grad(v, vp, p, expand=x)
    return st.pi_grad(v, vp, phase=p, expand=x)


def _np(t):
    return t.detach().numpy().copy() if hasattr(t, "detach") else np.asarray(t)


def _same(x, y, scale, rtol=1e-10):
    x, y = np.asarray(x), np.asarray(y)
    return bool(x.shape == y.shape and np.allclose(x, y, rtol=rtol, atol=rtol * scale))


def form_oracles(ctx, st, A, kind, case, S, B, nets, g, scale):
    """oracles on the implementation alone (they also run in the failing-input search): the value of a public gradient method must be
    the one the documentation gives for the VALUE of each option, whatever object denotes it"""
    N = S.shape[0]
    # --- effective_energy_gradient(reduce): true => the vector summed over the batch (what gradient() accumulates), false => one row per sample
    for i, net in enumerate(nets):
        det = {}
        try:
            P = int(parameters_to_vector(net.parameters()).numel())
            (T, dT), (F_, dF) = eeg_form(net, S, A, True), eeg_form(net, S, A, False)
            T, F_, T0 = _np(T), _np(F_), _np(net.effective_energy_gradient(S))
            det = {"reduce=true given as": dT, "reduce=false given as": dF, "shapes": [list(T.shape), list(F_.shape)]}
            ok = T.shape == (P,) and F_.shape == (N, P) and _same(T, F_.sum(0), scale) and _same(T, T0, scale)
            if i == 0 and kind == "pos":
                ok = ok and _same(T, g[0], scale)
        except Exception as e:  # noqa: BLE001
            ok, det = False, {**det, "exception": type(e).__name__, "message": str(e)[:200]}
        ctx.oracle("effective_energy_gradient(S, reduce=<true object>) == column sums of effective_energy_gradient(S, reduce=<false object>) == default call",
                   bool(ok), case, detail=det, sig=f"{kind}/eeg-reduce-forms", theorem=TH_EEG[kind])
    # --- compute_batch_gradients(k, ...): the same call with k as a plain Python int and as the case's object, same torch random stream
    if A.aseed is not None:
        k = A.choice([0, 1, 2, 3])
        ko, kd = A.i_desc(k)
        neg = S.flip(0).clone()
        det = {"k": kd}
        try:
            with torch.random.fork_rng():
                torch.manual_seed(A.aseed)
                ref = st.compute_batch_gradients(k, S, neg) if kind == "pos" else st.compute_batch_gradients(k, S, neg, B)
            with torch.random.fork_rng():
                torch.manual_seed(A.aseed)
                got = st.compute_batch_gradients(ko, S, neg) if kind == "pos" else st.compute_batch_gradients(ko, S, neg, B)
            ok = len(ref) == len(got) and all(_same(_np(x), _np(y), scale) for x, y in zip(got, ref))
        except Exception as e:  # noqa: BLE001
            ok, det = False, {**det, "exception": type(e).__name__, "message": str(e)[:200]}
        ctx.count(f"compute_batch_gradients/k={k}")
        ctx.oracle("compute_batch_gradients(k=<object>, ...) == compute_batch_gradients(k=<Python int>, ...) on the same random stream",
                   bool(ok), case, detail=det, sig=f"{kind}/batch-gradients-k-forms", theorem=TH_SUM[kind] + " / C06_batch_grad (k = number of Gibbs steps)")
    if kind != "dm":
        return
    # --- mixed state: the pieces of am_grads / ph_grads called with the options as objects
    VP = S.roll(1, 0)
    det = {}
    try:
        am_ref, ph_ref = _np(st.am_grads(S)), _np(st.ph_grads(S))
        gp = _np(gamma_grad_form(st.rbm_am, A, S, S, +1, True))
        pa = _np(pi_grad_form(st, A, S, S, False, True))
        gm = _np(gamma_grad_form(st.rbm_ph, A, S, S, -1, True))
        pp_ = _np(pi_grad_form(st, A, S, S, True, True))
        det = {"given_as": A.used(), "shapes": [list(x.shape) for x in (am_ref, gp, pa, gm, pp_)]}
        sc = max(1.0, float(np.max(np.abs(am_ref))), float(np.max(np.abs(ph_ref))))
        ok = _same(gp + pa, am_ref, sc) and _same(np.stack([-gm[1], gm[0]]) + pp_, ph_ref, sc)
    except Exception as e:  # noqa: BLE001
        ok, det = False, {**det, "exception": type(e).__name__, "message": str(e)[:200]}
    ctx.oracle("am_grads(v) == gamma_grad(v, v, eta=<+1>, expand=<true>) + pi_grad(v, v, phase=<false>, expand=<true>);  "
               "ph_grads(v) == i gamma_grad(v, v, eta=<-1>, expand=<true>) + pi_grad(v, v, phase=<true>, expand=<true>)", bool(ok), case, detail=det,
               sig="dm/grads-composition-forms", theorem="C03_sample_gradient_density (dmAmGrads / dmPhGrads = gammaGrad + piGrad)")
    det = {}
    try:
        ok = True
        for eta, net in ((+1, st.rbm_am), (-1, st.rbm_ph)):
            full = _np(net.gamma_grad(S, VP, eta=eta, expand=True))
            pair = _np(gamma_grad_form(net, A, S, VP, eta, False))
            want = np.stack([full[:, i, i, :] for i in range(N)], axis=1)
            ok = ok and _same(pair, want, scale)
        for ph_flag in (False, True):
            pair = _np(pi_grad_form(st, A, S, VP, ph_flag, False))
            ok = ok and _same(pair, _np(st.pi_grad(S, VP, phase=ph_flag, expand=False)), scale)
            if all(x == 0 for x in case["ph"]["d"]):  # the two branches agree iff the phase network's auxiliary bias is zero (C03_pi_grad_branches_agree)
                full = _np(st.pi_grad(S, VP, phase=ph_flag, expand=True))
                ok = ok and _same(pair, np.stack([full[:, i, i, :] for i in range(N)], axis=1), scale)
        det = {"given_as": A.used()}
    except Exception as e:  # noqa: BLE001
        ok, det = False, {**det, "exception": type(e).__name__, "message": str(e)[:200]}
    ctx.oracle("gamma_grad / pi_grad(v, v', ..., expand=<false object>) == the paired entries [i, i] (gamma_grad: of the expand=True tensor; pi_grad: "
               "of the literal-False call, and of the expand=True tensor when the phase auxiliary bias is 0)", bool(ok), case, detail=det,
               sig="dm/paired-flag-forms", theorem="C03_single_sample_density / C03_pi_grad_branches_agree")


# second audit C03-2: `gradient` documents `basis: numpy.ndarray or list[str] or None`.  For a BATCH the code at /repo HEAD accepts a 2-D char
# array and a list of lists of letters, but raises IndexError for one basis STRING per sample (list[str], tuple of str, 1-D str ndarray):
# proposed/F23_gradient_bases_list_of_str.{md,diff}.  Until the integrator applies the fix, a refusal of those forms is an informational
# counter (set this to True afterwards: the refusal then is a failed call form); if a form is ACCEPTED its value must be the 2-D char
# array's at property level in either case.
LIST_STR_BATCH_REFUSAL_IS_VIOLATION = True  # fix bfb5532 (F22) is applied in /repo: refusing the documented list[str] form is a violation


def container_forms(ctx, st, kind, case, n, data, S, B, space_t, g, pp, ex, scale):
    """the remaining call forms of the public gradient methods (oracles on the implementation alone)"""
    N = len(data)
    if kind == "pos":
        # second audit C03-1 - SCOPE: a positive state is a reference-basis object (its `fit` takes no `input_bases`; its gradient methods
        # document every extra argument as "Ignored"): the statement's "assignment of measurement bases" ranges over the two state types
        # that can be trained on rotated data.  INFORMATIONAL probe: every positive method called WITH a rotated basis array, positionally
        # and by keyword, returns what the call without it returns (counted, no verdict).
        Brot = np.array([["XY"[(i + j) % 2] for j in range(n)] for i in range(N)])
        try:
            calls = [(g, st.gradient(S, Brot)), (g, st.gradient(S, bases=Brot)), (pp, st.positive_phase_gradients(S, Brot)),
                     (pp, st.positive_phase_gradients(S, bases_batch=Brot)), (ex, st.compute_exact_grads(S, space_t, Brot)),
                     (ex, st.compute_exact_grads(S, space_t, bases_batch=Brot)), (ex, st.compute_exact_gradients(S, space_t, Brot))]
            same = all(len(w) == len(r) and all(_same(_np(x), _np(y), scale) for x, y in zip(r, w)) for w, r in calls)
            ctx.count("pos/bases-ignored (informational): " + ("rotated bases ignored by all 7 call forms" if same else "some call form depends on the bases"))
        except Exception as e:  # noqa: BLE001
            ctx.count(f"pos/bases-ignored (informational): a call form with bases raised {type(e).__name__}")
        return
    # ---- batch container forms of `bases` (C03-2)
    strings = [b for _, b in data]
    forms = [("list of lists", [list(b) for b in strings], False), ("list[str]", list(strings), True), ("1-D str ndarray", np.array(strings), True)]
    for fname, bform, stringrows in forms:
        det = None
        try:
            got = [_np(t) for t in st.gradient(S, bform)]
            okf = len(got) == len(g) and all(_same(x, y, scale, 1e-9) for x, y in zip(got, g))
            ctx.count(f"bases of a batch as {fname}: accepted")
        except Exception as e:  # noqa: BLE001
            if stringrows and not LIST_STR_BATCH_REFUSAL_IS_VIOLATION:
                ctx.count(f"bases of a batch as {fname}: refused with {type(e).__name__} (informational: proposed finding F23)")
                continue
            okf, det = False, {"exception": type(e).__name__, "message": str(e)[:200]}
        if not stringrows:
            # audit 3 (B-10): a list of lists of letters is not among the documented `numpy.ndarray or list[str] or None`: recorded only
            ctx.info(f"gradient(samples, bases as {fname}) == gradient(samples, 2-D char array) [undocumented form]", bool(okf), True)
            continue
        ctx.oracle(f"gradient(samples, bases as {fname}) == gradient(samples, 2-D char array)", bool(okf), case, detail=det,
                   sig=f"{kind}/bases-container", theorem=TH_SUM[kind])
    # ---- C03-5: public rotated_gradient(basis, samples of that basis) == gradient(those samples, that basis per row); complex state: am_grads / ph_grads
    rot = sorted({b for b in strings if any(ch != "Z" for ch in b)})
    for b0 in rot[:2]:
        rows = [k for k, b in enumerate(strings) if b == b0]
        Sb = S[rows]
        det = None
        try:
            rg = [_np(t) for t in st.rotated_gradient(np.array(list(b0)), Sb)]
            gg = [_np(t) for t in st.gradient(Sb, np.array([list(b0)] * len(rows)))]
            okr = len(rg) == 2 and all(_same(x, y, scale, 1e-9) for x, y in zip(rg, gg))
        except Exception as e:  # noqa: BLE001
            okr, det = False, {"exception": type(e).__name__, "message": str(e)[:200]}
        ctx.oracle("rotated_gradient(basis, samples) == gradient(samples, [basis] * k)", bool(okr), {**case, "basis": b0}, detail=det,
                   sig=f"{kind}/rotated-gradient-public", theorem=TH_ONE[kind])
    if kind == "cplx":
        det = None
        try:
            ea, ep = _np(st.rbm_am.effective_energy_gradient(S, reduce=False)), _np(st.rbm_ph.effective_energy_gradient(S, reduce=False))
            ag, pg = _np(st.am_grads(S)), _np(st.ph_grads(S))
            oka = (ag.shape == (2,) + ea.shape and _same(ag[0], ea, scale) and not np.any(ag[1])
                   and pg.shape == (2,) + ep.shape and _same(pg[1], ep, scale) and _same(pg[0], 0 * ep, scale))
        except Exception as e:  # noqa: BLE001
            oka, det = False, {"exception": type(e).__name__, "message": str(e)[:200]}
        ctx.oracle("am_grads(v) == (grad E_lambda(v), 0);  ph_grads(v) == i * grad E_mu(v)  (per sample)", bool(oka), case, detail=det,
                   sig="cplx/am-ph-grads-public", theorem="C03_sample_gradient_complex")


def one_case(ctx, case):
    """one case; integer options handed over as objects outside every quantifier (np.uint8, 0-d arrays / tensors) and REFUSED by the
    implementation are informational (argforms_a.tolerant, second audit X-1)"""
    if case.get("regime") == "huge-amplitude":
        af.tolerant(ctx, huge_case, ctx, case)
        return
    af.tolerant(ctx, _one_case, ctx, case)


def _one_case(ctx, case):
    kind, n, h, a = case["kind"], case["n"], case["h"], case.get("a", 0)
    ctx.current_case = case
    A = af.Args(case.get("aseed"))
    am, ph, data = case["am"], case.get("ph"), [(list(s), b) for s, b in case["data"]]
    space = np.asarray(qc.all_states(n), dtype=float)
    space_t = torch.tensor(space, dtype=torch.double)
    S, B = tensors(data)
    D = dict_np()
    nb = len({b for _, b in data if any(ch != "Z" for ch in b)})
    nontriv = (nb >= 2) if kind != "pos" else (len({tuple(s) for s, _ in data}) >= 2)
    ctx.case({k: case[k] for k in ("kind", "n", "h", "am", "ph", "data")}, nontrivial=nontriv,
             sample={"kind": kind, "n": n, "h": h, "a": a, "N": len(data), "bases": sorted({b for _, b in data}), "am_b": am["b"]})
    ctx.count(f"kind={kind}"); ctx.count(f"n={n}"); ctx.count(f"N={len(data)}" if len(data) < 50 else "N>=50"); ctx.count(f"distinct_rot_bases={nb}" if nb < 50 else "distinct_rot_bases>256" if nb > 256 else "distinct_rot_bases>=50")
    ctx.count("regime=" + case.get("regime", "ordinary"))
    order = ORDER_RBM if kind != "dm" else ORDER_PRBM
    if kind == "pos":
        st = af.make_positive(A, n, h, am)
    elif kind == "cplx":
        st = af.make_complex(A, n, h, am, ph)
    else:
        st = af.make_density(A, n, h, a, am, ph)
    if not af.check_sizes(ctx, st, (n, h, a) if kind == "dm" else (n, h), case, A, f"{kind}/ctor-sizes", TH_CTOR):
        return
    if kind == "pos":
        nets = [st.rbm_am]
        g = [t.numpy().copy() for t in st.gradient(S)]
        pp = [t.numpy().copy() for t in st.positive_phase_gradients(S)]
        ex = [t.numpy().copy() for t in st.compute_exact_gradients(S, space_t)]
        ex2 = [t.numpy().copy() for t in st.compute_exact_grads(S, space_t)]
        ctx.oracle("compute_exact_grads == compute_exact_gradients", bool(np.allclose(ex[0], ex2[0], rtol=1e-12, atol=1e-12)), case,
                   sig="pos/alias", theorem="C03_exact_gradient_positive (the model has ONE definition, exactGradientsPos, for both public names)")
        f = lambda p: nll_pos(p, data, space)  # noqa: E731
        fd = [fd_grad(f, am, order)]
        params = [am]
    elif kind == "cplx":
        nets = [st.rbm_am, st.rbm_ph]
        g = [t.numpy().copy() for t in st.gradient(S, B)]
        pp = [t.numpy().copy() for t in st.positive_phase_gradients(S, B)]
        ex = [t.numpy().copy() for t in st.compute_exact_gradients(S, space_t, B)]
        fd = [] if case.get("no_fd") else [fd_grad(lambda p: nll_cplx(p, ph, data, space, D), am, order), fd_grad(lambda p: nll_cplx(am, p, data, space, D), ph, order)]
        params = [am, ph]
    else:
        nets = [st.rbm_am, st.rbm_ph]
        g = [t.numpy().copy() for t in st.gradient(S, B)]
        pp = [t.numpy().copy() for t in st.positive_phase_gradients(S, B)]
        ex = [t.numpy().copy() for t in st.compute_exact_gradients(S, space_t, B)]
        fd = [fd_grad(lambda p: nll_dm(p, ph, data, space, D), am, order), fd_grad(lambda p: nll_dm(am, p, data, space, D), ph, order)]
        params = [am, ph]
    # layout: parameters_to_vector(parameters()) is the order [W,(U),b,c,(d)]
    for net, p in zip(nets, params):
        ctx.oracle("parameters() order == [W,(U),b,c,(d)]", bool(np.array_equal(parameters_to_vector(net.parameters()).numpy(), flat(p, order))),
                   case, sig=f"{kind}/layout", theorem=TH_LAYOUT[kind])
    # history: re-initialise, write the same parameters back, the layout and every gradient must be unchanged
    st.reinitialize_parameters()
    nets = [st.rbm_am] + ([st.rbm_ph] if kind != "pos" else [])
    for net, p in zip(nets, params):
        (qc.set_prbm if kind == "dm" else qc.set_rbm)(net, p)
        ctx.oracle("parameters() order after reinitialize_parameters()", bool(np.array_equal(parameters_to_vector(net.parameters()).numpy(), flat(p, order))),
                   case, sig=f"{kind}/layout-after-reinit", theorem=TH_LAYOUT[kind] + " / C06_lands_on_parameter")
        names = [nm for nm, _ in net.named_parameters()]
        want = ["weights", "visible_bias", "hidden_bias"] if kind != "dm" else ["weights_W", "weights_U", "visible_bias", "hidden_bias", "aux_bias"]
        ctx.oracle("named_parameters() order after reinitialize_parameters()", names == want, case, detail={"names": names},
                   sig=f"{kind}/param-names-after-reinit", theorem="C06_lands_on_parameter")
    g_again = [t.numpy().copy() for t in (st.gradient(S) if kind == "pos" else st.gradient(S, B))]
    ctx.oracle("gradient unchanged after reinitialise + same parameters", bool(all(np.allclose(x, y, rtol=1e-12, atol=1e-12) for x, y in zip(g, g_again))),
               case, sig=f"{kind}/gradient-after-reinit", theorem=TH[kind])
    scale = max(1.0, float(max(np.max(np.abs(x)) for x in g)))
    # finite differences of the independent NLL  == exact gradients
    for i, (e, d_) in enumerate(zip(ex, fd if not case.get("no_fd") else [])):
        tol = 2e-5 * max(1.0, np.max(np.abs(d_)))
        if kind == "dm":
            tol = max(tol, 1e-6 * len(e))
        ok = bool(np.all(np.abs(e - d_) <= tol))
        if not ok:   # truncation error of the cheap estimate? ask for the refined one before judging
            d_ = fd_refined(d_)
            ok = bool(np.all(np.abs(e - d_) <= tol))
            ctx.count("fd oracle: refined (Richardson) estimate used: " + ("agrees" if ok else "still disagrees"))
        ctx.oracle(f"exact gradient == d NLL / d theta (net {i})", ok, case,
                   detail={"impl": e.tolist(), "fd": d_.tolist(), "maxdiff": float(np.max(np.abs(e - d_)))}, sig=f"{kind}/fd-net{i}", theorem=TH[kind])
    # batch = sum of per-sample, permutation / split invariance, 1-D form
    perm = list(range(len(data))); ctx.rng.shuffle(perm)
    cut = max(1, len(data) // 2)

    def grad_of(sub):
        S2, B2 = tensors(sub)
        return [t.numpy() for t in (st.gradient(S2) if kind == "pos" else st.gradient(S2, B2))]
    gp = grad_of([data[k] for k in perm])
    g1, g2 = grad_of(data[:cut]), (grad_of(data[cut:]) if len(data) > cut else [np.zeros_like(x) for x in g])
    ok = all(np.allclose(x, y, rtol=1e-9, atol=1e-9 * scale) for x, y in zip(g, gp)) and \
        all(np.allclose(x, y1 + y2, rtol=1e-9, atol=1e-9 * scale) for x, y1, y2 in zip(g, g1, g2))
    ctx.oracle("gradient invariant under permutation / split", bool(ok), case, sig=f"{kind}/perm-split", theorem=TH_SUM[kind])
    # 1-D single-sample call form, with the basis given as a Python str, a list of letters and a char-array row (the row of the
    # bases array a caller iterating over a dataset has in hand); the sample is the LAST row with a rotated basis if there is one
    rot_rows = [k for k, (_, b_) in enumerate(data) if any(ch != "Z" for ch in b_)]
    for k0 in sorted({0, rot_rows[-1] if rot_rows else 0}):
        s0, b0 = data[k0]
        v1 = torch.tensor(s0, dtype=torch.double)
        oneb = grad_of([data[k0]])
        forms = [("str", b0)] if kind == "pos" else [("str", b0), ("list", list(b0)), ("chararray", np.array(list(b0)))]
        for fname, bform in forms:
            try:  # "every public method ... is callable": an exception here is a property-level failure of THIS call form
                one = [t.numpy() if hasattr(t, "numpy") else np.asarray(t) for t in (st.gradient(v1) if kind == "pos" else st.gradient(v1, bform))]
                ok1 = len(one) == len(oneb) and all(np.asarray(x).size == np.asarray(y).size and
                                                    np.allclose(np.asarray(x).ravel(), np.asarray(y).ravel(), rtol=1e-9, atol=1e-9 * scale) for x, y in zip(one, oneb))
                det = None
            except Exception as e:  # noqa: BLE001
                ok1, det = False, {"exception": type(e).__name__, "message": str(e)[:200]}
            ctx.oracle(f"1-D call form (basis as {fname}) == batch of one", bool(ok1), {**case, "row": k0}, detail=det, sig=f"{kind}/1d-{fname}", theorem=TH_ONE[kind])
    container_forms(ctx, st, kind, case, n, data, S, B, space_t, g, pp, ex, scale)
    # bases=None on a complex / mixed state: the amplitude network's energy gradient and a ZERO TENSOR for the phase network,
    # i.e. what an all-Z basis array gives (the all-Z fast path)
    gn_impl = None
    if kind != "pos":
        try:
            gn = st.gradient(S)
            Bz = np.array([list("Z" * n) for _ in data])
            gz = st.gradient(S, Bz)
            okn = (len(gn) == 2 and all(isinstance(t, torch.Tensor) for t in gn) and gn[1].shape == gn[0].shape == gz[0].shape
                   and bool(torch.all(gn[1] == 0)) and np.allclose(gn[0].numpy(), gz[0].numpy(), rtol=1e-12, atol=1e-12 * scale)
                   and np.allclose(np.asarray(gz[1]), 0.0))
            det = {"shapes": [list(getattr(t, "shape", [])) for t in gn]}
            ppn = st.positive_phase_gradients(S)
            okp = all(np.allclose(x.numpy(), y.numpy() / len(data), rtol=1e-12, atol=1e-12 * scale) for x, y in zip(ppn, gn))
            gn_impl = [t.numpy().copy() for t in gn]
        except Exception as e:  # noqa: BLE001
            okn, okp, det = False, False, {"exception": type(e).__name__, "message": str(e)[:200]}
        ctx.oracle("gradient(samples, bases=None) == gradient with all-Z bases: [energy gradient, zero tensor]", bool(okn), case,
                   detail=det, sig=f"{kind}/bases-none", theorem="C03_bases_none" + ("_density" if kind == "dm" else ""))
        ctx.oracle("positive_phase_gradients(samples) == gradient(samples) / N", bool(okp), case, detail=det,
                   sig=f"{kind}/bases-none-posphase", theorem=TH_SUM[kind])
    ctx.oracle("positive_phase == gradient / N", bool(all(np.allclose(x, y / len(data), rtol=1e-12, atol=1e-12 * scale) for x, y in zip(pp, g))), case,
               sig=f"{kind}/posphase", theorem=TH_SUM[kind])
    # ---------------- argument forms of the public pieces (implementation only)
    form_oracles(ctx, st, A, kind, case, S, B, nets, g, scale)
    try:
        _model_points(ctx, st, A, kind, case, n, h, a, am, ph, data, space, S, D, g, pp, ex, gn_impl, scale)
    finally:
        A.count_into(ctx)


def _model_points(ctx, st, A, kind, case, n, h, a, am, ph, data, space, S, D, g, pp, ex, gn_impl, scale):
    # ---------------- model
    if ctx.driver is None:
        return
    if kind == "pos":
        m = ctx.driver.call("c03.pos", n=n, h=h, am=qc.pbits(am), rows=bits([s for s, _ in data]))
        cmp_vec(ctx, "gradient", g[0], unbits(m["gradient"]), case, "pos/gradient", TH["pos"], scale)
        cmp_vec(ctx, "positive_phase_gradients", pp[0], unbits(m["positive_phase"]), case, "pos/posphase", TH["pos"], scale)
        cmp_vec(ctx, "compute_exact_gradients", ex[0], unbits(m["exact"]), case, "pos/exact", TH["pos"], scale)
        rows = eeg_form(st.rbm_am, S, A, False)[0].numpy()
        ctx.point("effective_energy_gradient(reduce=False)", "aux", rows.ravel(), np.concatenate([unbits(r) for r in m["per_row"]]), case, scale=scale)
    else:
        dict_enc = {L: [[[f2b(D[L][r][c].real), f2b(D[L][r][c].imag)] for c in range(2)] for r in range(2)] for L in "XYZ"}
        samples = [{"bits": s, "basis": b} for s, b in data]
        if kind == "cplx":
            m = ctx.driver.call("c03.cplx", n=n, h=h, am=qc.pbits(am), ph=qc.pbits(ph), dict=dict_enc, samples=samples)
        else:
            m = ctx.driver.call("c03.dm", n=n, h=h, a=a, am=qc.pbits(am), ph=qc.pbits(ph), dict=dict_enc, eps=f2b(EPS), samples=samples)
        for i in (0, 1):
            cmp_vec(ctx, f"gradient[{i}]", g[i], unbits(m["gradient"][i]), case, f"{kind}/gradient", TH[kind], scale)
            cmp_vec(ctx, f"positive_phase_gradients[{i}]", pp[i], unbits(m["positive_phase"][i]), case, f"{kind}/posphase", TH[kind], scale)
            cmp_vec(ctx, f"compute_exact_gradients[{i}]", ex[i], unbits(m["exact"][i]), case, f"{kind}/exact", TH[kind], scale)
        # the model's rotated amplitude / probability of every sample against the Born rule written with the DENSE Kronecker product
        # (numerical instance of C03_upsi_is_dense_amplitude / C03_urhou_is_born; independent of the library)
        if len(data) <= 40:
            if kind == "cplx":
                psi_np = np.exp(-(E_rbm(am, space) + 1j * E_rbm(ph, space)) / 2)
                want = np.array([(dense_K(b_, D) @ psi_np)[idx(s_)] for s_, b_ in data])
                got = np.array([complex(*unbits(u)) for u in m["upsi"]])
                sc_b = float(np.max(np.abs(psi_np)))
                ctx.point("model Upsi == (dense K psi)[sigma]", "aux", np.r_[got.real, got.imag], np.r_[want.real, want.imag], case, scale=sc_b,
                          rtol=1e-9, atol=1e-12, theorem="C03_upsi_is_dense_amplitude")
            else:
                rho_ = rho_np(am, ph, space)
                want = np.array([np.real(np.diag(dense_K(b_, D) @ rho_ @ dense_K(b_, D).conj().T))[idx(s_)] for s_, b_ in data])
                got = unbits(m["urhou"])
                ctx.point("model UrhoU == Re (dense K rho K^H)[sigma,sigma]", "aux", got, want, case, scale=float(np.max(np.abs(rho_))),
                          rtol=1e-9, atol=1e-12, theorem="C03_urhou_is_born")
        # bases=None against the model evaluated on all-Z samples (fast path)
        samples_z = [{"bits": s_, "basis": "Z" * n} for s_, _ in data]
        if kind == "cplx":
            mz = ctx.driver.call("c03.cplx", n=n, h=h, am=qc.pbits(am), ph=qc.pbits(ph), dict=dict_enc, samples=samples_z)
        else:
            mz = ctx.driver.call("c03.dm", n=n, h=h, a=a, am=qc.pbits(am), ph=qc.pbits(ph), dict=dict_enc, eps=f2b(EPS), samples=samples_z)
        for i in (0, 1):
            if gn_impl is not None and len(gn_impl) == 2:
                cmp_vec(ctx, f"gradient(bases=None)[{i}]", gn_impl[i], unbits(mz["gradient"][i]), case, f"{kind}/bases-none-model",
                        "C03_bases_none" + ("_density" if kind == "dm" else ""), scale)
        if kind == "dm":
            # auxiliary internals on one pair
            v, vp = space[ctx.rng.randrange(len(space))], space[ctx.rng.randrange(len(space))]
            mm = ctx.driver.call("c03.dm_aux", n=n, h=h, a=a, am=qc.pbits(am), ph=qc.pbits(ph), v=bits(v), vp=bits(vp))
            vt, vpt = torch.tensor(v, dtype=torch.double), torch.tensor(vp, dtype=torch.double)
            gg = gamma_grad_form(st.rbm_am, A, vt, vpt, +1, False).numpy()
            ctx.point("gamma_grad(+1)", "aux", gg[0], unbits(mm["gamma_grad_plus"]), case, scale=scale)
            gg = gamma_grad_form(st.rbm_ph, A, vt, vpt, -1, False).numpy()
            ctx.point("gamma_grad(-1)", "aux", gg[0], unbits(mm["gamma_grad_minus"]), case, scale=scale)
            if A.aseed is not None:
                # the branch training takes (expand true), batch of one: the same vector as the single entry [0, 0]
                gg = gamma_grad_form(st.rbm_am, A, vt.unsqueeze(0), vpt.unsqueeze(0), +1, True).numpy()
                ctx.point("gamma_grad(+1, expand=<true object>) batch of one", "aux", gg[0].ravel(), unbits(mm["gamma_grad_plus"]), case, scale=scale)
                gg = gamma_grad_form(st.rbm_ph, A, vt.unsqueeze(0), vpt.unsqueeze(0), -1, True).numpy()
                ctx.point("gamma_grad(-1, expand=<true object>) batch of one", "aux", gg[0].ravel(), unbits(mm["gamma_grad_minus"]), case, scale=scale)
            pg = pi_grad_form(st, A, vt.unsqueeze(0), vpt.unsqueeze(0), False, True).numpy()
            ctx.point("pi_grad(am)", "aux", np.r_[pg[0].ravel(), pg[1].ravel()], np.r_[unbits(mm["pi_grad_am"][0]), unbits(mm["pi_grad_am"][1])], case, scale=scale)
            pg = pi_grad_form(st, A, vt.unsqueeze(0), vpt.unsqueeze(0), True, True).numpy()
            ctx.point("pi_grad(ph)", "aux", np.r_[pg[0].ravel(), pg[1].ravel()], np.r_[unbits(mm["pi_grad_ph"][0]), unbits(mm["pi_grad_ph"][1])], case, scale=scale)
            # the DEFAULT branch expand=False (never used by training; it adds the phase network's auxiliary bias, see notes/C03.md):
            # 1-D operands, a batch of one, and the default value of the keyword
            for flag, key in ((False, "pi_grad_am_noexpand"), (True, "pi_grad_ph_noexpand")):
                want = np.r_[unbits(mm[key][0]), unbits(mm[key][1])]
                pg = pi_grad_form(st, A, vt, vpt, flag, False).numpy()
                ctx.point(f"pi_grad(phase={flag}, expand=False) 1-D", "aux", np.r_[pg[0].ravel(), pg[1].ravel()], want, case, scale=scale)
                pg = pi_grad_form(st, A, vt.unsqueeze(0), vpt.unsqueeze(0), flag).numpy()
                ctx.point(f"pi_grad(phase={flag}) default expand, batch of one", "aux", np.r_[pg[0].ravel(), pg[1].ravel()], want, case, scale=scale)
            ctx.count("pi_grad/expand=False:d_mu" + ("=0" if all(x == 0 for x in ph["d"]) else "!=0"))
            if n <= 3 and len(data) <= 40:
                layout_model_points(ctx, st, case, n, h, a, am, ph, space, scale)
        if len(data) <= 40:
            args_model_points(ctx, st, kind, case, n, h, a, am, ph, data, S, D, scale)


# ------------------------------------------------------------------ extension round 2: the code AROUND the per-sample formulas, against the model
TH_FORMS = "C03_bases_forms_agree / C03_bases_forms_agree_1d / C03_bases_none"
KEYS = "XYZ"


def _bases_json(b):
    """the caller's `bases` object as the model's BasesArg"""
    if b is None:
        return {"form": "none"}
    if isinstance(b, str):
        return {"form": "str", "value": b}
    if isinstance(b, np.ndarray):
        b = b.tolist()
    b = list(b)
    if all(isinstance(x, str) for x in b):
        return {"form": "seq1", "value": b}
    return {"form": "seq2", "value": [list(r) for r in b]}


def args_model_points(ctx, st, kind, case, n, h, a, am, ph, data, S, D, scale):
    """gradient(samples, bases) with `bases` in every form the code distinguishes, real code against Grads.gradientCplxArgs /
    gradientDMArgs on the same batch.  Documented forms of a valid assignment (numpy.ndarray / list[str] / None): property level (values);
    malformed / undocumented forms (incl. tuple[str], list of lists, one-row 2-D array for a 1-D sample): ctx.info, recorded only - the
    property does not say what must be refused."""
    dict_enc = {L: [[[f2b(D[L][r][c].real), f2b(D[L][r][c].imag)] for c in range(2)] for r in range(2)] for L in "XYZ"}
    strings = [b for _, b in data]
    N = len(data)
    base = dict(kind=kind, n=n, h=h, am=qc.pbits(am), ph=qc.pbits(ph), dict=dict_enc, keys=KEYS)
    if kind == "dm":
        base.update(a=a, eps=f2b(EPS))
    rows_all = [[int(x) for x in s] for s, _ in data]

    def both(name, level, samples_t, one, rows, bobj):
        try:
            got = [_np(t).ravel() for t in (st.gradient(samples_t) if bobj is None else st.gradient(samples_t, bobj))]
            iok = True
        except Exception:  # noqa: BLE001  (refused-or-not only: never the exception type)
            got, iok = None, False
        m = ctx.driver.call("c03.args", samples={"one": one, "rows": rows}, bases=_bases_json(bobj), **base)
        mok = bool(m["ok"])
        ctx.count(f"bases-form/{name}: " + ("accepted" if iok else "refused"))
        if level == "info":
            # malformed / undocumented forms: the property does not say what must be refused - recorded, never a verdict
            ctx.info(f"gradient(samples, bases as {name}) [malformed / undocumented]: accepted", iok, mok)
            return
        ok = ctx.point(f"gradient(samples, bases as {name}): accepted by the code == accepted by the model", level, [int(iok)], [int(mok)],
                       {**case, "form": name}, exact=True, sig=f"{kind}/bases-form-accept/{name}", theorem=TH_FORMS if level == "property" else "C03_bases_forms_refused")
        if ok and iok:
            for i in (0, 1):
                ctx.point(f"gradient(samples, bases as {name})[{i}]", level, got[i], unbits(m["gradient"][i]), {**case, "form": name}, scale=scale,
                          rtol=5e-8, atol=1e-10, sig=f"{kind}/bases-form-value/{name}", theorem=TH_FORMS)

    # ---- documented forms of the batch (property level).  audit 3 (B-10): the docstring documents `numpy.ndarray or list[str] or None`
    # (neural_state.py gradient / positive_phase_gradients); a tuple of strings and a list of lists of letters only work through the
    # present np.array(list(bases)) conversion - undocumented forms, recorded only (an `isinstance(bases, list)` test may refuse a tuple)
    for name, bobj in (("2-D char array", np.array([list(b) for b in strings])), ("list of lists", [list(b) for b in strings]),
                       ("list[str]", list(strings)), ("tuple[str]", tuple(strings)), ("1-D str ndarray", np.array(strings)), ("None", None)):
        both(name, "info" if name in ("list of lists", "tuple[str]") else "property", S, False, rows_all, bobj)
    # ---- the 1-D single-sample forms (quantifier: "1-D single-sample call form"): last rotated row, else row 0
    rot_rows = [k for k, b_ in enumerate(strings) if any(ch != "Z" for ch in b_)]
    k0 = rot_rows[-1] if rot_rows else 0
    v1, b0 = S[k0], strings[k0]
    for name, bobj in (("1-D/str", b0), ("1-D/list of letters", list(b0)), ("1-D/char array", np.array(list(b0))),
                       ("1-D/one-row 2-D array", np.array([list(b0)])), ("1-D/None", None)):
        # audit 3 (B-10): a one-row 2-D array for a 1-D sample only works through np.array(list(bases)).reshape(1, -1): undocumented -> recorded only
        both(name, "info" if name == "1-D/one-row 2-D array" else "property", v1, True, [rows_all[k0]], bobj)
    both("batch of one/[str]", "property", S[k0:k0 + 1], False, [rows_all[k0]], [b0])
    # ---- malformed / undocumented (auxiliary level): what is refused, and what is silently accepted
    mal = [("str for a batch", S, False, rows_all, strings[0]), ("empty list", S, False, rows_all, []),
           ("one row too many", S, False, rows_all, strings + [strings[0]]),
           ("one row too many (2-D)", S, False, rows_all, [list(b) for b in strings + [strings[0]]]),
           ("lower-case letter", S, False, rows_all, [strings[0].replace("Z", "z").replace("X", "x").replace("Y", "y")] + strings[1:]),
           ("long strings, trailing Z", S, False, rows_all, [b + "Z" for b in strings]),
           ("long strings, trailing X", S, False, rows_all, [b + "X" for b in strings]),
           ("1-D/[str] (one multi-letter entry)", v1, True, [rows_all[k0]], [b0] if n > 1 else ["XZ"]),
           ("1-D/two-row 2-D array", v1, True, [rows_all[k0]], [list(b0), list(b0)])]
    if N >= 2:
        mal += [("one row too few", S, False, rows_all, strings[:-1]), ("ragged strings", S, False, rows_all, [strings[0] + "Z"] + strings[1:]),
                ("ragged rows (2-D)", S, False, rows_all, [list(strings[0]) + ["Z"]] + [list(b) for b in strings[1:]])]
    if n >= 2:
        mal += [("short strings (last site missing)", S, False, rows_all, [b[:-1] for b in strings]),
                ("multi-letter entries (2-D)", S, False, rows_all, [[b[:2]] + list(b[2:]) for b in strings])]
    for name, smp, one, rows, bobj in mal:
        both(name, "info", smp, one, rows, bobj)


def _ft(m):
    return (list(m["shape"]), unbits(m["data"])) if m["ok"] else None


def layout_model_points(ctx, st, case, n, h, a, am, ph, space, scale):
    """full tensors (shape + every entry) of gamma_grad / pi_grad for B, B' in {1, 2, 3} and 1-D operands, expand on and off"""
    K = len(space)

    def rows_of(B, off, step):
        return [[float(x) for x in space[(off + step * k) % K]] for k in range(B)]
    combos = [((False, B), (False, Bp)) for B in (1, 2, 3) for Bp in (1, 2, 3)]
    combos += [((True, 1), (True, 1)), ((True, 1), (False, 1)), ((False, 3), (True, 1)), ((True, 1), (False, 3)), ((False, 1), (True, 1))]
    for (one_v, B), (one_p, Bp) in combos:
        rv, rp = rows_of(B, 1, 3), rows_of(Bp, 2, 5)
        tv = torch.tensor(rv[0] if one_v else rv, dtype=torch.double)
        tp = torch.tensor(rp[0] if one_p else rp, dtype=torch.double)
        tag = f"v={'1-D' if one_v else B},vp={'1-D' if one_p else Bp}"
        m = ctx.driver.call("c03.layout", n=n, h=h, a=a, am=qc.pbits(am), ph=qc.pbits(ph),
                            v={"one": one_v, "rows": bits(rv)}, vp={"one": one_p, "rows": bits(rp)})
        lcase = {**case, "layout": tag}
        calls = []
        for expand in (True, False):
            e = "expand" if expand else "noexpand"
            calls += [(f"gamma_grad(+1,{e})", lambda expand=expand: st.rbm_am.gamma_grad(tv, tp, eta=1, expand=expand), (m[f"gamma_plus_{e}"], None), expand, "C03_gamma_grad_layout"),
                      (f"gamma_grad(-1,{e})", lambda expand=expand: st.rbm_ph.gamma_grad(tv, tp, eta=-1, expand=expand), (m[f"gamma_minus_{e}"], None), expand, "C03_gamma_grad_layout"),
                      (f"pi_grad(phase=False,{e})", lambda expand=expand: st.pi_grad(tv, tp, phase=False, expand=expand), tuple(m[f"pi_am_{e}"]), expand, "C03_pi_grad_layout"),
                      (f"pi_grad(phase=True,{e})", lambda expand=expand: st.pi_grad(tv, tp, phase=True, expand=expand), tuple(m[f"pi_ph_{e}"]), expand, "C03_pi_grad_layout")]
        for name, f, (mre, mim), expand, th in calls:
            # gamma_grad / pi_grad are internal helpers of the gradient (the property names the TRAINING gradients, compared above):
            # their tensor layout is the tie between model and code - auxiliary, never a replayable property violation
            # audit 3 (B-16): only expand=True on two 2-D operands is the path training takes (any B, B': the outer product of the batches);
            # the expand=False branch (mismatched batch sizes refused, the odd acceptance by pi_grad(phase=True, expand=False)) and the 1-D
            # squeeze shapes are not used by any training gradient and not named by the property -> recorded only
            level = "aux" if expand and not one_v and not one_p else "info"
            try:
                t = _np(f())
                iok = True
            except Exception:  # noqa: BLE001
                t, iok = None, False
            ctx.count(f"layout/{name}/{tag}: " + ("accepted" if iok else "refused"))
            sig = f"dm/layout/{name}"
            if level == "info":
                mok = bool(mre["ok"])
                same = iok == mok
                if same and iok:
                    shp, dat = _ft(mre)
                    mim_d = _ft(mim)[1] if mim is not None else np.zeros(t[1].size)
                    same = list(t.shape) == [2] + shp and bool(np.allclose(t[0].ravel(), dat, rtol=1e-6, atol=1e-9 * scale)) \
                        and bool(np.allclose(t[1].ravel(), mim_d, rtol=1e-6, atol=1e-9 * scale))
                ctx.info(f"layout/{name} [expand=False branch / 1-D operands]: acceptance, shape and entries", bool(same), True)
                continue
            if not ctx.point(f"{name} [{tag}]: accepted by the code == accepted by the model", level, [int(iok)], [int(bool(mre['ok']))], lcase,
                             exact=True, sig=sig, theorem=th) or not iok:
                continue
            shp, dat = _ft(mre)
            ok = ctx.point(f"{name} [{tag}]: shape (after the leading real/imag axis)", level, list(t.shape), [2] + shp, lcase, exact=True, sig=sig, theorem=th)
            if not ok:
                continue
            ctx.point(f"{name} [{tag}]: real part, every entry", level, t[0].ravel(), dat, lcase, scale=scale, sig=sig, theorem=th)
            ctx.point(f"{name} [{tag}]: imaginary part, every entry", level, t[1].ravel(), _ft(mim)[1] if mim is not None else np.zeros(t[1].size), lcase,
                      scale=scale, sig=sig, theorem=th)


def zero_amplitude_probe(ctx):
    """coverage-map item 9: ComplexWaveFunction.rotated_gradient at a ZERO rotated amplitude (all-zero parameters, n = 1, outcome 1 in
    basis X: Upsi = (psi(0) - psi(1)) / sqrt 2 = 0).  The loss is +inf there (C03_zero_amplitude_iff_infinite_nll), outside every gradient
    theorem's hypothesis: INFORMATIONAL - what the code and the Float model return is counted, no verdict."""
    zero = {"W": [[0.0]], "b": [0.0], "c": [0.0]}
    st = af.make_complex(af.Args(None), 1, 1, zero, zero)
    v = torch.tensor([[1.0]], dtype=torch.double)
    D = dict_np()
    try:
        g = [_np(t) for t in st.rotated_gradient(np.array(["X"]), v)]
        what = "nan" if any(np.any(np.isnan(x)) for x in g) else "inf" if any(np.any(np.isinf(x)) for x in g) else "finite"
    except Exception as e:  # noqa: BLE001
        what = "raises " + type(e).__name__
    ctx.count(f"zero-amplitude (informational): rotated_gradient at Upsi = 0 returns {what}")
    if ctx.driver is not None:
        dict_enc = {L: [[[f2b(D[L][r][c].real), f2b(D[L][r][c].imag)] for c in range(2)] for r in range(2)] for L in "XYZ"}
        m = ctx.driver.call("c03.zero_amp", n=1, h=1, am=qc.pbits(zero), ph=qc.pbits(zero), dict=dict_enc, samples=[{"bits": [1], "basis": "X"}])[0]
        up, iv = unbits(m["upsi"]), unbits(m["inv"])
        gm = np.r_[unbits(m["grad"][0]), unbits(m["grad"][1])]
        ctx.count(f"zero-amplitude (informational): model Upsi == 0 exactly: {bool(np.all(up == 0))}; Float C.invH(Upsi) is "
                  + ("nan" if np.any(np.isnan(iv)) else "finite") + "; Float model gradient is " + ("nan" if np.any(np.isnan(gm)) else "finite"))


def fit_pairing_probe(ctx, rng, kind, forms=False):
    """a short real fit (>= 2 epochs): every row handed to compute_batch_gradients must come with ITS OWN basis in every epoch
    (rows are made distinct so that the pairing is observable).  `forms=False`: the case of the earlier rounds (epochs=3, pos_batch_size=4,
    k=1 as Python ints by keyword); `forms=True`: epochs / batch sizes / k drawn from `rng` and handed over in the forms of the case's
    `aseed` stream, any positional prefix of the documented order; the case then stores everything its replay needs (parameters, torch seed)."""
    n = 3
    rows = [[(k >> (n - 1 - j)) & 1 for j in range(n)] for k in range(2 ** n)]
    rng.shuffle(rows)
    rows = rows[:6]
    strings = ["".join(rng.choice("XYZ") for _ in range(n)) for _ in rows]
    strings[0] = "Z" * n
    case = {"kind": kind, "probe": "fit-pairing", "rows": rows, "bases": strings}
    if kind == "cplx":
        am, ph = qc.rand_rbm_params(rng, n, 2, 0.3), qc.rand_rbm_params(rng, n, 2, 0.3)
    else:
        am, ph = qc.rand_prbm_params(rng, n, 2, 2, 0.3), qc.rand_prbm_params(rng, n, 2, 2, 0.3, d_zero=rng.random() < 0.5)
    if forms:
        case.update(am=am, ph=ph, epochs=rng.choice([2, 3, 4]), pos_batch_size=rng.choice([1, 2, 3, 4, 5, 6, 7]),
                    neg_batch_size=rng.choice([None, None, 2, 3, 5]), k=rng.choice([1, 1, 2]), aseed=af.draw_aseed(rng), tseed=rng.randrange(2 ** 31))
    fit_pairing_eval(ctx, case, am, ph)


def fit_pairing_eval(ctx, case, am, ph):
    af.tolerant(ctx, _fit_pairing_eval, ctx, case, am, ph)


def _fit_pairing_eval(ctx, case, am, ph):
    kind, n, rows, strings = case["kind"], 3, case["rows"], case["bases"]
    A = af.Args(case.get("aseed"))
    E, pbs, nbs, k = case.get("epochs", 3), case.get("pos_batch_size", 4), case.get("neg_batch_size"), case.get("k", 1)
    pair = {tuple(r): b for r, b in zip(rows, strings)}
    ctx.current_case = case
    ctx.case({key: case[key] for key in ("kind", "probe", "rows", "bases")}, nontrivial=len(set(strings)) >= 3)
    st = af.make_complex(A, n, 2, am, ph) if kind == "cplx" else af.make_density(A, n, 2, 2, am, ph)
    if not af.check_sizes(ctx, st, (n, 2) if kind == "cplx" else (n, 2, 2), case, A, f"{kind}/fit-pairing-ctor-sizes", TH_CTOR):
        return
    seen = []
    orig = st.compute_batch_gradients

    def cbg(k, samples_batch, neg_batch, bases_batch=None):
        for r, b in zip(samples_batch.numpy(), np.asarray(bases_batch)):
            seen.append((tuple(int(x) for x in r), "".join(b)))
        return orig(k, samples_batch, neg_batch, bases_batch)

    st.compute_batch_gradients = cbg
    data_t, IB = torch.tensor(rows, dtype=torch.double), np.array([list(b) for b in strings])
    if case.get("aseed") is None:
        st.fit(data_t, epochs=3, pos_batch_size=4, k=1, lr=0.01, input_bases=IB)
    else:
        torch.manual_seed(case["tseed"])
        vals = [("epochs", A.i(E)), ("pos_batch_size", A.i(pbs)), ("neg_batch_size", None if nbs is None else A.i(nbs)), ("k", A.i(k)),
                ("lr", 0.01), ("input_bases", IB)]
        npos = A.choice(range(0, 7))
        ctx.count(f"fit/first {npos} options positional"); ctx.count(f"fit/epochs={E}"); ctx.count(f"fit/pos_batch_size={pbs}"); ctx.count(f"fit/neg_batch_size={nbs}")
        try:  # "every public method ... is callable": a refusal of a documented integer option is a failure of THIS call form
            st.fit(data_t, *[v for _, v in vals[:npos]], **{key: v for key, v in vals[npos:]})
        except Exception as e:  # noqa: BLE001
            ctx.oracle("fit accepts epochs / pos_batch_size / neg_batch_size / k as integer objects", False, case,
                       detail={"exception": type(e).__name__, "message": str(e)[:200], "given_as": A.used(), "positional": npos},
                       sig=f"{kind}/fit-int-forms", theorem="C07_own_basis (C03: the gradient computed for training)")
            return
    A.count_into(ctx)
    bad = [(r, b) for r, b in seen if pair.get(r) != b]
    N = len(rows)
    every = len(seen) == E * N and all(sorted(r for r, _ in seen[e * N:(e + 1) * N]) == sorted(tuple(r) for r in rows) for e in range(E))
    ctx.oracle("every training row is paired with its own basis in every epoch", not bad and len(seen) == E * N and every, case,
               detail={"bad": bad[:5], "seen": len(seen), "expected": E * N, "every row once per epoch": every}, sig=f"{kind}/fit-pairing",
               theorem="C07_own_basis (C03: NLL in each sample's own basis)")


def history_probe(ctx, case):
    af.tolerant(ctx, _history_probe, ctx, case)


def _history_probe(ctx, case):
    """same state object, same sample/basis/space tensors: overwrite all parameters in place and compare the public gradients
    with the model at the NEW parameters (stale caches inside the gradient code would keep following the old ones)"""
    if ctx.driver is None:
        return
    import random as _r
    rng = _r.Random(case["data"][0][1] + str(len(case["data"])) + str(case["am"]["b"][0]))
    kind, n, h, a = case["kind"], case["n"], case["h"], case.get("a", 0)
    data = [(list(s), b) for s, b in case["data"]]
    S, B = tensors(data)
    space_t = torch.tensor(qc.all_states(n), dtype=torch.double)
    D = dict_np()
    # the constructor arguments in the forms of a second stream derived from the case's `aseed` (None: plain, as before)
    A = af.Args(None if case.get("aseed") is None else (int(case["aseed"]) ^ 0x5BD1E995) % (2 ** 31))
    hcase = {**case, "history": True}
    if kind == "pos":
        st = af.make_positive(A, n, h, case["am"])
    elif kind == "cplx":
        st = af.make_complex(A, n, h, case["am"], case["ph"])
    else:
        st = af.make_density(A, n, h, a, case["am"], case["ph"])
    if not af.check_sizes(ctx, st, (n, h, a) if kind == "dm" else (n, h), hcase, A, f"{kind}/history-ctor-sizes", TH_CTOR):
        return
    A.count_into(ctx)
    if kind == "pos":
        first = st.compute_exact_gradients(S, space_t)
        am2 = qc.rand_rbm_params(rng, n, h, 0.8); ph2 = None
        qc.set_rbm(st.rbm_am, am2, inplace=True)
        ex = [t.numpy().copy() for t in st.compute_exact_gradients(S, space_t)]
        m = ctx.driver.call("c03.pos", n=n, h=h, am=qc.pbits(am2), rows=bits([s for s, _ in data]))
        model = [unbits(m["exact"])]
    else:
        dict_enc = {L: [[[f2b(D[L][r][c].real), f2b(D[L][r][c].imag)] for c in range(2)] for r in range(2)] for L in "XYZ"}
        samples = [{"bits": s, "basis": b} for s, b in data]
        if kind == "cplx":
            first = st.compute_exact_gradients(S, space_t, B)
            am2 = qc.rand_rbm_params(rng, n, h, 0.8); ph2 = qc.rand_rbm_params(rng, n, h, 0.8)
            qc.set_rbm(st.rbm_am, am2, inplace=True); qc.set_rbm(st.rbm_ph, ph2, inplace=True)
            m = ctx.driver.call("c03.cplx", n=n, h=h, am=qc.pbits(am2), ph=qc.pbits(ph2), dict=dict_enc, samples=samples)
        else:
            first = st.compute_exact_gradients(S, space_t, B)
            am2 = qc.rand_prbm_params(rng, n, h, a, 0.8); ph2 = qc.rand_prbm_params(rng, n, h, a, 0.8, d_zero=rng.random() < 0.5)
            qc.set_prbm(st.rbm_am, am2, inplace=True); qc.set_prbm(st.rbm_ph, ph2, inplace=True)
            m = ctx.driver.call("c03.dm", n=n, h=h, a=a, am=qc.pbits(am2), ph=qc.pbits(ph2), dict=dict_enc, eps=f2b(EPS), samples=samples)
        ex = [t.numpy().copy() for t in st.compute_exact_gradients(S, space_t, B)]
        model = [unbits(m["exact"][0]), unbits(m["exact"][1])]
    for i, (e, mo) in enumerate(zip(ex, model)):
        ctx.point(f"compute_exact_gradients[{i}] after in-place re-parametrisation (same objects)", "property", e, mo, hcase,
                  scale=max(1.0, float(np.max(np.abs(e)))), rtol=2e-6, atol=1e-8, sig=f"{kind}/history", theorem=TH[kind])


def gen_cases(ctx, thorough):
    rng = ctx.rng
    plan = []
    for kind in ("pos", "cplx", "dm"):
        nmax = 4 if thorough else 3
        reps = 24 if thorough else 2
        for n in range(1, nmax + 1):
            for _ in range(reps if not (kind == "dm" and n == 4) else 4):
                h = rng.choice([x for x in (1, 2, 3) if x != n] or [2])
                a = rng.choice([1, 2, 3])
                scale = rng.choice([0.3, 0.7, 1.2])
                N = rng.randint(3, 7 if n < 3 else 5)
                if kind == "dm":
                    am = qc.rand_prbm_params(rng, n, h, a, scale)
                    ph = qc.rand_prbm_params(rng, n, h, a, scale, d_zero=rng.random() < 0.5)
                else:
                    am = qc.rand_rbm_params(rng, n, h, scale)
                    ph = qc.rand_rbm_params(rng, n, h, scale) if kind == "cplx" else None
                plan.append({"aseed": af.draw_aseed(rng), "kind": kind, "n": n, "h": h, "a": a, "am": am, "ph": ph, "data": mk_data(rng, n, N, kind)})
        # quick tier: one n = 4 case per kind (the quantifier's largest size)
        if not thorough:
            n, h, a = 4, rng.choice([1, 2, 3]), rng.choice([1, 2])
            if kind == "dm":
                am = qc.rand_prbm_params(rng, n, h, a, 0.7); ph = qc.rand_prbm_params(rng, n, h, a, 0.7, d_zero=rng.random() < 0.5)
            else:
                am = qc.rand_rbm_params(rng, n, h, 0.7); ph = qc.rand_rbm_params(rng, n, h, 0.7) if kind == "cplx" else None
            plan.append({"aseed": af.draw_aseed(rng), "kind": kind, "n": n, "h": h, "a": a, "am": am, "ph": ph, "data": mk_data(rng, n, 4, kind), "regime": "n=4"})
        # saturated regime: scale 3 and 10 (|pre-activations| >> 1: prob_h_given_v at its clamp, softplus in its linear branch)
        for scale in (3.0, 10.0):
            for n in ((2, 3) if not thorough else (1, 2, 3, 3)):
                h = rng.choice([1, 2, 3]); a = rng.choice([1, 2])
                if kind == "dm":
                    am = qc.rand_prbm_params(rng, n, h, a, scale); ph = qc.rand_prbm_params(rng, n, h, a, scale, d_zero=rng.random() < 0.5)
                else:
                    am = qc.rand_rbm_params(rng, n, h, scale); ph = qc.rand_rbm_params(rng, n, h, scale) if kind == "cplx" else None
                plan.append({"aseed": af.draw_aseed(rng), "kind": kind, "n": n, "h": h, "a": a, "am": am, "ph": ph, "data": mk_data(rng, n, rng.randint(3, 5), kind),
                             "regime": f"scale={scale:g}"})
        # all-strings regime: every basis string of {X,Y,Z}^n occurs in ONE dataset (random outcomes, random row order)
        if kind != "pos":
            for n in ((1, 2, 3, 4) if thorough else (1, 2, 3)):
                h = rng.choice([1, 2, 3]); a = rng.choice([1, 2])
                if kind == "dm":
                    am = qc.rand_prbm_params(rng, n, h, a, 0.8); ph = qc.rand_prbm_params(rng, n, h, a, 0.8, d_zero=rng.random() < 0.5)
                else:
                    am = qc.rand_rbm_params(rng, n, h, 0.8); ph = qc.rand_rbm_params(rng, n, h, 0.8)
                strings = ["".join(t) for t in itertools.product("XYZ", repeat=n)]
                rng.shuffle(strings)
                data = [([rng.randint(0, 1) for _ in range(n)], b_) for b_ in strings]
                plan.append({"aseed": af.draw_aseed(rng), "kind": kind, "n": n, "h": h, "a": a, "am": am, "ph": ph, "data": data, "regime": "all-strings"})
        # small-amplitude regime (|<s|U|psi>|^2 down to ~1e-12): strongly negative visible biases, outcomes with many 1s
        if kind != "pos":
            for _ in range(6 if thorough else 1):
                n = rng.choice([2, 3]); h = rng.choice([1, 2]); a = rng.choice([1, 2])
                if kind == "dm":
                    am = qc.rand_prbm_params(rng, n, h, a, 0.4); ph = qc.rand_prbm_params(rng, n, h, a, 0.6, d_zero=rng.random() < 0.5)
                else:
                    am = qc.rand_rbm_params(rng, n, h, 0.4); ph = qc.rand_rbm_params(rng, n, h, 0.6)
                n = 3
                if kind == "dm":
                    am = qc.rand_prbm_params(rng, n, h, a, 0.4); ph = qc.rand_prbm_params(rng, n, h, a, 0.6, d_zero=rng.random() < 0.5)
                else:
                    am = qc.rand_rbm_params(rng, n, h, 0.4); ph = qc.rand_rbm_params(rng, n, h, 0.6)
                am["b"] = [-rng.uniform(9.0, 14.0) for _ in range(n)]
                data = mk_data(rng, n, 4, kind)
                # outcomes with 1s on the reference-basis sites and exactly one rotated site: the rotated amplitude is ~exp(-sum b)/2
                one_rot = lambda: "".join(rng.choice("XY") if j == jj else "Z" for j in range(n))  # noqa: E731
                fixed = []
                for i, (s_, b_) in enumerate(data):
                    jj = rng.randrange(n)
                    fixed.append(([1] * n, one_rot()) if i < 2 else (s_, b_))
                data = fixed
                plan.append({"aseed": af.draw_aseed(rng), "kind": kind, "n": n, "h": h, "a": a, "am": am, "ph": ph, "data": data, "regime": "small-amplitude"})
        # near-|+>^n regime: couplings, visible biases and phases ~1e-3 with O(1) hidden biases; a rotated outcome "1" is then a strongly
        # cancelling sum of amplitudes, which amplifies any loss of precision in an intermediate (e.g. a single-precision detour)
        if kind != "pos":
            for _ in range(4 if thorough else 1):
                n = rng.choice([2, 3]); h = rng.choice([1, 2, 3]); a = rng.choice([1, 2])
                if kind == "dm":
                    am = qc.rand_prbm_params(rng, n, h, a, 1e-3); ph = qc.rand_prbm_params(rng, n, h, a, 1e-3, d_zero=rng.random() < 0.5)
                    am["d"] = [rng.gauss(0.0, 1.0) for _ in range(a)]
                else:
                    am = qc.rand_rbm_params(rng, n, h, 1e-3); ph = qc.rand_rbm_params(rng, n, h, 1e-3)
                am["c"] = [rng.gauss(0.0, 1.0) for _ in range(h)]
                ph["c"] = [rng.gauss(0.0, 1.0) for _ in range(h)]
                data = []
                for i in range(4):
                    jj = rng.randrange(n)
                    bs = "".join(rng.choice("XY") if j == jj else "Z" for j in range(n))
                    sv = [1 if j == jj else rng.randint(0, 1) for j in range(n)]
                    data.append((sv, bs))
                plan.append({"aseed": af.draw_aseed(rng), "kind": kind, "n": n, "h": h, "a": a, "am": am, "ph": ph, "data": data, "regime": "near-plus"})
        # huge-amplitude regime (extension round X2): |Upsi|^2 beyond the doubles, see mk_huge_case
        # (drawn from a COPY of the generator state: seeded by ctx.rng, but the stream every other case is drawn from is what it was before)
        if kind == "cplx":
            import random as _random
            sub = _random.Random(); sub.setstate(rng.getstate())
            for _ in range(4 if thorough else 1):
                plan.append(mk_huge_case(sub))
        # one batch with more than 256 distinct bases (group labels beyond one byte)
        if kind == "cplx":
            n = 6
            strings = ["".join(t) for t in itertools.product("XYZ", repeat=n)]
            rng.shuffle(strings)
            rows = 270 if thorough else 262
            data = [([rng.randint(0, 1) for _ in range(n)], strings[i]) for i in range(rows)]
            plan.append({"aseed": af.draw_aseed(rng), "kind": kind, "n": n, "h": 1, "a": 1, "am": qc.rand_rbm_params(rng, n, 1, 0.5), "ph": qc.rand_rbm_params(rng, n, 1, 0.5),
                         "data": data, "regime": "many-bases", "no_fd": True})
    return plan


def run(ctx):
    ctx.rule = RULE
    for k_, case in enumerate(gen_cases(ctx, ctx.tier == "thorough")):
        one_case(ctx, case)
        if k_ % 2 == 0 and not case.get("regime"):
            history_probe(ctx, case)
    zero_amplitude_probe(ctx)
    for kind in ("cplx", "dm"):
        for _ in range(6 if ctx.tier == "thorough" else 3):   # round 5: 3 per kind in quick (each hands 4 integer options over in the forms of its stream)
            fit_pairing_probe(ctx, ctx.rng, kind, forms=True)


def search(ctx):
    drv, ctx.driver = ctx.driver, None
    try:
        for case in gen_cases(ctx, True):
            one_case(ctx, case)
    finally:
        ctx.driver = drv


def replay(ctx, case):
    if case.get("probe") == "fit-pairing":
        if "aseed" in case:      # round 5: the case carries everything (parameters, option values, form stream, torch seed)
            fit_pairing_eval(ctx, case, case["am"], case["ph"])
        else:                    # cases stored before: re-created as they always were
            import random as _r
            fit_pairing_probe(ctx, _r.Random(0), case["kind"])
    else:
        one_case(ctx, case)
        if case.get("history"):
            history_probe(ctx, case)
