"""C07 — correspondence of the batching model (QV.Model.Batching: shuffleData / epochBatches / extractRefbasis /
epochOnHeap) with NeuralStateBase._shuffle_data / fit / extract_refbasis_samples.

The real `fit` runs with torch.randperm / torch.randint wrapped in-process (results recorded and handed to the model),
`compute_batch_gradients` wrapped on the instance (arguments copied, storage pointers noted), and the caller's data /
bases objects compared before and after (bytes and identity).

A case is a SESSION: one state object and one or more consecutive `fit` calls on it. Each call has its own data
(container form incl. non-contiguous views), bases (new object / the same object again / the same object edited in place),
batch sizes and epochs; every batch of every call is compared with the model fed the data of THAT call."""
import collections
import contextlib
import copy
import io

import numpy as np

from . import argforms as af
from . import qc
from .qc import torch

FILES = [
    "qucumber/nn_states/neural_state.py",
    "qucumber/utils/data.py",
]
REQUIRED_THEOREMS = ["C07_partition", "C07_own_basis", "C07_sizes", "C07_zip_truncation", "C07_negative", "C07_refbasis",
                     "C07_fit_batches", "C07_no_mutation", "C07_fit_epoch", "C07_positional_call",
                     "C07_train_samples_value"]   # extension round 2
RULE = ("case = session on one state object (kind [positive: no bases; complex/density: bases], n) of 1..3 consecutive fit calls, "
        "each call = (N, pos_batch_size B, neg_batch_size in {None, 0, B, other incl. > B and > N}, epochs 1..3, data container in "
        "{tensor(double/float32/int64/uint8), non-contiguous tensor views (transposed / strided with offset), ndarray(float64/"
        "float32/int64, Fortran order, strided view), list, tuple}, rows 0/1 with forced duplicates, bases over {X,Y,Z} with >= 1 "
        "all-Z row (optionally also user-registered letters of 1-2 characters, state built with unitary_dict=, incl. a row that is all Z but one "
        "site) as C-order / Fortran-order / strided-view array; call form: the first j = 1..15 documented parameters positionally, the rest by "
        "keyword, k and starting_epoch varied; data object and bases object of a later call: new / the same "
        "object again / the same object overwritten in place; in multi-epoch calls optionally the caller's data object overwritten in place from an "
        "on_epoch_end callback of a non-final epoch while fit is running); covers N < B, N = mB, N = mB + r; thorough enumerates single calls "
        "N <= 12 x B <= 13 x neg in {None, B, other}; plus a malformed stream (B = 0, no reference-basis row, bases of the wrong "
        "length, also as the second call of a session: outside the quantifier, informational counters only) and direct `_shuffle_data` calls "
        "(verdict only for num_batches = ceil(N/B), the only value fit passes; other values informational); ARGUMENT FORMS (stream `aseed` of every "
        "generated session / call / direct call): epochs, pos_batch_size, neg_batch_size, k, starting_epoch and the state's sizes as Python int / "
        "numpy.int64 / int32 / intp / uint8 / 0-d integer numpy array / 0-d integer torch tensor, progbar / time / gpu as bool / int / numpy.bool_ / "
        "numpy comparison result / 0-d numpy array / 0-d torch tensor, by keyword and in the positional prefix; non-trivial "
        "iff N >= 2 and a recorded permutation is not the identity; distinct by hash of the case")
EXTRA_TRUSTED = [
    "C07: torch.randperm(N) returns a permutation of 0..N-1 and torch.randint(high, size) returns `size` values below `high` "
    "(checked on every recorded call); advanced indexing / slicing semantics of torch and numpy as modelled by takeRows / slices; "
    "`ceil(N / B)` in floating point equals the integer ceiling for the sizes used",
]


# ------------------------------------------------------------------ helpers
def user_unitary(theta, phi):
    """a 2x2 unitary in the library's [real, imag] layout: [[cos t, e^{i phi} sin t], [e^{-i phi} sin t, -cos t]]"""
    import math

    c, s_ = math.cos(theta), math.sin(theta)
    return torch.tensor([[[c, math.cos(phi) * s_], [math.cos(phi) * s_, -c]], [[0.0, math.sin(phi) * s_], [-math.sin(phi) * s_, 0.0]]], dtype=torch.double)


def make_state(kind, n, rng, letters=None, aseed=None):
    """`letters` = [{"name", "theta", "phi"}]: basis letters the user registers next to X/Y/Z through the public `unitary_dict=` argument
    (`unitaries.create_dict(name=matrix)`); measurement bases of the training data may then use them.
    `aseed`: argument forms of the constructors' sizes and of `gpu` (harness/argforms.py)"""
    h = rng.choice([1, 2])
    fm = af.Forms(aseed)
    nv, nh, gpu = fm.i("num_visible", n), fm.i("num_hidden", h), fm.gpu()
    if kind == "pos":
        return qc.make_positive(nv, nh, qc.rand_rbm_params(rng, n, h, 0.5), gpu=gpu)
    ud = None
    if letters:
        from qucumber.utils import unitaries

        ud = unitaries.create_dict(**{L["name"]: user_unitary(L["theta"], L["phi"]) for L in letters})
    if kind == "cplx":
        return qc.make_complex(nv, nh, qc.rand_rbm_params(rng, n, h, 0.5), qc.rand_rbm_params(rng, n, h, 0.5), unitary_dict=ud, gpu=gpu)
    return qc.make_density(nv, nh, fm.i("num_aux", 1), qc.rand_prbm_params(rng, n, h, 1, 0.5), qc.rand_prbm_params(rng, n, h, 1, 0.5), unitary_dict=ud,
                           gpu=gpu)


def container(data, form):
    """the caller's data object in the given container form (same values in every form)"""
    if form == "list":
        return copy.deepcopy(data)
    if form == "tuple":
        return tuple(tuple(r) for r in data)
    if form == "list_float":      # extension round 2: nested list of Python floats / bools (torch.tensor(data, dtype=double): no default-dtype rounding)
        return [[float(x) for x in r] for r in data]
    if form == "list_bool":
        return [[bool(x) for x in r] for r in data]
    N, n = len(data), len(data[0])
    if form.startswith("ndarray"):
        kind = form[len("ndarray_"):]
        if kind == "f64_fortran":
            return np.asfortranarray(np.array(data, dtype=np.float64))
        if kind == "i64_strided":  # every second row of a bigger array, first column skipped: non-contiguous view with offset
            big = np.full((2 * N, n + 1), 7, dtype=np.int64)
            v = big[::2, 1:]
            v[...] = np.array(data, dtype=np.int64)
            return v
        return np.array(data, dtype={"f64": np.float64, "f32": np.float32, "i64": np.int64, "u8": np.uint8, "bool": np.bool_}[kind])
    kind = form[len("tensor_"):]
    if kind == "f64_t":  # column-major (transposed) view
        return torch.tensor(data, dtype=torch.double).t().contiguous().t()
    if kind in ("f64_strided", "i64_strided"):
        dt = torch.double if kind[0] == "f" else torch.int64
        big = torch.full((2 * N, n + 1), 7, dtype=dt)
        v = big[::2, 1:]
        v.copy_(torch.tensor(data, dtype=dt))
        return v
    dt = {"f64": torch.double, "f32": torch.float32, "i64": torch.int64, "u8": torch.uint8, "bool": torch.bool}[kind]
    return torch.tensor(data, dtype=dt)


def overwrite(obj, data):
    """write new content of the same shape into the caller's existing data object; False if not possible"""
    if isinstance(obj, torch.Tensor):
        obj.copy_(torch.tensor(data, dtype=obj.dtype))
        return True
    if isinstance(obj, np.ndarray):
        obj[...] = np.array(data, dtype=obj.dtype)
        return True
    if isinstance(obj, list):
        for row, new in zip(obj, data):
            row[:] = [type(row[0])(x) for x in new] if row else new
        return True
    return False


def bases_container(bases, form, width=1):
    a = np.array(bases, dtype=f"<U{max(1, width)}")  # one dtype per session: a later in-place edit must not truncate a longer user letter
    if form == "fortran":
        return np.asfortranarray(a)
    if form == "strided":
        big = np.full((2 * a.shape[0], a.shape[1] + 1), "Q", dtype=a.dtype)
        v = big[::2, 1:]
        v[...] = a
        return v
    return a


def box_of(obj):
    """the container form of the caller's data object as QV.ArgConv.Box travels to the driver"""
    if isinstance(obj, torch.Tensor):
        return "tensor:" + str(obj.dtype).replace("torch.", "")
    if isinstance(obj, np.ndarray):
        return "ndarray:" + str(obj.dtype)
    leaf = obj
    while isinstance(leaf, (list, tuple)) and len(leaf):
        leaf = leaf[0]
    return "list:" + ("bool" if isinstance(leaf, bool) else ("float" if isinstance(leaf, float) else "int"))


def snapshot(obj):
    if isinstance(obj, torch.Tensor):
        return ("tensor", id(obj), obj.data_ptr(), str(obj.dtype), tuple(obj.shape), obj.numpy().tobytes())
    if isinstance(obj, np.ndarray):
        return ("ndarray", id(obj), obj.__array_interface__["data"][0], str(obj.dtype), obj.shape, obj.tobytes())
    return ("list", id(obj), None, None, None, repr(obj))


def storage_key(x):
    if isinstance(x, torch.Tensor):
        return ("t", x.untyped_storage().data_ptr())
    root = x
    while getattr(root, "base", None) is not None:
        root = root.base
    return ("n", root.__array_interface__["data"][0] if isinstance(root, np.ndarray) else id(root))


def shares_memory(x, caller):
    if caller is None or isinstance(caller, list):
        return False
    a = x.numpy() if isinstance(x, torch.Tensor) else x
    c = caller.numpy() if isinstance(caller, torch.Tensor) else caller
    try:
        return bool(np.shares_memory(a, c))
    except Exception:
        return False


class Recorder:
    def __init__(self):
        self.log = []

    def install(self):
        self._rp, self._ri = torch.randperm, torch.randint
        rec = self

        def randperm(n, *a, **k):
            r = rec._rp(n, *a, **k)
            rec.log.append(("perm", int(n), [int(x) for x in r.tolist()]))
            return r

        def randint(*a, **k):
            r = rec._ri(*a, **k)
            high = a[0] if len(a) == 1 else a[1]
            rec.log.append(("randint", int(high), [int(s) for s in k.get("size", ())], [int(x) for x in r.tolist()]))
            return r

        torch.randperm, torch.randint = randperm, randint

    def uninstall(self):
        torch.randperm, torch.randint = self._rp, self._ri


def bases_rows(b):
    """bases batch -> list of rows of letters; a batch that lost its row axis stays visibly different"""
    return [([str(c) for c in r] if isinstance(r, (list, tuple)) else ["<scalar>", str(r)]) for r in b.tolist()]


def rows_int(t):
    return [[int(round(float(x))) for x in row] for row in (t.tolist() if hasattr(t, "tolist") else t)]


def canon(keys):
    seen = {}
    return [seen.setdefault(k, len(seen)) for k in keys]


# ------------------------------------------------------------------ are the recorded draws USED the way the model uses them?
def used_as_modelled(data, bases, mirror, ep):
    """ep = {"perm", "negIdx", "randint", "batches": [(pos, neg, basesbatch|None)]}. True iff the positive rows, in batch order, are the data
    re-indexed by THE recorded permutation and the negative rows are z_samples[recorded randint] (without bases: data[recorded randint], or the
    positive batch itself when the sizes are equal). HOW a draw is turned into batches is not constrained by the property (an inverse permutation,
    a flipped index vector, ... are as good): this only decides whether the model - which takes the draws as inputs - can be compared batch by batch."""
    N = len(data)
    perm = ep["perm"]
    if perm is None or sorted(perm) != list(range(N)):
        return False
    flat = [tuple(r) for p, _, _ in ep["batches"] for r in p]
    if flat != [tuple(data[i]) for i in perm]:
        return False
    negs = [tuple(r) for _, ng, _ in ep["batches"] for r in ng]
    if bases is not None:
        if any(bb is None for _, _, bb in ep["batches"]) or [tuple(r) for _, _, bb in ep["batches"] for r in bb] != [tuple(bases[i]) for i in perm]:
            return False  # (a pairing that is wrong in effect is reported by the effect oracle)
        zlist = [tuple(d) for d, b in zip(data, bases) if all(c == "Z" for c in b)]
        return all(0 <= i < len(zlist) for i in ep["negIdx"]) and negs == [zlist[i] for i in ep["negIdx"]]
    if ep["randint"] is None:
        return mirror and negs == flat
    return all(0 <= i < N for i in ep["negIdx"]) and negs == [tuple(data[i]) for i in ep["negIdx"]]


# level of the "fit trains on a snapshot" tie (audit 3, B-8): not a statement of the property (no property-level verdict); kept as the
# model-code tie of C07_train_samples_value's fresh-storage clause so that the stored no-clone change M5_C07_2 stays visible as
# "no-failing-input-found"; set to "info" to silence it altogether
AFTER_WRITE_LEVEL = "aux"


def effect_oracle(data, bases, B, negB_eff, mirror, batches, alt=None):
    """the property judged by EFFECT alone: `batches` = [(pos, neg, basesbatch|None)] actually handed to compute_batch_gradients in one epoch.
    No reference to how the randomness was drawn. returns (ok, detail).
    alt (audit 3, B-8): the rows the CALLER wrote into its own data object during the running fit; for the epochs after that write "the training
    data" may be read either way (the rows handed over, or the rows the caller's object holds now): the property does not say fit snapshots"""
    datas = [data] + ([alt] if alt is not None else [])
    N = len(data)
    nb = -(-N // B)
    if len(batches) != nb:
        return False, f"{len(batches)} batches, expected ceil({N}/{B}) = {nb}"
    sizes = [len(p) for p, _, _ in batches]
    if sizes[:-1] != [B] * (nb - 1) or sizes[-1] != N - (nb - 1) * B or not (1 <= sizes[-1] <= B):
        return False, f"batch sizes {sizes}"
    flat = [tuple(r) for p, _, _ in batches for r in p]
    if not any(collections.Counter(flat) == collections.Counter(tuple(r) for r in d_) for d_ in datas):
        return False, "positive batches are not a permutation (as a multiset) of the data rows"
    if bases is not None:
        if any(bb is None for _, _, bb in batches):
            return False, "bases supplied but a batch came without its bases"
        if [len(bb) for _, _, bb in batches] != sizes:
            return False, "bases batch sizes differ from sample batch sizes"
        flatb = [tuple(r) for _, _, bb in batches for r in bb]
        if not any(collections.Counter(zip(flat, flatb)) == collections.Counter((tuple(d), tuple(b)) for d, b in zip(d_, bases)) for d_ in datas):
            return False, "some row is not paired with its own basis row"
        zrows = {tuple(d) for d_ in datas for d, b in zip(d_, bases) if all(c == "Z" for c in b)}
        for _, ng, _ in batches:
            if len(ng) != negB_eff or any(tuple(r) not in zrows for r in ng):
                return False, "negative batch not neg_batch_size reference-basis rows"
    else:
        allrows = {tuple(r) for d_ in datas for r in d_}
        for p, ng, bb in batches:
            if bb is not None:
                return False, "bases batch without bases"
            if any(tuple(r) not in allrows for r in ng):
                return False, "negative row is not a training row"
            if len(ng) != negB_eff and not (mirror and ng == p):
                return False, "negative batch: neither neg_batch_size rows nor (equal sizes, no bases) the positive batch itself"
    return True, None


# ------------------------------------------------------------------ call forms: the documented parameter order of `fit`
# (docstring / signature of the three public `fit` methods as documented; NOT read from the implementation under test)
DOC_ORDER = {
    False: ["data", "epochs", "pos_batch_size", "neg_batch_size", "k", "lr", "progbar", "starting_epoch", "time", "callbacks", "optimizer",
            "optimizer_args", "scheduler", "scheduler_args"],
    True: ["data", "epochs", "pos_batch_size", "neg_batch_size", "k", "lr", "input_bases", "progbar", "starting_epoch", "time", "callbacks",
           "optimizer", "optimizer_args", "scheduler", "scheduler_args"],
}
REFS = {"data": 10, "lr": 11, "input_bases": 12, "callbacks": 13, "optimizer": 14}


def call_arguments(kind, run, data_obj, bases_obj, callbacks, ctx=None):
    """(positional arguments, keyword arguments, the same call on the wire for the model's binder `c07.bind`).
    `run["npos"]` = number of leading documented parameters given POSITIONALLY (1 = only `data`, the usual keyword call); the remaining
    explicitly chosen ones are keywords. A `defaults` run passes nothing but data, callbacks and (with bases) input_bases.
    `run["aseed"]` (round 5, argument forms): the integer options are handed over as the integer OBJECTS callers pass (numpy / 0-d array / 0-d
    tensor), progbar and time as truthy / falsy objects; the wire carries their VALUES."""
    has_bases = kind != "pos"
    start = run.get("start", 1)
    fm = af.Forms(run.get("aseed"), ctx)
    objs = {}
    if run.get("defaults"):
        named = {"data": data_obj, "callbacks": callbacks}
        if has_bases:
            named["input_bases"] = bases_obj
        explicit = set(named)
    else:
        named = {"data": data_obj, "epochs": start + run["epochs"] - 1, "pos_batch_size": run["B"], "neg_batch_size": run["neg"], "k": run.get("k", 1),
                 "lr": 0.01, "progbar": False, "starting_epoch": start, "time": False, "callbacks": callbacks, "optimizer": torch.optim.SGD,
                 "optimizer_args": None, "scheduler": None, "scheduler_args": None}
        explicit = {"data", "epochs", "pos_batch_size", "neg_batch_size", "k", "lr", "progbar", "callbacks"} | ({"starting_epoch"} if start != 1 else set())
        if has_bases:
            named["input_bases"] = bases_obj
            explicit.add("input_bases")
        objs = {nm: fm.i(nm, named[nm], allowed) for nm, allowed in af.FIT_INT.items()}
        if fm.rng is not None:   # a progress bar goes to stderr, the Timer's report to stdout: neither is constrained
            for nm in ("progbar", "time"):
                named[nm] = fm.chance(0.2)
                objs[nm] = fm.f(nm, named[nm])
            explicit.add("time")
    order = DOC_ORDER[has_bases]
    npos = max(1, min(run.get("npos", 1), len(order)))
    if run.get("defaults"):
        npos = 1
    pos_names = order[:npos]
    obj = lambda nm: objs.get(nm, named[nm])  # noqa: E731
    pos_args = [obj(nm) for nm in pos_names]
    kw_args = {nm: obj(nm) for nm in order[npos:] if nm in explicit}

    def enc(nm, v):
        if nm in REFS:
            return {"ref": REFS[nm]}
        return v  # None / bool / int

    wire = {"has_bases": has_bases, "pos": [enc(nm, named[nm]) for nm in pos_names], "kw": [[nm, enc(nm, named[nm])] for nm in kw_args]}
    return pos_args, kw_args, wire


def bound_config(ctx, wire):
    """the configuration the MODEL's binder (QV.CallForm.fitBind, theorem C07_positional_call) derives from the call as written"""
    m = ctx.driver.call("c07.bind", **wire)
    if "error" in m:
        return None
    b = m["bound"]
    return {"epochs": b["epochs"], "B": b["pos_batch_size"], "neg": b["neg_batch_size"], "k": b["k"], "start": b["starting_epoch"],
            "bases": b["input_bases"] is not None}


# ------------------------------------------------------------------ one session = consecutive fit calls on one state object
RUN_KEYS = ("N", "B", "neg", "epochs", "form", "data", "bases", "malformed", "defaults", "npos", "k", "start", "bases_form", "scribble")


def as_session(case):
    """old single-fit cases (corpus, earlier replays) are sessions of one call"""
    if "runs" in case:
        return case
    run = {k: case[k] for k in RUN_KEYS if k in case}
    return {"kind": case["kind"], "n": case["n"], "runs": [run], "dseed": case["dseed"], "what": "fit", "letters": case.get("letters")}


def one_fit(ctx, case):
    import random

    case = as_session(case)
    ctx.current_case = case
    kind, n, runs = case["kind"], case["n"], case["runs"]
    rng = random.Random(case["dseed"])
    letters = case.get("letters") or []
    st = make_state(kind, n, rng, letters, case.get("aseed"))
    torch.manual_seed(case["dseed"])
    desc = {k: case[k] for k in case if k != "dseed"}
    state = {"data_obj": None, "bases_obj": None, "data": None, "bases": None, "nontriv": False, "perm0": None,
             "width": max([1] + [len(L["name"]) for L in letters])}
    ctx.count(f"calls_per_session={len(runs)}")
    ctx.count("basis alphabet=" + ("X/Y/Z only" if not letters else "X/Y/Z + user-registered letters (unitary_dict=)"))
    for r_idx, run in enumerate(runs):
        one_call(ctx, {**case, "run": r_idx}, st, kind, run, r_idx, state)
    r0 = runs[0]
    ctx.case(desc, nontrivial=state["nontriv"],
             sample={"kind": kind, "calls": len(runs), "N": r0["N"], "B": r0["B"], "neg": r0["neg"], "epochs": r0["epochs"],
                     "form": r0["form"], "perm0": state["perm0"]})


def caller_objects(run, state):
    """the data / bases objects the caller passes to this call: new, the same object again, or the same object edited in place"""
    data, bases = run["data"], run["bases"]
    mode_d, mode_b = run.get("data_obj", "new"), run.get("bases_obj", "new")
    prev_d, prev_b = state["data_obj"], state["bases_obj"]
    same_shape_d = state["data"] is not None and len(state["data"]) == len(data)
    if mode_d == "same" and prev_d is not None and state["data"] == data:
        data_obj = prev_d
    elif mode_d == "inplace" and prev_d is not None and same_shape_d and overwrite(prev_d, data):
        data_obj = prev_d
    else:
        mode_d = "new"
        data_obj = container(data, run["form"])
    bases_obj = None
    if bases is not None:
        same_shape_b = state["bases"] is not None and len(state["bases"]) == len(bases)
        if mode_b == "same" and prev_b is not None and state["bases"] == bases:
            bases_obj = prev_b
        elif mode_b == "inplace" and prev_b is not None and same_shape_b:
            prev_b[...] = np.array(bases, dtype=prev_b.dtype)
            bases_obj = prev_b
        else:
            mode_b = "new"
            bases_obj = bases_container(bases, run.get("bases_form", "c"), state.get("width", 1))
    state.update(data_obj=data_obj, bases_obj=bases_obj, data=copy.deepcopy(data), bases=copy.deepcopy(bases))
    return data_obj, bases_obj, mode_d, mode_b


def one_call(ctx, case, st, kind, run, r_idx, state):
    N, B, neg, epochs, form = run["N"], run["B"], run["neg"], run["epochs"], run["form"]
    data, bases = run["data"], run["bases"]
    data_obj, bases_obj, mode_d, mode_b = caller_objects(run, state)
    snap_d, snap_b = snapshot(data_obj), (snapshot(bases_obj) if bases_obj is not None else None)
    rec = Recorder()
    orig_cbg = type(st).compute_batch_gradients.__get__(st)
    alias = []
    batch_dtypes = set()
    box = box_of(data_obj)
    data_at_call = copy.deepcopy(data)

    def cbg(k, samples_batch, neg_batch, bases_batch=None):
        rec.log.append(("batch", rows_int(samples_batch), rows_int(neg_batch),
                        bases_rows(bases_batch) if bases_batch is not None else None,
                        (storage_key(samples_batch), storage_key(neg_batch), storage_key(bases_batch) if bases_batch is not None else None)))
        batch_dtypes.add((str(samples_batch.dtype), str(neg_batch.dtype)))
        alias.append(shares_memory(samples_batch, data_obj) or shares_memory(neg_batch, data_obj)
                     or (bases_batch is not None and shares_memory(bases_batch, bases_obj)))
        return orig_cbg(k, samples_batch, neg_batch, bases_batch)

    st.compute_batch_gradients = cbg
    err = None
    from qucumber.callbacks import LambdaCallback

    # "fit works on the data it was GIVEN": after one of the epochs (not the last) the caller overwrites its own data object in place (a buffer
    # re-used for the next acquisition); every later epoch must still batch the rows that were handed to fit. The caller's write is the caller's:
    # the no-mutation oracle compares fit's part only (before the write: as handed over; at return: as the caller left it)
    scr = {"epoch": run.get("scribble"), "done": False, "possible": None, "pre": None, "post": None}
    start_ep = run.get("start", 1)

    def after_epoch(s_, e_):
        if scr["epoch"] is None or scr["done"] or int(e_) != start_ep + scr["epoch"]:
            return
        scr["done"] = True
        scr["pre"] = snapshot(data_obj)
        new_rows = [[1 - int(x) for x in data[0]] for _ in range(N)]  # every row := complement of row 0: another multiset of rows than the data
        scr["possible"] = overwrite(data_obj, new_rows)
        scr["post"] = snapshot(data_obj)
        if scr["possible"]:
            state["data"] = new_rows  # what the caller's object holds from now on
            scr["new_rows"] = new_rows

    marks = LambdaCallback(on_epoch_start=lambda s_, e_: rec.log.append(("epoch", int(e_))), on_epoch_end=after_epoch)
    rec.install()
    pos_args, kw_args, wire = call_arguments(kind, run, data_obj, bases_obj, [marks], ctx)
    try:
        # a progress bar / the Timer's report (should one appear) must not garble the verdict lines
        with contextlib.redirect_stderr(io.StringIO()), contextlib.redirect_stdout(io.StringIO()):
            st.fit(*pos_args, **kw_args)
    except Exception as e:
        err = type(e).__name__
    finally:
        rec.uninstall()
        del st.compute_batch_gradients

    # split the log into epochs BY EFFECT: an epoch = the batches handed to compute_batch_gradients after an on_epoch_start event; the random
    # draws made since the previous epoch's last batch (fit shuffles before on_epoch_start) are attached to it
    eps, pending = [], []
    for en in rec.log:
        if en[0] in ("perm", "randint"):
            if eps and eps[-1]["open"] and not eps[-1]["batches"]:
                eps[-1]["rng"].append(en)  # drawn lazily, after the epoch started and before its first batch
            else:
                pending.append(en)
        elif en[0] == "epoch":
            if eps:
                eps[-1]["open"] = False
            eps.append({"rng": pending, "batches": [], "storages": [], "open": True})
            pending = []
        elif en[0] == "batch":
            if not eps:
                eps.append({"rng": pending, "batches": [], "storages": [], "open": True})
                pending = []
            eps[-1]["batches"].append((en[1], en[2], en[3]))
            eps[-1]["storages"].append(en[4])
            if pending:  # draws made between two batches of the same epoch: not the modelled consumption
                eps[-1]["rng"] = eps[-1]["rng"] + pending
                eps[-1]["late_rng"] = True
                pending = []
    # does the code consume randomness the way the model scripts it (ONE randperm(N), then at most ONE randint for the whole epoch)?
    for ep in eps:
        kinds_ = [en[0] for en in ep["rng"]]
        ep["as_modelled"] = kinds_ in (["perm"], ["perm", "randint"]) and not ep.get("late_rng")
        ep["perm"] = ep["rng"][0][2] if ep["as_modelled"] else None
        ep["permN"] = ep["rng"][0][1] if ep["as_modelled"] else None
        ep["negIdx"], ep["randint"] = [], None
        if ep["as_modelled"] and len(ep["rng"]) == 2:
            en = ep["rng"][1]
            ep["negIdx"] = en[3]
            ep["randint"] = [en[1], en[2][0] if en[2] else 0]
    negB_eff = neg if neg else B
    mirror = bases is None and negB_eff == B
    drawn = bool(eps) and all(ep["as_modelled"] for ep in eps)
    # ... and are the draws USED as the model uses them (batches = data[perm] in order, negatives = z_samples[randint])? Neither is constrained by the
    # property; both only decide whether the batch-by-batch comparison with the model (which takes the draws as inputs) is meaningful
    scripted = drawn and all(used_as_modelled(data, bases, mirror, ep) for ep in eps)
    if N >= 2 and any([r for p_, _, _ in ep["batches"] for r in p_] != [list(map(int, r)) for r in data] for ep in eps):
        state["nontriv"] = True
    if state["perm0"] is None and eps:
        state["perm0"] = eps[0]["perm"]
    for key in (f"kind={kind}", f"form={form}",
                f"neg={'None' if neg is None else ('B' if neg == B else ('0' if neg == 0 else ('>B' if neg > B else '<B')))}",
                f"shape={'N<B' if N < B else ('N=mB' if N % B == 0 else 'N=mB+r')}" if B else "shape=B=0", f"epochs={epochs}",
                f"dup_rows={len({tuple(r) for r in data}) < N}", f"call#{r_idx}:data_obj={mode_d}"):
        ctx.count(key)
    ctx.count("call form=" + ("fit(data) with every option defaulted" if run.get("defaults") else "explicit batch sizes / epochs"))
    npos = len(pos_args)
    ctx.count("positional arguments (documented order): " + ("data only" if npos == 1 else ("through " + DOC_ORDER[kind != "pos"][npos - 1])))
    ctx.count(f"k={run.get('k', 1)}"); ctx.count(f"starting_epoch={run.get('start', 1)}")
    if bases is not None and any(c not in ("X", "Y", "Z") for r_ in bases for c in r_):
        ctx.count("bases of this call use a user-registered letter")
        if any(all(c == "Z" for c in r_) is False and all(c not in ("X", "Y") for c in r_) for r_ in bases):
            ctx.count("  ... in a row whose other sites are all Z (not a reference-basis row)")
    if bases is not None:
        ctx.count(f"call#{r_idx}:bases_obj={mode_b}")
        ctx.count(f"bases_form={run.get('bases_form', 'c')}")
    sig = f"{kind}/fit"
    expect_error = run.get("malformed")
    after_d, after_b = snapshot(data_obj), (snapshot(bases_obj) if bases_obj is not None else None)
    # ---- oracles on the implementation
    if not expect_error:
        ctx.oracle("fit raised", err is None, case, detail=err, sig=f"{sig}/exception")
        ctx.oracle("one pass over the data per requested epoch (epochs starting_epoch..epochs)", len(eps) == epochs, case,
                   detail={"epochs_run": len(eps), "requested": epochs, "starting_epoch": run.get("start", 1)}, sig=f"{sig}/epochs",
                   theorem="C07_positional_call")
        ctx.count("random draws consumed and used as modelled (one randperm, at most one randint per epoch; batches = data[perm], negatives = z[randint])"
                  if scripted else ("random draws consumed as modelled but USED differently" if drawn else "random draws NOT consumed as modelled")
                  + ": batch-by-batch comparison with the model skipped, verdict from the effect oracle")
        for e_i, ep in enumerate(eps):
            # the property judged by effect (no reference to the random draws)
            # epochs after the caller's own in-place write: either reading of "the training data" satisfies the property (audit 3, B-8)
            alt = scr.get("new_rows") if (scr["done"] and scr["possible"] and e_i > scr["epoch"]) else None
            ok, detail = effect_oracle(data, bases, B, negB_eff, mirror, ep["batches"], alt=alt)
            ctx.oracle("epoch batches satisfy the property (by effect: partition with own bases, sizes, negative rows from the allowed pool)", ok,
                       {**case, "epoch": e_i}, detail=detail, sig=f"{sig}/property", theorem="C07_partition, C07_own_basis, C07_sizes, C07_negative")
            if ep["as_modelled"] and ep["randint"] is not None:
                high, size = ep["randint"]
                ctx.oracle("randint result in range", len(ep["negIdx"]) == size and all(0 <= i < high for i in ep["negIdx"]), case,
                           sig=f"{sig}/randint-range")
    if expect_error == "no-Z-row":
        # bases supplied, no row measured entirely in the reference basis: the property allows negative chains to start ONLY from
        # reference-basis rows, so a run that is not refused must not hand out any negative row (which exception refuses it is not constrained)
        handed = sum(len(ng) for ep in eps for _, ng, _ in ep["batches"])
        ctx.oracle("bases supplied without a reference-basis row: no negative-phase row may be handed out (there is no admissible one)", handed == 0, case,
                   detail={"negative_rows_handed_out": handed, "raised": err}, sig=f"{sig}/negative-not-refbasis", theorem="C07_negative, C07_refbasis")
    if scr["done"]:
        ctx.count("caller overwrites its data object in place after an epoch of the running fit: " + ("done" if scr["possible"] else "not possible (immutable container)"))
        ctx.oracle("caller's data unchanged by fit (bytes, identity, dtype): as handed over until the caller's own write, as the caller left it at return",
                   scr["pre"] == snap_d and after_d == scr["post"], case, sig=f"{sig}/no-mutation-data", theorem="C07_no_mutation")
    else:
        ctx.oracle("caller's data unchanged (bytes, identity, dtype)", after_d == snap_d, case, sig=f"{sig}/no-mutation-data", theorem="C07_no_mutation")
    ctx.oracle("caller's bases unchanged", after_b == snap_b, case, sig=f"{sig}/no-mutation-bases", theorem="C07_no_mutation")
    # informational only: the property says the caller's objects are never MODIFIED (checked above, bytes + identity); whether a
    # batch is a view of the caller's storage is an implementation choice the property text does not constrain
    ctx.count("batches share memory with the caller's objects" if any(alias) else "no batch shares memory with the caller's objects")

    # ---- correspondence with the model (fed the data of THIS call)
    if ctx.driver is None:
        return
    if not expect_error:
        # extension round 2: the conversion of the caller's OBJECT (container form, element type, storage identity) inside the model
        ctx.count(f"data object handed to fit as {box}")
        mc = ctx.driver.call("c07.fit_convert", default_double=(torch.get_default_dtype() == torch.double), box=box, rows=data_at_call, bases=bases,
                             posB=B, negB=neg, write_rows=scr.get("new_rows"))
        if "error" in mc:
            # audit 3, B-12: a MODEL refusal (or a parse failure of the driver) on a run the implementation completed is a defect of the
            # correspondence, not a failing input of the property: auxiliary
            ctx.point("model refuses a data object the implementation trained on", "aux", None, mc["error"], case, exact=True, sig=f"{sig}/convert-refused",
                      theorem="C07_train_samples_value")
        elif eps:
            srt = lambda rows: sorted([int(x) for x in r] for r in rows)  # noqa: E731
            first = [r for p_, _, _ in eps[0]["batches"] for r in p_]
            ctx.point("rows fit trains on (first epoch, as a multiset) = the rows of the caller's object at the time of the call, as exact 0/1 values", "property",
                      srt(first), srt(mc["train"]), case, exact=True, sig=f"{sig}/train-rows/{box}", theorem="C07_train_samples_value")
            # the element type of the batches is not constrained by the property text: informational counter (the model says double)
            ctx.count("element type of the batches handed to compute_batch_gradients: " + ", ".join(sorted({d_ for p_ in batch_dtypes for d_ in p_})) +
                      f" (model: torch.{mc['dtype']})")
            if scr["done"] and scr["possible"] and len(eps) > scr["epoch"] + 1:
                later = [r for p_, _, _ in eps[-1]["batches"] for r in p_]
                ctx.count("rows of an epoch AFTER the caller's in-place overwrite compared with the model's train_samples after the same write")
                # audit 3, B-8: the property says "never modifies the caller's data" and "every row once per epoch" (both judged above, by
                # effect), NOT that fit snapshots the data: a conversion without a copy (data.to(double), torch.as_tensor) keeps the property.
                # What remains is the tie of the model's "train_samples lives in a storage of its own" clause to the code: AFTER_WRITE_LEVEL
                ctx.point("rows fit trains on AFTER the caller overwrote its data object in place = still the rows handed to fit (train_samples lives in a "
                          "storage of its own)", AFTER_WRITE_LEVEL, srt(later), srt(mc["train_after_write"]), case, exact=True, sig=f"{sig}/train-rows-after-write/{box}",
                          theorem="C07_train_samples_value") if AFTER_WRITE_LEVEL != "info" else ctx.info(
                    f"{kind}/fit: rows of an epoch after the caller's in-place overwrite = the rows handed to fit ({box})", srt(later), srt(mc["train_after_write"]))
            # audit 3, B-18: a statement about the MODEL alone (the implementation side was the constant True) ties nothing to the code: counter
            ctx.count("model frame of fit_convert (train_samples in a fresh storage, caller's storages unwritten): " +
                      ("holds" if mc["fresh"] and mc["caller_unchanged"] else "FAILS (model defect)"))
    if not expect_error and not scripted:
        # the model (QV.Batching.shuffleData) takes the randperm / randint results as inputs: when the code draws its randomness differently the
        # theorems can no longer be tied to it. Reported ONCE per run as a broken CORRESPONDENCE (auxiliary point, stable signature); the property
        # itself is judged by the effect oracles above (so the verdict is "no failing input found" unless one of them fails).
        if not ctx.__dict__.get("_c07_noted"):
            ctx._c07_noted = True
            ctx.note("C07: the implementation does not consume / use torch.randperm/torch.randint as the model scripts it; the model comparison is skipped "
                     "for such runs and the verdict comes from the effect oracles evaluated on the batches actually consumed")
            if not drawn:
                ctx.point("random draws consumed as the model scripts them (one randperm(N), then at most one randint per epoch)", "aux",
                          [[en[0] for en in ep["rng"]][:6] for ep in eps][:3], [["perm"], ["perm", "randint"]], case, exact=True,
                          sig=f"{kind}/rng-not-consumed-as-modelled", theorem="C07_fit_batches")
            else:
                ctx.point("recorded draws used as the model uses them (positive rows = data[randperm result] in batch order, negative rows = "
                          "z_samples[randint result])", "aux", False, True, case, exact=True, sig=f"{kind}/rng-not-used-as-modelled", theorem="C07_fit_batches")
        return
    # the configuration as the MODEL's binder derives it from the call as written (positional prefix in the documented order + keywords +
    # documented defaults; C07_positional_call): the batching model below is fed THESE values
    cfg = bound_config(ctx, wire)
    intended = {"epochs": run.get("start", 1) + epochs - 1, "B": B, "neg": neg, "k": run.get("k", 1), "start": run.get("start", 1), "bases": bases is not None}
    ctx.point("model binding of the call (QV.CallForm.fitBind) gives the configuration the case wrote at the documented positions", "aux", intended, cfg,
              case, exact=True, sig=f"{kind}/call-binding-model", theorem="C07_positional_call")
    if cfg is None:
        return
    B_m, neg_m = cfg["B"], cfg["neg"]
    if expect_error:
        perm = (eps[0]["perm"] if eps and eps[0]["perm"] else None) or list(range(N))
        m = ctx.driver.call("c07.epoch", data=data, bases=bases, posB=B_m, negB=neg_m, perm=perm, negIdx=[])
        merr = m["prep"].get("error") or m["out"].get("error")
        # malformed input is outside the property's quantifier (N >= 1, batch sizes >= 1, a reference-basis row, bases of the data's
        # length): which exception is raised is not constrained by the property text -> informational counter, no verdict
        ctx.count(f"malformed[{expect_error}]: error kind " + ("agrees with the model" if err == merr else f"differs (impl {err}, model {merr})"))
        return
    for e_i, ep in enumerate(eps):
        if len(eps) > 6 and e_i not in (0, 1, len(eps) // 2, len(eps) - 1):
            continue  # long default runs: the model is compared on 4 epochs, the effect oracles ran on every epoch
        c2 = {**case, "epoch": e_i}
        if scr["done"] and scr["possible"] and e_i > scr["epoch"] and \
                collections.Counter(tuple(r) for p_, _, _ in ep["batches"] for r in p_) != collections.Counter(tuple(r) for r in data):
            # audit 3, B-8: after the caller's own write this epoch batches the rows the caller's object holds NOW (no snapshot): the property
            # was judged by the effect oracle above (either reading); the batching model is fed the rows handed over and does not apply
            ctx.count("epoch after the caller's in-place write batches the caller's current rows (no snapshot): model batch comparison skipped")
            continue
        m = ctx.driver.call("c07.epoch", data=data, bases=bases, posB=B_m, negB=neg_m, perm=ep["perm"], negIdx=ep["negIdx"])
        mo = m["out"]
        if "error" in mo or "error" in m["prep"]:
            ctx.point("model error on a run the implementation completed", "property", None, mo.get("error") or m["prep"].get("error"), c2,
                      exact=True, sig=f"{sig}/batches")
            continue
        impl_b = [{"pos": p, "neg": ng, "bases": bb} for p, ng, bb in ep["batches"]]
        ctx.point("batches", "property", impl_b, mo["batches"], c2, exact=True, sig=f"{sig}/batches",
                  theorem="C07_fit_epoch (= C07_partition, C07_own_basis, C07_sizes, C07_negative composed with C07_fit_batches, C07_refbasis); "
                          "C07_positional_call (batch sizes = the values at the documented positions of the call)")
        ctx.point("num_batches", "property", len(impl_b), m["prep"]["numBatches"], c2, exact=True, sig=f"{sig}/num-batches", theorem="C07_sizes")
        ctx.point("randint request", "aux", ep["randint"], mo["randint"], c2, exact=True, sig=f"{sig}/randint")
        ctx.point("randperm N", "aux", ep["permN"], len(m["prep"]["train"]), c2, exact=True, sig=f"{sig}/randperm")
        mh = ctx.driver.call("c07.heap", data=data, bases=bases, posB=B_m, negB=neg_m, perm=ep["perm"], negIdx=ep["negIdx"])
        if "error" not in mh:
            mkeys = [k for r in mh["refs"] for k in (("p", r["pos"][0]), ("n", r["neg"][0])) + ((("b", r["bases"][0]),) if r["bases"] else ())]
            ikeys = [k for s in ep["storages"] for k in (("p", s[0]), ("n", s[1])) + ((("b", s[2]),) if s[2] else ())]
            # which fresh tensors the batches are views of (one shuffled copy sliced vs. one gather per batch) is an implementation
            # choice: informational counter only
            ctx.count("storage-sharing pattern of the batches " + ("as in epochOnHeap" if canon([k[1] for k in ikeys]) == canon([k[1] for k in mkeys]) else "differs from epochOnHeap"))
            ctx.point("model frame", "aux", True, mh["callers_unchanged"] and all(r["pos"][0] >= mh["before"] for r in mh["refs"]), c2,
                      exact=True, sig=f"{sig}/frame")


# ------------------------------------------------------------------ direct `_shuffle_data` / extract_refbasis calls
def one_direct(ctx, case):
    import random

    ctx.current_case = case
    kind, n, N, B, negB, nb = case["kind"], case["n"], case["N"], case["B"], case["negB"], case["nb"]
    data, bases = case["data"], case["bases"]
    rng = random.Random(case["dseed"])
    st = make_state(kind, n, rng, None, case.get("aseed"))
    fm = af.Forms(None if case.get("aseed") is None else case["aseed"] + 1, ctx, "direct ")   # the batch sizes as fit hands them on: the caller's objects
    torch.manual_seed(case["dseed"])
    train = torch.tensor(data, dtype=torch.double)
    bases_obj = np.array(bases) if bases is not None else None
    from qucumber.utils.data import extract_refbasis_samples

    z = extract_refbasis_samples(train, bases_obj) if bases is not None else None
    zl = rows_int(z) if z is not None else []
    rec = Recorder()
    rec.install()
    err, out = None, None
    try:
        out = list(st._shuffle_data(fm.i("pos_batch_size", B, af.PY_INT), fm.i("neg_batch_size", negB, af.PY_INT), nb, train, bases_obj, z))
    except Exception as e:
        err = type(e).__name__
    finally:
        rec.uninstall()
    perm = next((en[2] for en in rec.log if en[0] == "perm"), list(range(N)))
    negIdx = next((en[3] for en in rec.log if en[0] == "randint"), [])
    scripted = [en[0] for en in rec.log] in (["perm"], ["perm", "randint"])  # random draws consumed as the model scripts them
    ctx.case({k: case[k] for k in case if k != "dseed"}, nontrivial=N >= 2 and perm != sorted(perm))
    ctx.count("direct_shuffle_calls")
    ceil_nb = -(-N // B)
    # `fit` always passes num_batches = ceil(N / pos_batch_size): only such calls of the private helper are inside the property's
    # quantifier and carry a verdict; calls with an inconsistent num_batches (the zip-truncation statement C07_zip_truncation is a theorem
    # about the MODEL's zip) are evaluated for information only
    in_scope = nb == ceil_nb
    ctx.count(f"direct:nb{'<' if nb < ceil_nb else ('=' if in_scope else '>')}ceil" + ("" if in_scope else " (informational)"))
    sig = f"{kind}/shuffle-direct"
    if bases is not None:
        zexp = [d for d, b in zip(data, bases) if all(c == "Z" for c in b)]
        ctx.oracle("extract_refbasis_samples == rows whose basis is all Z, in order", zl == zexp, case, detail={"impl": zl, "expected": zexp},
                   sig=f"{kind}/refbasis-oracle", theorem="C07_refbasis")
    # whatever iterable is returned has been materialised with list(); batches are compared by VALUE
    impl_b = None
    if err is None:
        impl_b = [{"pos": rows_int(t[0]), "neg": rows_int(t[1]), "bases": bases_rows(t[2]) if len(t) > 2 else None} for t in out]
    if in_scope:
        ctx.oracle("direct _shuffle_data call with fit's arguments does not raise", err is None, case, detail=err, sig=f"{sig}/exception")
        if impl_b is not None:
            ctx.oracle("number of batches = ceil(N/B)", len(impl_b) == ceil_nb, case, detail={"len": len(impl_b), "expected": ceil_nb},
                       sig=f"{sig}/num-batches", theorem="C07_sizes")
            ok_e, det_e = effect_oracle(data, bases, B, negB, bases is None and negB == B, [(b_["pos"], b_["neg"], b_["bases"]) for b_ in impl_b])
            ctx.oracle("direct call with fit's arguments: batches satisfy the property (by effect)", ok_e, case, detail=det_e, sig=f"{sig}/property",
                       theorem="C07_partition, C07_own_basis, C07_sizes, C07_negative")
    if ctx.driver is None:
        return
    if bases is not None:
        mz = ctx.driver.call("c07.refbasis", samples=data, bases=bases)
        ctx.point("extract_refbasis_samples", "property", zl, mz.get("z"), case, exact=True, sig=f"{kind}/refbasis", theorem="C07_refbasis")
    if not scripted:
        ctx.count("direct: random draws NOT consumed as modelled (model comparison skipped)")
        return
    m = ctx.driver.call("c07.shuffle", perm=perm, negIdx=negIdx, posB=B, negB=negB, numBatches=nb, samples=data, bases=bases, zSamples=zl)
    if not in_scope:
        agree = (err is not None or "error" in m) and err == m.get("error") or (impl_b is not None and impl_b == m.get("batches"))
        ctx.count("direct (num_batches != ceil, informational): " + ("as the model's zip" if agree else "differs from the model's zip"))
        return
    if impl_b is None or "error" in m:
        if "error" in m:
            ctx.point("model error on a direct call with fit's arguments", "aux", err, m.get("error"), case, exact=True, sig=f"{sig}/error")
        return
    ep_d = {"perm": perm, "negIdx": negIdx, "randint": (True if any(en[0] == "randint" for en in rec.log) else None),
            "batches": [(b_["pos"], b_["neg"], b_["bases"]) for b_ in impl_b]}
    if not used_as_modelled(data, bases, bases is None and negB == B, ep_d):
        # the draws are USED differently (not constrained by the property; the effect oracle above has judged the batches): ONE auxiliary point per run
        ctx.count("direct: recorded draws used differently from the model (model comparison skipped)")
        if not ctx.__dict__.get("_c07_noted"):
            ctx._c07_noted = True
            ctx.point("recorded draws used as the model uses them (positive rows = data[randperm result] in batch order, negative rows = "
                      "z_samples[randint result])", "aux", False, True, case, exact=True, sig=f"{kind}/rng-not-used-as-modelled", theorem="C07_fit_batches")
        return
    ctx.point("direct _shuffle_data batches (by value)", "aux", impl_b, m["batches"], case, exact=True, sig=f"{sig}/batches",
              theorem="C07_partition, C07_own_basis, C07_sizes, C07_negative")


# ------------------------------------------------------------------ generation
FORMS = ["tensor_f64", "tensor_f32", "tensor_i64", "tensor_u8", "ndarray_f64", "ndarray_i64", "list",
         "tensor_f64_t", "tensor_f64_strided", "tensor_i64_strided", "ndarray_f32", "ndarray_f64_fortran", "ndarray_i64_strided", "tuple",
         "tensor_bool", "ndarray_u8", "ndarray_bool", "list_float", "list_bool"]   # the last five: extension round 2 (element-type forms)
BASES_FORMS = ["c", "c", "fortran", "strided"]


USER_LETTERS = ["H", "K", "z", "x", "S", "I", "Zh", "ZZ", "Xq", "zz"]  # names a user may register next to X / Y / Z (create_dict(**{name: matrix}))


def gen_letters(rng):
    names = rng.sample(USER_LETTERS, rng.choice([1, 1, 2, 3]))
    return [{"name": nm, "theta": round(rng.uniform(0.2, 1.3), 3), "phi": round(rng.uniform(0.0, 3.0), 3)} for nm in names]


def gen_data(rng, kind, n, N, force_z=True, letters=None):
    data = [[rng.randint(0, 1) for _ in range(n)] for _ in range(N)]
    if N >= 2 and rng.random() < 0.7:  # forced duplicate rows
        data[rng.randrange(N)] = list(data[rng.randrange(N)])
    bases = None
    if kind != "pos":
        names = [L["name"] for L in (letters or [])]
        alphabet = list("XYZZ") + names * 2
        bases = [[rng.choice(alphabet) for _ in range(n)] for _ in range(N)]
        zi = None
        if force_z:
            zi = rng.randrange(N)
            bases[zi] = ["Z"] * n
        else:
            for b in bases:
                if all(c == "Z" for c in b):
                    b[rng.randrange(n)] = rng.choice(["X", "Y"] + names)
        if names and N >= 2:
            # a row measured in the reference basis on every site BUT ONE, that one in a user-registered basis: not a reference-basis row.
            # Its outcome is made different from the outcomes of the all-Z rows when possible, so that it is recognisable in a batch.
            ri = rng.choice([i for i in range(N) if i != zi])
            bases[ri] = ["Z"] * n
            bases[ri][rng.randrange(n)] = rng.choice(names)
            zout = {tuple(d) for d, b in zip(data, bases) if all(c == "Z" for c in b)}
            free = [list(t) for t in ([(k >> j) & 1 for j in range(n)] for k in range(2 ** n)) if tuple(t) not in zout]
            if free:
                data[ri] = rng.choice(free)
    return data, bases


def other_neg(rng, B, N=None):
    cand = [1, 2, 3, 5, 7, B + 1, max(1, B - 1), 2 * B, 2 * B + 1]
    if N is not None:
        cand += [N, N + 1, N + 3]  # at least as large as the data set: ceil(N / neg) = 1
    return rng.choice([x for x in cand if x != B and x >= 1])


def gen_run(rng, kind, n, N, B, negmode, letters=None, npos=None):
    neg = None if negmode == "None" else (B if negmode == "B" else other_neg(rng, B, N))
    if negmode == "None" and rng.random() < 0.15:
        neg = 0  # Python falsy: also selects the default
    data, bases = gen_data(rng, kind, n, N, letters=letters)
    run = {"N": N, "B": B, "neg": neg, "epochs": rng.choice([1, 2, 2, 3]), "form": rng.choice(FORMS), "data": data, "bases": bases,
           "bases_form": rng.choice(BASES_FORMS), "aseed": af.new_seed(rng)}
    if run["epochs"] >= 2 and rng.random() < 0.6:
        run["scribble"] = rng.randrange(run["epochs"] - 1)  # after this epoch (0-based within the call) the caller overwrites its data object in place
    # call form: how many leading documented parameters are given positionally (1 = data only); with a positional call the integer
    # arguments are made pairwise different where possible (so that no two documented positions can be exchanged unnoticed)
    nparams = len(DOC_ORDER[kind != "pos"])
    if npos is None:
        npos = 1 if rng.random() < 0.5 else rng.randint(2, nparams)
    run["npos"] = npos
    if npos > 1:
        run["start"] = rng.choice([1, 1, 2, 3])
        last = run["start"] + run["epochs"] - 1
        taken = {last, B, neg if neg else -1, run["start"]}
        run["k"] = next((k for k in rng.sample([0, 1, 2, 3], 4) if k not in taken), 1)
    return run


def gen_session(rng, kind, n, letters=None):
    """2..3 consecutive calls on one object: a new measurement run of the same shape with the same / an edited / a new bases
    object, other batch sizes, sometimes another N"""
    N = rng.randint(1, 9)
    runs = []
    for r in range(rng.choice([2, 2, 3])):
        if r and rng.random() < 0.25:
            N = rng.randint(1, 9)
        B = rng.randint(1, N + 2)
        run = gen_run(rng, kind, n, N, B, rng.choice(["None", "B", "other", "other"]), letters=letters)
        if r:
            prev = runs[-1]
            same_shape = prev["N"] == N
            run["data_obj"] = rng.choice(["new", "new", "inplace", "same"]) if same_shape else "new"
            if run["data_obj"] == "same":  # training continued on the very same data object
                run["data"], run["form"] = copy.deepcopy(prev["data"]), prev["form"]
            if run["data_obj"] == "inplace":
                run["form"] = prev["form"]
            if kind != "pos":
                run["bases_obj"] = rng.choice(["same", "same", "inplace", "new"]) if same_shape else "new"
                if run["bases_obj"] == "same":  # same measurement settings (the same array object), new outcomes
                    run["bases"], run["bases_form"] = copy.deepcopy(prev["bases"]), prev["bases_form"]
                if run["bases_obj"] == "inplace":
                    run["bases_form"] = prev["bases_form"]
        runs.append(run)
    return runs


def gen_cases(ctx, thorough):
    rng = ctx.rng
    if thorough:
        grid = [(N, B) for N in range(1, 13) for B in range(1, 14)]
    else:
        grid = [(1, 1), (1, 3), (2, 5), (4, 4), (6, 3), (6, 2), (7, 3), (5, 2), (12, 13), (12, 5), (9, 4), (3, 1), (10, 3)]
        grid += [(rng.randint(1, 12), rng.randint(1, 13)) for _ in range(14)]
    for (N, B) in grid:
        for negmode in ("None", "B", "other"):
            kinds = ["pos", "cplx", "dens"] if thorough else ["pos", rng.choice(["cplx", "dens"])]
            for kind in kinds:
                n = rng.choice([2, 2, 3]) if kind != "dens" else 2
                letters = gen_letters(rng) if kind != "pos" and rng.random() < 0.4 else None
                yield ("fit", {"kind": kind, "n": n, "runs": [gen_run(rng, kind, n, N, B, negmode, letters=letters)], "dseed": rng.randrange(1 << 30),
                               "letters": letters, "aseed": af.new_seed(rng)})
    # every positional call form: for each state type, the first j documented parameters given positionally, j = 2 .. all of them
    for kind in ("pos", "cplx", "dens"):
        for j in range(2, len(DOC_ORDER[kind != "pos"]) + 1):
            for _ in range(3 if thorough else 1):
                N = rng.randint(3, 9)
                B = rng.randint(1, N + 1)
                letters = gen_letters(rng) if kind != "pos" and rng.random() < 0.3 else None
                yield ("fit", {"kind": kind, "n": 2, "runs": [gen_run(rng, kind, 2, N, B, rng.choice(["B", "other", "other", "None"]), letters=letters, npos=j)],
                               "dseed": rng.randrange(1 << 30), "letters": letters, "aseed": af.new_seed(rng)})
    # the documented default call form on a large data set: fit(data) -> pos_batch_size = 100, neg_batch_size = None, 100 epochs (float ceil(N / 100));
    # N = 1000 (N = mB) and, thorough, N = 1037 (N = mB + r) and a complex state with bases
    big = [("pos", 1000)] + ([("pos", 1037), ("cplx", 250)] if thorough else [])
    for kind, N in big:
        n = 2
        data, bases = gen_data(rng, kind, n, N)
        yield ("fit", {"kind": kind, "n": n, "dseed": rng.randrange(1 << 30), "runs": [
            {"N": N, "B": 100, "neg": None, "epochs": 100, "form": rng.choice(["tensor_f64", "ndarray_f64", "list"]), "data": data, "bases": bases,
             "bases_form": "c", "defaults": True}]})
    # sessions: consecutive calls on the same state object
    for i in range(500 if thorough else 60):
        kind = ["cplx", "dens", "pos"][i % 3] if i % 4 else rng.choice(["cplx", "dens"])
        n = rng.choice([2, 3, 3]) if kind != "dens" else 2
        letters = gen_letters(rng) if kind != "pos" and rng.random() < 0.4 else None
        yield ("fit", {"kind": kind, "n": n, "runs": gen_session(rng, kind, n, letters), "dseed": rng.randrange(1 << 30), "letters": letters,
                       "aseed": af.new_seed(rng)})
    # direct calls with arbitrary num_batches (zip truncation) + extract_refbasis
    for _ in range(120 if thorough else 30):
        kind = rng.choice(["pos", "cplx", "dens"])
        n, N, B = 2, rng.randint(1, 9), rng.randint(1, 5)
        data, bases = gen_data(rng, kind, n, N, letters=(gen_letters(rng) if rng.random() < 0.5 else None))
        negB = rng.choice([B, B, other_neg(rng, B)])
        nb = max(0, -(-N // B) + rng.choice([-2, -1, 0, 0, 1, 2]))
        yield ("direct", {"kind": kind, "n": n, "N": N, "B": B, "negB": negB, "nb": nb, "data": data, "bases": bases,
                          "dseed": rng.randrange(1 << 30), "aseed": af.new_seed(rng)})
    # malformed stream (alone, and as the second call after a well-formed one on the same object)
    for _ in range(12 if thorough else 4):
        kind = rng.choice(["pos", "cplx", "dens"])
        N = rng.randint(1, 6)
        data, bases = gen_data(rng, kind, 2, N)
        yield ("fit", {"kind": kind, "n": 2, "dseed": rng.randrange(1 << 30), "runs": [
            {"N": N, "B": 0, "neg": None, "epochs": 1, "form": rng.choice(FORMS), "data": data, "bases": bases, "malformed": "B=0"}]})
        kind = rng.choice(["cplx", "dens"])
        good = gen_run(rng, kind, 2, N, rng.randint(1, 4), "None")
        data, bases = gen_data(rng, kind, 2, N, force_z=False)
        bad = {"N": N, "B": rng.randint(1, 4), "neg": None, "epochs": 1, "form": rng.choice(FORMS), "data": data, "bases": bases,
               "malformed": "no-Z-row", "bases_obj": rng.choice(["new", "inplace"])}
        yield ("fit", {"kind": kind, "n": 2, "dseed": rng.randrange(1 << 30), "runs": rng.choice([[bad], [good, bad]])})
        data, bases = gen_data(rng, kind, 2, N)
        bases = bases + [["Z", "Z"]]
        yield ("fit", {"kind": kind, "n": 2, "dseed": rng.randrange(1 << 30), "runs": [
            {"N": N, "B": rng.randint(1, 4), "neg": None, "epochs": 1, "form": rng.choice(FORMS), "data": data, "bases": bases,
             "malformed": "bases-too-long"}]})


def info_probes(ctx):
    """INFORMATIONAL counters only (no verdict of any level), see notes/C07.md "Final pass" and proposed/O23_C07_bases_live.md:
    (1) does a running fit read the caller's BASES array live (an in-place edit made by the caller after an epoch reaches later epochs)?
        The property's container clause and "the training data" are about `data`; the bases argument is documented as numpy.ndarray and the
        code keeps a reference to it.  (2) bases handed over in containers other than the documented ndarray."""
    import random
    from qucumber.callbacks import LambdaCallback

    rng = random.Random(12345)
    st = make_state("cplx", 2, rng)
    data = [[0, 1], [1, 1], [0, 0], [1, 0]]
    bases = np.array([["Z", "Z"], ["X", "Z"], ["Z", "Z"], ["Z", "Y"]])
    seen, ep_now = [], [0]
    orig = type(st).compute_batch_gradients.__get__(st)

    def cbg(k, samples_batch, neg_batch, bases_batch=None):
        seen.append((ep_now[0], bases_rows(bases_batch) if bases_batch is not None else None))
        return orig(k, samples_batch, neg_batch, bases_batch)

    def after(s_, e_):
        if e_ == 1:
            bases[...] = "Y"

    st.compute_batch_gradients = cbg
    try:
        with contextlib.redirect_stderr(io.StringIO()), contextlib.redirect_stdout(io.StringIO()):
            st.fit(torch.tensor(data, dtype=torch.double), epochs=2, pos_batch_size=2, k=1, lr=0.01, input_bases=bases, progbar=False,
                   callbacks=[LambdaCallback(on_epoch_start=lambda s_, e_: ep_now.__setitem__(0, e_), on_epoch_end=after)])
        later = [r for e_, bb in seen if e_ == 2 and bb for r in bb]
        ctx.count("info: caller edits its bases array after epoch 1 of a running fit -> epoch 2 pairs the rows with "
                  + ("the EDITED bases (fit keeps a reference to the caller's array)" if later and all(r == ["Y", "Y"] for r in later) else "the bases handed to fit"))
    except Exception as e:  # informational
        ctx.count(f"info: bases-edit probe raised {type(e).__name__}")
    finally:
        del st.compute_batch_gradients
    base_rows = [["Z", "Z"], ["X", "Z"], ["Z", "Z"], ["Z", "Y"]]
    for name, obj in (("list of lists", [list(r) for r in base_rows]), ("tuple of tuples", tuple(tuple(r) for r in base_rows)),
                      ("list of strings", ["".join(r) for r in base_rows])):
        st2 = make_state("cplx", 2, rng)
        try:
            with contextlib.redirect_stderr(io.StringIO()), contextlib.redirect_stdout(io.StringIO()):
                st2.fit(torch.tensor(data, dtype=torch.double), epochs=1, pos_batch_size=2, k=1, lr=0.01, input_bases=obj, progbar=False)
            ctx.count(f"info: input_bases given as {name} (documented type: numpy.ndarray): accepted")
        except Exception as e:
            ctx.count(f"info: input_bases given as {name} (documented type: numpy.ndarray): raises {type(e).__name__}")


def run(ctx):
    ctx.rule = RULE
    info_probes(ctx)
    for what, case in gen_cases(ctx, ctx.tier == "thorough"):
        (one_fit if what == "fit" else one_direct)(ctx, {**case, "what": what})


def search(ctx):
    drv, ctx.driver = ctx.driver, None
    try:
        for what, case in gen_cases(ctx, True):
            (one_fit if what == "fit" else one_direct)(ctx, {**case, "what": what})
            if len(ctx.prop_mismatch) >= 3:
                break
    finally:
        ctx.driver = drv


def replay(ctx, case):
    case = {k: v for k, v in case.items() if k not in ("epoch", "run")}
    (one_fit if case.get("what", "fit") == "fit" else one_direct)(ctx, case)
