"""Memory-layout (and element-type) variants of a caller-supplied batch of samples (same logical content; float64 unless a dtype is
asked for): the library must neither depend on contiguity nor write outside / into the caller's data.  Used by the observable harnesses (C08, C09, C16)."""
from .qc import torch

LAYOUTS = ("contig", "cols", "rows", "T")
PAD = 7.0


DTYPES = {"f64": torch.double, "f32": torch.float32, "i64": torch.int64,
          # final pass: every element type a caller's 0/1 batch can have (measurement files, comparisons, `.to(...)`)
          "f16": torch.float16, "i32": torch.int32, "i16": torch.int16, "i8": torch.int8, "u8": torch.uint8, "bool": torch.bool}


def make_batch(rows, n, layout="contig", dtype=torch.double):
    """-> (tensor of shape (len(rows), n), backing buffer or None).
    contig: fresh contiguous tensor; cols / rows: strided view of every second column / row of a larger buffer filled with PAD;
    T: column-major (transposed storage).  dtype: element type of the batch (a torch dtype or a key of DTYPES): the samples are 0 / 1, so
    every dtype holds the same logical content"""
    dtype = DTYPES.get(dtype, dtype)
    if dtype == torch.bool:
        layout = "contig"   # (a bool buffer cannot hold the PAD marker)
    B = len(rows)
    base = torch.tensor(rows, dtype=dtype).reshape(B, n)
    if layout in (None, "contig") or B == 0 or n == 0:
        return base, None
    if layout == "cols":
        big = torch.full((B, 2 * n + 1), PAD, dtype=dtype)
        big[:, 1::2] = base
        return big[:, 1::2], big
    if layout == "rows":
        big = torch.full((2 * B + 1, n), PAD, dtype=dtype)
        big[1::2] = base
        return big[1::2], big
    if layout == "T":
        return base.t().contiguous().t(), None
    raise ValueError(layout)


def outside_untouched(backing, layout):
    """the elements of the backing buffer that are not part of the view still hold PAD"""
    if backing is None:
        return True
    other = torch.ones_like(backing, dtype=torch.bool)
    (other[:, 1::2] if layout == "cols" else other[1::2]).fill_(False)
    return bool((backing[other] == PAD).all())


def same_values(a, b, rtol=1e-10):
    """two results of the implementation (lists of floats or error records) agree up to summation-order rounding"""
    if isinstance(a, dict) or isinstance(b, dict):
        return a == b
    if len(a) != len(b):
        return False
    sc = 1.0 + max([abs(y) for y in b] + [0.0])
    return all(abs(x - y) <= rtol * sc for x, y in zip(a, b))
