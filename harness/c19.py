"""C19 — basis-state indexing and data loading.

Correspondence of QV.Model.Hilbert (maskRow / generateHilbertSpace / subspaceVector / spaceGuard /
convertBasisElementToIndex) and QV.Model.DataLoad (tokenizer, np.loadtxt shape logic, loadData, loadDataDM,
extractRefbasis) with the real `generate_hilbert_space`, `subspace_vector`, `_convert_basis_element_to_index`,
`load_data`, `load_data_DM`, `extract_refbasis_samples`, plus the property oracles evaluated on the
implementation (itertools.product ordering, int(bits, 2), np.kron ordering of the rotation helpers, the logical
table the harness wrote / an independent parse of the file text).

The number parser of numpy is a PARAMETER of the model: for every numeric file the harness sends
`nums = {token: float64 bits of float(token)}` (tokens Python cannot parse are left out = "could not convert").
The model then rounds to single precision itself (`roundF32`)."""
import itertools
import os
import random
import re
import shutil
import struct
import tempfile

import numpy as np

from . import qc
from .common import REPO, VERIF, b2f, f2b, unbits
from .qc import torch

FILES = [
    "qucumber/nn_states/neural_state.py",
    "qucumber/utils/unitaries.py",
    "qucumber/utils/data.py",
]
REQUIRED_THEOREMS = [
    "C19_row_is_binary_expansion", "C19_row_digit_sum", "C19_subspace_eq_row", "C19_index_roundtrip",
    "C19_state_roundtrip", "C19_index_equiv", "C19_index_lt", "C19_msb_first", "C19_size_guard", "C19_kron_index",
    "C19_table_roundtrip", "C19_table_squeezed", "C19_load_data_roundtrip", "C19_load_data_DM_roundtrip", "C19_refbasis",
    "C19_table_ndmin2", "C19_numeric_table_ndmin2", "C19_load_data_shape", "C19_load_then_refbasis", "C19_position_k",
    "C19_position_k_states", "C19_subspace_int64", "C19_size_guard_int",
]
EXTRA_TRUSTED = [
    "numpy's decimal->float64 parser is a parameter of the model (token -> value table sent by the harness, computed with "
    "Python float()); only the subsequent float32 rounding is modelled",
    "np.loadtxt field separators: ASCII whitespace only (files generated here are ASCII); int64 wrap-around of "
    "`1 << arange(size)` for size > 62 is outside the model",
]
RULE = ("argument forms: every integer option (size, num, num_visible / num_hidden / num_aux, the site of flip_spin, k of sample) and every boolean "
        "option (gpu, include_extras, overwrite) of every public call is handed over in a form drawn from the case's own seeded streams "
        "(python int / np.int64 / np.int32 / np.intp / np.uint8 / np.int8 / np.int16 / 0-d ndarray / 0-d tensor as far as the unchanged library accepts "
        "the form; bool / 0-1 / np.bool_ / numpy comparison / 0-d array / 0-d tensor), by keyword or positionally; each form of `size` and of "
        "`num_visible` (default size) is also forced once per device form / state class. "
        "cases: (a) generate_hilbert_space for every n up to 8 (quick) / 12 (thorough) in full, sampled rows for every larger n up to 20"
        ", oversize and size=None/0 default cases on all three state classes; (a') call sequences in which a previously returned space / "
        "vector is modified in place (flip_spin, chain buffer of sample(overwrite=True), direct edits, zero_/fill_/copy_, numpy view) "
        "before the next call on the same state, another state object, another size, the default call form, and before an internal use "
        "(rotate_psi_inner_prod); (b) subspace_vector for random "
        "(num,size) incl. num >= 2^size and size None/0; (c) _convert_basis_element_to_index on random 0/1 batches and 1-D vectors, "
        "n up to 30; (d) np.kron ordering of rotate_psi / rotate_rho on random complex inputs; (d') one-hot-at-k family: psi(space), "
        "probability(space), rho(space, space) (every entry, row/column orientation), rotate_psi / rotate_rho WITHOUT psi=/rho=, fidelity and KL "
        "(plain and rotated) with the accepted target e_k, on all three state classes with random parameters, against numpy references built "
        "from the parameters (brute-force partial trace, dense np.kron); (d'') negative / beyond-int64 / >62-bit arguments of subspace_vector "
        "and generate_hilbert_space as outcome classes; (e) random data files (N >= 1, n >= 1: one-row and one-column files are ordinary cases "
        "since F18; one 60 000-row file in the thorough tier; basis "
        "alphabets, many-digit and float32-midpoint targets, comment/blank lines, tabs, CRLF, one-row / one-column / empty / ragged / "
        "unparsable files) written to a temp dir and read back through load_data / load_data_DM (paths positionally, by the documented keywords, "
        "only the files given, or relative to the working directory); (f) extract_refbasis_samples on "
        "random bases patterns (none / all / some all-Z rows, multi-letter tokens, duplicate sample rows, wrong shapes). "
        "non-trivial: space n>=2; file case with N>=2 and n>=2 rows/columns and a decorated or many-digit file; extract case with some "
        "but not all rows all-Z; distinct by hash of the case")

TH = {
    "space": "C19_row_is_binary_expansion, C19_space_enumerates_all",
    "sub": "C19_subspace_is_binary_expansion, C19_subspace_eq_row",
    "index": "C19_index_roundtrip, C19_index_is_big_endian_sum, C19_index_equiv",
    "guard": "C19_size_guard, C19_effective_size",
    "kron": "C19_kron_index, C19_kron_index_finProd, C19_kron_stage_bit",
    "load": "C19_load_data_roundtrip, C19_load_data_shape, C19_numeric_table_ndmin2, C19_table_ndmin2, C19_numeric_table_roundtrip, C19_table_squeezed",
    "loaddm": "C19_load_data_DM_roundtrip, C19_numeric_table_ndmin2, C19_table_ndmin2",
    "ref": "C19_refbasis, C19_refbasis_sublist, C19_refbasis_errors",
}

_TMP = None


def tmpdir():
    global _TMP
    if _TMP is None:
        _TMP = tempfile.mkdtemp(prefix="qv_c19_")
        rp = os.path.realpath(_TMP)
        assert not rp.startswith(os.path.realpath(REPO) + os.sep) and not rp.startswith(os.path.realpath(VERIF) + os.sep)
    return _TMP


def cleanup():
    global _TMP
    if _TMP and os.path.isdir(_TMP):
        shutil.rmtree(_TMP, ignore_errors=True)
    _TMP = None


def first_diff(a, b, path=""):
    """human-readable location of the first difference of two canonical values (floats decoded from their bit patterns)"""
    if type(a) is not type(b):
        return {"at": path, "impl": a, "want": b}
    if isinstance(a, dict):
        for k in sorted(set(a) | set(b)):
            if a.get(k) != b.get(k):
                return first_diff(a.get(k), b.get(k), f"{path}.{k}")
        return None
    if isinstance(a, list):
        if len(a) != len(b):
            return {"at": path, "impl_len": len(a), "want_len": len(b)}
        for i, (x, y) in enumerate(zip(a, b)):
            if x != y:
                return first_diff(x, y, f"{path}[{i}]")
        return None
    if a == b:
        return None
    d = {"at": path, "impl": a, "want": b}
    if isinstance(a, int) and isinstance(b, int) and max(a, b) > 2 ** 32:
        d["impl_float"], d["want_float"] = repr(b2f(a)), repr(b2f(b))
    return d


def errname(e):
    for k in ("ValueError", "TypeError", "RuntimeError", "ZeroDivisionError", "AttributeError", "KeyError", "IndexError",
              "AssertionError"):
        if type(e).__name__ == k:
            return k
    for k, t in (("ValueError", ValueError), ("TypeError", TypeError), ("IndexError", IndexError), ("RuntimeError", RuntimeError)):
        if isinstance(e, t):
            return k
    return type(e).__name__


# ================================================================= part 1: indexing
_STATES = {}


def new_state(kind, nv):
    if kind == "pos":
        return qc.PositiveWaveFunction(nv, 1, gpu=False)
    if kind == "cplx":
        return qc.ComplexWaveFunction(nv, 1, gpu=False)
    return qc.DensityMatrix(nv, 1, 1, gpu=False)


def get_state(kind, nv):
    key = (kind, nv)
    if key not in _STATES:
        _STATES[key] = new_state(kind, nv)
    return _STATES[key]


def index_public(states):
    """the index of basis vectors through PUBLIC calls only: `rotate_psi_inner_prod` in the all-Z basis looks the given states up in a
    user-supplied wavefunction; with psi[k] = k the amplitude it returns IS the position the library assigns to the state"""
    from qucumber.utils.unitaries import rotate_psi_inner_prod

    t = states if states.dim() == 2 else states.unsqueeze(0)
    n = t.shape[-1]
    psi = torch.zeros(2, 2 ** n, dtype=torch.double)
    psi[0] = torch.arange(2 ** n, dtype=torch.double)
    out = rotate_psi_inner_prod(get_state("pos", n), "Z" * n, t.to(torch.double), psi=psi)[0]
    return out if states.dim() == 2 else out[0]


PUBLIC_INDEX_MAX = 16


def index_fn(ctx, n):
    """the library's vector -> index map: the helper the property anchors (`unitaries._convert_basis_element_to_index`, a private name), or -
    when a rewrite has renamed / inlined it - the public route `index_public` (n <= 16; None beyond: the case is counted and skipped)"""
    from qucumber.utils import unitaries as U

    f = getattr(U, "_convert_basis_element_to_index", None)
    if f is not None:
        return f
    ctx.count("index:private-helper-missing")
    if 1 <= n <= PUBLIC_INDEX_MAX:
        return index_public
    ctx.count("index:private-helper-missing:skipped(n>16)")
    return None


def eff_size(size, nv):
    return size if size else nv


SIZE_FORMS = ("int", "np64", "np32", "t0", "np8", "np16", "npu8")      # hashable integer-like forms accepted by the unchanged library with the meaning of the int
NUM_FORMS = ("int", "np64", "arr0")
DEVICE_FORMS = ("omit", "str", "obj", "none")


SIZE_SWEEP = SIZE_FORMS + ("arr0",)      # forms forced one by one (key "size_form") on small spaces; "arr0": 0-d ndarray, not hashable


# ---------------------------------------------------------------- argument forms (round 5): every integer / boolean option of every
# public call is handed over in a form drawn from the case's own streams, `IntStream(case["iseed"])` / `qc.Flags(case["fseed"])`, by keyword
# or positionally.  A case WITHOUT "iseed" (corpus, replays written before this round) takes the code paths it took before, unchanged.
# Forms per option = what the UNCHANGED library accepts with the meaning of the plain int / bool (probe: notes/C19.md "Argument-form sweep"):
#   size (generate_hilbert_space, subspace_vector), num_visible / num_hidden / num_aux: all of qc.INT_FORMS + np.int8 / np.int16 where the
#       value fits (the library converts these with int() at once; that the narrow dtypes mean the same int is what fix F15 established);
#   num (subspace_vector): python int, np.int64, np.intp, 0-d int64 ndarray, and np.int32 when 2^size fits in 32 bits. NOT the 0-d torch
#       tensor (ValueError in the clean code) and NOT np.uint8 / np.int8 / np.int16: the index enters arithmetic as it is, and NumPy 2 itself
#       refuses or wraps mixed arithmetic of a narrow / unsigned scalar with a Python int that does not fit (`np.uint8(200) % 2 ** 9`,
#       `-1 - np.uint8(0)` raise OverflowError) — a harmless rewrite may use such arithmetic;
#   flip_spin's i, sample's k (tools that modify earlier results): qc.INT_FORMS without np.uint8 (same reason), no narrow dtypes;
#   gpu (value False), include_extras, overwrite: all of qc.FLAG_FORMS
NARROW = (("np.int8", np.int8), ("np.int16", np.int16))
NUM_ALLOWED = ("py", "np.int64", "np.intp", "np0d")
TOOL_ALLOWED = tuple(f for f in qc.INT_FORMS if f != "np.uint8")


def fit_forms(n, allowed):
    """the forms of `allowed` that can hold the value n (np.uint8 is replaced by np.int64 inside qc.int_forms when n > 255)"""
    if not -2 ** 63 <= n < 2 ** 63:
        return ("py",)
    return tuple(f for f in allowed if f != "np.int32" or -2 ** 31 <= n < 2 ** 31)


class IntStream(qc.Ints):
    """qc.Ints for ONE case + the narrow numpy dtypes (np.int8 / np.int16: the forms on which defect F15 showed) + a "pos" entry in the
    descriptor (hand the option over positionally where the signature allows).  `IntStream(None)`: plain Python ints, by keyword.
    Within ONE case a 0-d numpy array and a 0-d torch tensor are never both used (`np.array(7) - torch.tensor(2)`, also + * // % <,
    raises TypeError inside NumPy / Torch themselves, so harmless arithmetic between two options of a call — `num < 2 ** size` — would fail
    for a reason that has nothing to do with the library): the case's seed decides which of the two is left out (`drop`)."""

    def __init__(self, iseed, drop=None):
        super().__init__(iseed)
        self.drop = drop if drop is not None else None if iseed is None else ("t0d" if iseed % 2 else "np0d")

    def __call__(self, n, allowed=qc.INT_FORMS, narrow=True):
        n = int(n)
        if self.rng is None:
            v, d = super().__call__(n)
            d["pos"] = False
            return v, d
        v, d = super().__call__(n, tuple(f for f in fit_forms(n, allowed) if f != self.drop))
        if narrow and self.rng.random() < 0.2:
            fits = [(nm, ty) for nm, ty in NARROW if np.iinfo(ty).min <= n <= np.iinfo(ty).max]
            if fits:
                nm, ty = self.rng.choice(fits)
                v, d["form"] = ty(n), nm
        d["pos"] = self.rng.random() < 0.6
        return v, d


def streams(case):
    """(has the case its own form streams?, integer stream, flag stream); a form the case forces for `size` / `num_visible` decides which
    of the two 0-d forms the stream leaves out"""
    forced = {case.get("size_form"), case.get("nv_form")}
    drop = "np0d" if "t0" in forced else "t0d" if "arr0" in forced else None
    return "iseed" in case, IntStream(case.get("iseed"), drop), qc.Flags(case.get("fseed"))


def _cnt(ctx, call, opt, d):
    ctx.count(f"argform:{call}.{opt}={d['form']}/{'pos' if d.get('pos') else 'kw'}")


def build_state(ctx, kind, nv, it, fl, nh=1, na=1, nv_form=None):
    """a FRESH state of the given class (sizes branch of the constructor) with num_visible / num_hidden / num_aux / gpu in the forms and
    positions of the case's streams (nv_form: force this form for num_visible)"""
    cls = {"pos": qc.PositiveWaveFunction, "cplx": qc.ComplexWaveFunction, "dm": qc.DensityMatrix}[kind]
    opts = [("num_visible", nv), ("num_hidden", nh)] + ([("num_aux", na)] if kind == "dm" else [])
    args, kw, positional = [], {}, True
    for nm, x in opts:
        v, d = it(x)
        if nm == "num_visible" and nv_form is not None:
            v, d["form"] = as_form(x, nv_form), nv_form
        if positional and d["pos"]:
            args.append(v)
        else:
            kw[nm], positional, d["pos"] = v, False, False
        _cnt(ctx, "ctor", nm, d)
    g, dg = fl(False)
    if positional and dg["pos"]:
        args += [g] if kind == "pos" else [None, g]      # (…, unitary_dict=None, gpu) for the other two classes
    else:
        kw["gpu"], dg["pos"] = g, False
    _cnt(ctx, "ctor", "gpu", dg)
    return cls(*args, **kw)


def form_call(ctx, it, st, method, num, size, dform=None, omit_size=False, size_obj=None):
    """st.generate_hilbert_space(size, device) / st.subspace_vector(num, size, device) with every integer option in the form and position
    drawn from the case's stream.  size None: the value None itself (keyword or positional) or, with omit_size, not specified.
    size_obj: the object to hand over as `size` (a form forced by the case) instead of a drawn one."""
    args, kw, positional = [], {}, True
    if method == "subspace_vector":
        s_eff = int(size) if size else int(st.num_visible)      # beyond 62 sites (masks outside int64) the index stays a Python int
        v, d = it(num, allowed=("py",) if s_eff > 62 else NUM_ALLOWED + (("np.int32",) if s_eff <= 30 else ()), narrow=False)
        if d["pos"]:
            args.append(v)
        else:
            kw["num"], positional = v, False
        _cnt(ctx, method, "num", d)
    if omit_size:
        positional = False
        ctx.count(f"argform:{method}.size=omitted")
    else:
        if size_obj is not None or size is None:
            v, d = size_obj, {"form": "forced" if size_obj is not None else "None", "pos": it.rng.random() < 0.6}
        else:
            v, d = it(size)
        if positional and d["pos"]:
            args.append(v)
        else:
            kw["size"], positional, d["pos"] = v, False, False
        _cnt(ctx, method, "size", d)
    dev = dev_kw(dform)
    if dev:
        if positional and it.rng.random() < 0.5:
            args.append(dev["device"])
            ctx.count(f"argform:{method}.device=pos")
        else:
            kw.update(dev)
    return getattr(st, method)(*args, **kw)


def as_form(x, form):
    """the integer argument x as a python int / numpy integer scalar / 0-d ndarray / 0-d tensor (None and 0 are passed as they are)"""
    if not x or form in (None, "int"):
        return x
    if form == "np64":
        return np.arange(x, x + 1)[0]          # an element of np.arange: numpy int64 scalar
    if form == "np32":
        return np.int32(x)
    if form in ("np8", "np16", "npu8"):        # narrow numpy integers (after fix F15 they mean the same int)
        ty = {"np8": np.int8, "np16": np.int16, "npu8": np.uint8}[form]
        return ty(x) if x <= np.iinfo(ty).max else np.int32(x)
    if form == "arr0":
        return np.array(x)
    if form == "t0":
        return torch.tensor(x)
    raise ValueError(form)


def dev_kw(form):
    return {} if form in (None, "omit") else {"device": {"str": "cpu", "obj": torch.device("cpu"), "none": None}[form]}


def bits_of(k, n):
    """independent statement: big-endian n-bit expansion of k"""
    return [int(c) for c in format(k % (1 << n), "0{}b".format(n))] if n else []


def space_case(ctx, case):
    """generate_hilbert_space(size) in full (small n) or on sampled rows (large n); guard and default cases."""
    kind, nv, size, full = case["state"], case["nv"], case["size"], case["full"]
    ctx.current_case = case
    stream, it, fl = streams(case)
    st = build_state(ctx, kind, nv, it, fl, nv_form=case.get("nv_form")) if stream else get_state(kind, nv)
    s = eff_size(size, nv)
    ctx.count(f"space:eff_size={s}")
    ctx.count("space:size_arg=" + ("None" if size is None else "0" if size == 0 else "given"))
    ctx.case({"k": "space", **case}, nontrivial=s >= 2, sample={"op": "generate_hilbert_space", "state": kind, "nv": nv, "size": size})
    conv = index_fn(ctx, s)
    try:
        sz_arg = as_form(size, case.get("size_form"))
        kw = dev_kw(case.get("device_form"))
        ctx.count(f"space:size_form={case.get('size_form') or ('stream' if stream else 'int')}"); ctx.count(f"space:device_form={case.get('device_form') or 'omit'}")
        forced = sz_arg if case.get("size_form") is not None and size else None      # the case names the form of `size` itself

        def call(method, num=None):
            return form_call(ctx, it, st, method, num, size, case.get("device_form"), omit_size=not case.get("pass_size", True), size_obj=forced)
        if stream:
            sp = call("generate_hilbert_space")
        else:
            sp = st.generate_hilbert_space(sz_arg, **kw) if case.get("pass_size", True) else st.generate_hilbert_space(**kw)
        err = None
    except Exception as e:  # noqa: BLE001
        sp, err = None, errname(e)
    # ---- oracle: refused iff effective size > 20
    # "spaces beyond the size limit are refused": refused = some exception, whatever its type (the type is not part of the property)
    ctx.oracle("size guard: refused (any exception) iff the effective size exceeds 20", (err is not None) == (s > 20), case,
               detail={"error": err, "eff_size": s}, sig="guard", theorem=TH["guard"])
    if err is not None:
        ctx.count(f"space:refusal_type={err}")
    ctx.count("space:" + ("refused" if err else "generated"))
    if err is not None:
        if ctx.driver is not None:
            m = ctx.driver.call("c19.rows", size=size, nv=nv, ks=[])
            ctx.point("guard: refused", "property", True, m.get("error") is not None, case, exact=True, sig="guard", theorem=TH["guard"])
        return
    ok_meta = tuple(sp.shape) == (2 ** s, s) and sp.dtype == torch.double
    ctx.oracle("space shape/dtype", ok_meta, case, detail={"shape": list(sp.shape), "dtype": str(sp.dtype)}, sig="space/shape")
    if not ok_meta:
        return
    if full:
        ks = list(range(2 ** s))
    else:
        kr = random.Random(case.get("ks_seed", 0))
        ks = sorted(set([0, 1, 2 ** s - 1, 2 ** s - 2, 2 ** (s - 1), 2 ** (s - 1) - 1] + [kr.randrange(2 ** s) for _ in range(case["nsamp"])]))
        ks = [k for k in ks if 0 <= k < 2 ** s]
    rows = sp[ks].to(torch.int64).tolist() if not full else sp.to(torch.int64).tolist()
    exact01 = bool(((sp == 0) | (sp == 1)).all()) if full or s <= 16 else True
    # ---- oracles on the implementation
    if full:
        want = [list(t) for t in itertools.product([0, 1], repeat=s)]
        ctx.oracle("space == itertools.product", exact01 and rows == want, case, sig="space/order", theorem=TH["space"],
                   detail=None if rows == want else {"first_bad": next(i for i in range(len(want)) if rows[i] != want[i])})
    else:
        bad = [k for k, r in zip(ks, rows) if r != bits_of(k, s)]
        ctx.oracle("sampled rows == big-endian bits", not bad, case, sig="space/order", theorem=TH["space"],
                   detail={"bad_rows": bad[:5]})
    if conv is not None:
        idx = conv(sp[ks] if not full else sp)
        idxl = [int(x) for x in idx.tolist()]
        ctx.oracle("index(row k) == k", idxl == ks and all(float(x) == int(x) for x in idx.tolist()), case, sig="index/roundtrip",
                   theorem=TH["index"], detail={"first_bad": next((k for k, i in zip(ks, idxl) if k != i), None)})
    # subspace_vector(k, size) == row k   (a subset when the space is big)
    sub_ks = ks if len(ks) <= 64 else sorted(set(random.Random(case.get("ks_seed", 0) + 1).sample(ks, 48) + [0, ks[-1], ks[len(ks) // 2]]))
    subs = []
    for k in sub_ks:
        kf = as_form(k, case.get("num_form")) if k else k
        if stream:
            v = call("subspace_vector", k)
        else:
            v = st.subspace_vector(kf, sz_arg, **kw) if case.get("pass_size", True) else st.subspace_vector(kf, **kw)
        subs.append(v.to(torch.int64).tolist())
        ctx.count("space:subspace_calls")
    pos = {k: i for i, k in enumerate(ks)}
    badsub = [k for k, v in zip(sub_ks, subs) if v != rows[pos[k]]]
    ctx.oracle("subspace_vector(k) == row k", not badsub, case, sig="sub/row", theorem=TH["sub"], detail={"bad": badsub[:5]})
    # ---- model
    if ctx.driver is not None:
        if full:
            m = ctx.driver.call("c19.space", size=size, nv=nv)
            ctx.point("generate_hilbert_space", "property", rows, m.get("rows"), case, exact=True, sig="space/order", theorem=TH["space"])
            if conv is not None:
                ctx.point("index of every row", "property", idxl, m.get("index"), case, exact=True, sig="index/roundtrip", theorem=TH["index"])
        m2 = ctx.driver.call("c19.rows", size=size, nv=nv, ks=ks if not full else sub_ks)
        if not full:
            ctx.point("generate_hilbert_space rows", "property", rows, m2.get("rows"), case, exact=True, sig="space/order", theorem=TH["space"])
            if conv is not None:
                ctx.point("index of sampled rows", "property", idxl, m2.get("index"), case, exact=True, sig="index/roundtrip", theorem=TH["index"])
            msub = [m2["sub"][ks.index(k)] for k in sub_ks]
        else:
            msub = m2["sub"]
        ctx.point("subspace_vector", "property", subs, msub, case, exact=True, sig="sub/row", theorem=TH["sub"])


def subspace_case(ctx, case):
    """subspace_vector(num, size) for arbitrary num (also >= 2^size) and size (no guard in the code)."""
    kind, nv, size, nums = case["state"], case["nv"], case["size"], case["nums"]
    ctx.current_case = case
    stream, it, fl = streams(case)
    st = build_state(ctx, kind, nv, it, fl) if stream else get_state(kind, nv)
    s = eff_size(size, nv)
    ctx.case({"k": "sub", **case}, nontrivial=s >= 2, sample={"op": "subspace_vector", "size": size, "nv": nv, "nums": nums[:3]})
    ctx.count("sub:size_arg=" + ("None" if size is None else "0" if size == 0 else ("<=20" if size <= 20 else ">20")))
    impl = []
    for num in nums:
        nf = case.get("num_form") if num < 2 ** 62 else None
        if stream:
            v = form_call(ctx, it, st, "subspace_vector", num, size, case.get("device_form"))
        else:
            v = st.subspace_vector(as_form(num, nf) if num else num, as_form(size, case.get("size_form")), **dev_kw(case.get("device_form")))
        impl.append(v.to(torch.int64).tolist())
        ctx.oracle("subspace_vector == big-endian low bits", impl[-1] == bits_of(num, s) and v.dtype == torch.double and tuple(v.shape) == (s,),
                   {**case, "nums": [num]}, sig="sub/bits", theorem=TH["sub"], detail={"impl": impl[-1], "want": bits_of(num, s)})
        ctx.count("sub:num>=2^size" if num >= 2 ** s else "sub:num<2^size")
    if ctx.driver is not None:
        m = ctx.driver.call("c19.rows", size=size, nv=nv, ks=nums)
        ctx.point("subspace_vector", "property", impl, m["sub"], case, exact=True, sig="sub/bits", theorem=TH["sub"])


def index_case(ctx, case):
    """_convert_basis_element_to_index on a batch (2-D) and on each row (1-D call form)."""
    states = case["states"]
    n = len(states[0]) if states else 0
    conv = index_fn(ctx, n)
    if conv is None:
        return
    ctx.case({"k": "index", **case}, nontrivial=n >= 2 and any(any(r) for r in states) and not all(all(r) for r in states),
             sample={"op": "_convert_basis_element_to_index", "n": n, "batch": len(states), "first": states[0] if states else None})
    ctx.count(f"index:n={n}")
    t = torch.tensor(states, dtype=torch.double).reshape(len(states), n)
    got = conv(t)
    gl = [int(x) for x in got.tolist()]
    want = [int("".join(map(str, r)), 2) if n else 0 for r in states]
    ctx.oracle("index == int(bits, 2)", gl == want and all(float(x) == int(x) for x in got.tolist()), case, sig="index/value", theorem=TH["index"],
               detail={"impl": gl[:8], "want": want[:8]})
    one = [int(conv(t[i])) for i in range(min(len(states), 4))]
    ctx.oracle("1-D call form == batched row", one == want[:len(one)], case, sig="index/callform", theorem=TH["index"])
    # msb-first: flipping a 0 at site j to 1 adds 2^(n-1-j)
    for r in states[:4]:
        zeros = [j for j, b in enumerate(r) if b == 0]
        if zeros:
            j = ctx.rng.choice(zeros)
            r2 = list(r)
            r2[j] = 1
            d = int(conv(torch.tensor(r2, dtype=torch.double))) - int(conv(torch.tensor(r, dtype=torch.double)))
            ctx.oracle("flip site j adds 2^(n-1-j)", d == 2 ** (n - 1 - j), {**case, "states": [r], "flip": j}, sig="index/msb", theorem="C19_msb_first",
                       detail={"delta": d, "j": j})
    # concatenation: idx(a ++ b) = idx(a) * 2^|b| + idx(b)
    if len(states) >= 2:
        a, b = states[0], states[1]
        ia, ib = want[0], want[1]
        iab = int(conv(torch.tensor(a + b, dtype=torch.double))) if 2 * n <= (52 if conv is not index_public else PUBLIC_INDEX_MAX) else None
        if iab is not None:
            ctx.oracle("idx(a++b) == idx(a)*2^|b| + idx(b)", iab == ia * 2 ** len(b) + ib, case, sig="index/concat", theorem=TH["kron"])
    if ctx.driver is not None:
        m = ctx.driver.call("c19.index", states=states)
        ctx.point("_convert_basis_element_to_index", "property", gl, m, case, exact=True, sig="index/value", theorem=TH["index"])


def kron_case(ctx, case):
    """position k of the arrays the rotation helpers accept/produce: rotate_psi(basis, psi) == (U_{b0} ⊗ U_{b1} ⊗ …) psi and
    rotate_rho == U rho U^dagger with np.kron (site 0 the leftmost factor). Oracle only (the model of these functions is C04's)."""
    from qucumber.utils import unitaries as un
    n, basis = case["n"], case["basis"]
    ctx.current_case = case
    stream, it, fl = streams(case)
    st = build_state(ctx, "cplx", n, it, fl, nh=2) if stream else get_state("cplx", n)
    ctx.case({"k": "kron", **case}, nontrivial=n >= 2 and len(set(basis)) > 1, sample={"op": "rotate_psi/rotate_rho vs np.kron", "basis": basis})
    ctx.count(f"kron:n={n}")
    d = st.unitary_dict
    U = np.array([[1.0 + 0j]])
    for b in basis:
        u = d[b][0].numpy() + 1j * d[b][1].numpy()
        U = np.kron(U, u)
    psi = np.array(case["psi_re"]) + 1j * np.array(case["psi_im"])
    pt = torch.tensor(np.stack([psi.real, psi.imag]), dtype=torch.double)
    out = un.rotate_psi(st, basis, None, psi=pt).numpy()
    got = out[0] + 1j * out[1]
    ctx.oracle("rotate_psi == kron(U_0,...,U_{n-1}) psi", bool(np.allclose(got, U @ psi, rtol=1e-10, atol=1e-12)), case,
               sig="kron/rotate_psi", theorem=TH["kron"], detail={"impl": [str(x) for x in got[:4]], "want": [str(x) for x in (U @ psi)[:4]]})
    # single basis state e_k placed at position k comes out as column k of U
    k = case["k"]
    e = np.zeros(2 ** n)
    e[k] = 1.0
    out = un.rotate_psi(st, basis, None, psi=torch.tensor(np.stack([e, 0 * e]), dtype=torch.double)).numpy()
    ctx.oracle("rotate_psi(e_k) == U[:,k]", bool(np.allclose(out[0] + 1j * out[1], U[:, k], rtol=1e-10, atol=1e-12)), case,
               sig="kron/rotate_psi_ek", theorem=TH["kron"])
    if n <= 3:
        A = np.array(case["rho_re"]) + 1j * np.array(case["rho_im"])
        A = (A + A.conj().T) / 2   # a density-matrix array is Hermitian (the code computes U (U rho)^H)
        rt = torch.tensor(np.stack([A.real, A.imag]), dtype=torch.double)
        out = un.rotate_rho(st, basis, None, rho=rt).numpy()
        got = out[0] + 1j * out[1]
        ctx.oracle("rotate_rho == U rho U^H", bool(np.allclose(got, U @ A @ U.conj().T, rtol=1e-10, atol=1e-12)), case,
                   sig="kron/rotate_rho", theorem=TH["kron"])


# ================================================================= part 1b: returned tensors are the caller's own
MUTATIONS = ("flip_spin", "sample_overwrite", "edit", "zero_", "fill_", "complement", "numpy_view", "copy_")


def mutate_in_place(st, t, how, rng_seed, it=None, fl=None):
    """modify a tensor previously returned by the library IN PLACE with public tools (it / fl: the calling case's form streams for the
    integer / boolean options of these tools — flip_spin's site, sample's k and overwrite; None: plain Python values, as before)"""
    r = random.Random(rng_seed)
    if how == "flip_spin":
        from qucumber.observables.pauli import flip_spin
        i = r.randrange(t.shape[-1])
        if it is None:
            flip_spin(i, t)
        else:
            iv, d = it(i, allowed=TOOL_ALLOWED, narrow=False)
            d["opt"] = "flip_spin.i"
            flip_spin(iv, t) if d["pos"] else flip_spin(i=iv, samples=t)
    elif how == "sample_overwrite":      # used as the initial state of Markov chains that are advanced in place
        torch.manual_seed(rng_seed)
        if t.dim() == 2 and t.shape[1] == st.num_visible:
            if it is None or fl is None:
                st.sample(k=3, initial_state=t, overwrite=True)
            else:
                kv, dk = it(3, allowed=TOOL_ALLOWED, narrow=False)
                ow, do = fl(True)
                dk["opt"], do["opt"] = "sample.k", "sample.overwrite"
                do["pos"] = dk["pos"] and do["pos"]
                if dk["pos"] and do["pos"]:
                    st.sample(kv, 1, t, ow)
                elif dk["pos"]:
                    st.sample(kv, initial_state=t, overwrite=ow)
                else:
                    st.sample(k=kv, initial_state=t, overwrite=ow)
        t.copy_(1 - t)                   # (and in any case not what it was)
    elif how == "edit":
        flat = t.view(-1)
        for k in r.sample(range(flat.numel()), 1 + flat.numel() // 3):
            flat[k] = 1 - flat[k]
    elif how == "zero_":
        t.zero_()
        if t.numel() == 1:
            t.fill_(5.0)
    elif how == "fill_":
        t.fill_(1.0); t.view(-1)[0] = 3.0
    elif how == "complement":
        t.mul_(-1).add_(1)
    elif how == "numpy_view":
        a = t.numpy()
        a[...] = a[::-1].copy() if a.ndim == 2 and a.shape[0] > 1 else 1 - a
    elif how == "copy_":
        t.copy_(torch.flip(t, dims=[0]) if t.shape[0] > 1 else 1 - t)
    else:
        raise ValueError(how)


def shares_memory(a, b):
    try:
        return a.untyped_storage().data_ptr() == b.untyped_storage().data_ptr()
    except Exception:  # noqa: BLE001
        return a.data_ptr() == b.data_ptr()


def alias_case(ctx, case):
    """generate_hilbert_space / subspace_vector called repeatedly while the caller modifies earlier results in place:
    g1 = A.generate(size); g2 = A.generate(size); mutate g1; g3 = A.generate(size); B.generate(size) on ANOTHER state object;
    A.generate(other size); default call form; subspace_vector twice with the first result mutated; an internal user of the
    enumeration (rotate_psi_inner_prod with `size` rotated sites, explicit psi) vs the dense Kronecker product.
    Every result is compared with the model (rows of the big-endian enumeration) and must not share storage with an earlier one."""
    from qucumber.utils import unitaries as un
    size, how = case["size"], case["how"]
    ctx.current_case = case
    stream, it, fl = streams(case)
    if stream:
        A = build_state(ctx, case["state"], case["nv"], it, fl)
        Bst = build_state(ctx, case["other_state"], case["other_nv"], it, fl)
    else:
        A = get_state(case["state"], case["nv"])
        Bst = new_state(case["other_state"], case["other_nv"])    # a different object even when class and size coincide
    mit, mfl = (it, fl) if stream else (None, None)

    def gen(st, sz, omit=False):
        """st.generate_hilbert_space(sz) — with the case's form streams: size in a drawn form, by keyword or positionally"""
        if stream:
            return form_call(ctx, it, st, "generate_hilbert_space", None, sz, omit_size=omit)
        return st.generate_hilbert_space() if omit else st.generate_hilbert_space(sz)

    def subv(st, k, sz):
        return form_call(ctx, it, st, "subspace_vector", k, sz) if stream else st.subspace_vector(k, sz)
    ctx.case({"k": "alias", **case}, nontrivial=size >= 2, sample={"op": "generate twice, mutate the first result in place, generate again",
                                                                   "size": size, "how": how, "states": [case["state"], case["other_state"]]})
    ctx.count("alias_case"); ctx.count(f"alias:how={how}"); ctx.count(f"alias:size={size}")
    want = {}
    deferred = []

    def rows_of(sz):
        if sz not in want:
            want[sz] = [list(t) for t in itertools.product([0, 1], repeat=sz)]
        return want[sz]

    def model_rows(sz_arg, nv):
        if ctx.driver is None:
            return None
        return ctx.driver.call("c19.space", size=sz_arg, nv=nv).get("rows")

    def check(label, sp, sz_arg, nv, earlier):
        sz = eff_size(sz_arg, nv)
        sub = {**case, "step": label}
        ok_meta = isinstance(sp, torch.Tensor) and tuple(sp.shape) == (2 ** sz, sz) and sp.dtype == torch.double
        rows = sp.tolist() if ok_meta else None
        ctx.oracle(f"alias[{label}]: generated space == itertools.product (exactly 0.0 / 1.0)", ok_meta and rows == rows_of(sz), sub,
                   detail=None if (ok_meta and rows == rows_of(sz)) else
                   {"first_bad_row": next((i for i in range(len(rows or [])) if rows[i] != rows_of(sz)[i]), None), "shape_ok": ok_meta},
                   sig="alias/space", theorem=TH["space"])
        m = model_rows(sz_arg, nv)
        if m is not None and ok_meta:
            ctx.point(f"alias[{label}]: generate_hilbert_space", "property", sp.to(torch.int64).tolist() if rows == rows_of(sz) else rows, m, sub,
                      exact=True, sig="alias/space", theorem=TH["space"])
        for (nm, e) in earlier:   # reported after the value comparisons (the mechanism, not the symptom)
            deferred.append((f"alias[{label}]: the result does not share storage with {nm}", not shares_memory(sp, e), sub))

    g1 = gen(A, size)
    check("first", g1, size, case["nv"], [])
    g2 = gen(A, size)
    check("second call", g2, size, case["nv"], [("the first result", g1)])
    g2_bytes = g2.numpy().tobytes()
    mutate_in_place(A, g1, how, case["seed"], mit, mfl)
    deferred.append(("alias: modifying the first result leaves the second result unchanged", g2.numpy().tobytes() == g2_bytes, {**case, "step": "mutate"}))
    g3 = gen(A, size)
    check("after the first result was modified in place", g3, size, case["nv"], [("the first result", g1), ("the second result", g2)])
    g4 = gen(Bst, size)
    check("another state object", g4, size, case["other_nv"], [("the first result", g1)])
    if case["nv"] == size:
        g5 = gen(A, None, omit=True) if case["seed"] % 2 else gen(A, 0)
        check("default size", g5, None if case["seed"] % 2 else 0, case["nv"], [("the first result", g1)])
    osz = case["other_size"]
    h1 = gen(A, osz)
    mutate_in_place(A, h1, MUTATIONS[(MUTATIONS.index(how) + 3) % len(MUTATIONS)], case["seed"] + 1, mit, mfl)
    check("other size, after an earlier result of that size was modified", gen(Bst, osz), osz, case["other_nv"], [("the earlier result", h1)])
    check("first size again", gen(A, size), size, case["nv"], [("the first result", g1)])
    # ---- subspace_vector
    for k in case["nums"]:
        sub = {**case, "step": f"subspace_vector({k})"}
        v1 = subv(A, k, size)
        mutate_in_place(A, v1, "complement" if how in ("flip_spin", "sample_overwrite") else how if how != "numpy_view" else "edit", case["seed"] + 2, mit, mfl)
        v2 = subv(A, k, size)
        v3 = subv(Bst, k, size)
        for nm, v in (("same state", v2), ("another state", v3)):
            ctx.oracle(f"alias: subspace_vector({k}) after an earlier result was modified in place ({nm}) == big-endian bits",
                       v.tolist() == [float(b) for b in bits_of(k, size)] and not shares_memory(v, v1), sub,
                       detail={"impl": v.tolist(), "want": bits_of(k, size)}, sig="alias/sub", theorem=TH["sub"])
        if ctx.driver is not None:
            m = ctx.driver.call("c19.rows", size=size, nv=case["nv"], ks=[k])
            ctx.point("alias: subspace_vector", "property", [v2.to(torch.int64).tolist(), v3.to(torch.int64).tolist()], [m["sub"][0], m["sub"][0]], sub,
                      exact=True, sig="alias/sub", theorem=TH["sub"])
    # ---- an internal user of the enumeration: `size` rotated sites, explicit psi, vs the dense Kronecker product
    n = case["rot_n"]
    C = build_state(ctx, "cplx", n, it, fl) if stream else get_state("cplx", n)
    basis = case["rot_basis"]
    d = C.unitary_dict
    U = np.array([[1.0 + 0j]])
    for b in basis:
        U = np.kron(U, d[b][0].numpy() + 1j * d[b][1].numpy())
    psi = np.array(case["psi_re"]) + 1j * np.array(case["psi_im"])
    states_t = torch.tensor(rows_of(n), dtype=torch.double)
    psi_t = torch.tensor(np.stack([psi.real, psi.imag]), dtype=torch.double)
    if stream:      # `include_extras` (documented bool: "also return the terms of the sum and the expanded states") in every flag form, by
        # keyword or as the sixth positional argument; the amplitudes are the first entry of the tuple when extras are returned
        ex, dex = fl(bool(case["seed"] & 4))
        _cnt(ctx, "rotate_psi_inner_prod", f"include_extras[{dex['value']}]", dex)
        res = un.rotate_psi_inner_prod(C, basis, states_t, None, psi_t, ex) if dex["pos"] else \
            un.rotate_psi_inner_prod(C, basis, states_t, psi=psi_t, include_extras=ex)
        out = (res[0] if isinstance(res, (tuple, list)) else res).numpy()
    else:
        out = un.rotate_psi_inner_prod(C, basis, states_t, psi=psi_t).numpy()
    got = out[0] + 1j * out[1]
    ctx.oracle("alias: rotate_psi_inner_prod (uses the enumeration of the rotated sites internally) == kron(U_0..U_{n-1}) psi at every index",
               bool(np.allclose(got, U @ psi, rtol=1e-10, atol=1e-12)), {**case, "step": "rotate_psi_inner_prod"},
               detail={"impl": [str(x) for x in got[:4]], "want": [str(x) for x in (U @ psi)[:4]]}, sig="alias/kron", theorem=TH["kron"])
    for (name, ok, sub) in deferred:
        ctx.oracle(name, ok, sub, sig="alias/shared-storage", theorem=TH["space"])
    for d in it.used + fl.used:      # the forms handed to the in-place tools (flip_spin's site, sample's k / overwrite)
        if "opt" in d:
            _cnt(ctx, "tool", d["opt"], d)


def form_seeds(rng):
    """seeds of the case's own form streams (IntStream / qc.Flags); only the seeds are stored, a replay rebuilds the same objects"""
    return {"iseed": rng.randrange(2 ** 31), "fseed": rng.randrange(2 ** 31)}


def gen_alias_case(rng, thorough):
    kinds = ["pos", "cplx", "dm"]
    size = rng.randrange(1, 7 if thorough else 6)
    nv = rng.choice([size, size, rng.randrange(1, 7)])
    other_nv = rng.choice([size, nv, rng.randrange(1, 7)])
    rot_n = rng.randrange(size, min(size + 3, 7))
    sites = sorted(rng.sample(range(rot_n), size))
    basis = "".join(rng.choice("XY") if j in sites else "Z" for j in range(rot_n))
    D = 2 ** rot_n
    return {"kind": "alias", "state": rng.choice(kinds), "nv": nv, "other_state": rng.choice(kinds), "other_nv": other_nv, "size": size,
            "other_size": rng.choice([k for k in range(1, 7) if k != size]), "how": rng.choice(MUTATIONS), "seed": rng.randrange(1 << 30),
            "nums": [rng.randrange(2 ** size) for _ in range(2)] + [2 ** size - 1],
            "rot_n": rot_n, "rot_basis": basis, "psi_re": [rng.gauss(0, 1) for _ in range(D)], "psi_im": [rng.gauss(0, 1) for _ in range(D)],
            **form_seeds(rng)}


# ================================================================= part 1c: position k of the arrays the library produces / accepts
SQ2 = 2.0 ** -0.5
UNITARY = {"X": np.array([[SQ2, SQ2], [SQ2, -SQ2]], dtype=complex),      # written out here, NOT read from the library's dictionary
           "Y": np.array([[SQ2, -1j * SQ2], [SQ2, 1j * SQ2]], dtype=complex),
           "Z": np.eye(2, dtype=complex)}


def _arr(x, shape):
    return np.asarray(x, dtype=np.float64).reshape(shape)


def ref_wave(am, ph, n, h, rows):
    """psi at the given 0/1 rows, from the parameters: amplitude exp(f_am/2), phase f_ph/2, f(v) = b.v + sum_j softplus(W v + c)_j"""
    V = _arr(rows, (len(rows), n))

    def f(p):
        W, b, c = _arr(p["W"], (h, n)), _arr(p["b"], (n,)), _arr(p["c"], (h,))
        return V @ b + np.logaddexp(0.0, V @ W.T + c).sum(-1)
    return np.exp(0.5 * f(am)) * (np.exp(0.5j * f(ph)) if ph is not None else 1.0)


def ref_rho(am, ph, n, h, a, rows):
    """density matrix at the given rows by the brute-force partial trace over explicitly enumerated hidden and auxiliary units:
    R[s, t] = sum_x phi(s, x) conj(phi(t, x)), phi = exp(L_am/2 + i L_ph/2), L(s, x) = log sum_hid exp(b.s + c.hid + d.x + hid.W s + x.U s)"""
    V = _arr(rows, (len(rows), n))
    X = _arr(qc.all_states(a), (2 ** a, a))
    Hs = _arr(qc.all_states(h), (2 ** h, h))

    def L(p):
        W, U, b, c, d = _arr(p["W"], (h, n)), _arr(p["U"], (a, n)), _arr(p["b"], (n,)), _arr(p["c"], (h,)), _arr(p["d"], (a,))
        joint = (V @ b)[:, None, None] + (Hs @ c)[None, :, None] + ((V @ W.T) @ Hs.T)[:, :, None] \
            + (X @ d)[None, None, :] + ((V @ U.T) @ X.T)[:, None, :]
        m = joint.max(axis=1, keepdims=True)
        return (m + np.log(np.exp(joint - m).sum(axis=1, keepdims=True)))[:, 0, :]
    phi = np.exp(L(am) / 2) * np.exp(0.5j * L(ph))
    return phi @ phi.conj().T


def cnp(t):
    """real-pair complex tensor -> numpy complex array"""
    a = t.detach().numpy()
    return a[0] + 1j * a[1]


def cclose(a, b, tol=1e-9):
    a, b = np.asarray(a), np.asarray(b)
    return a.shape == b.shape and bool(np.all(np.abs(a - b) <= tol * (1.0 + np.abs(b))))


def xlogy(t, q):
    """sum_x t_x log(t_x / q_x) with 0 log 0 = 0"""
    t, q = np.asarray(t, float), np.asarray(q, float)
    m = t > 1e-300
    return float(np.sum(t[m] * (np.log(t[m]) - np.log(q[m]))))


def onehot_case(ctx, case):
    """position k of every array the library PRODUCES from its generated space (psi(space), probability(space), rho(space, space),
    rotate_psi / rotate_rho without an explicit psi= / rho=) and ACCEPTS (a target that is the basis state e_k, in fidelity and KL,
    also rotated): each must denote the state bits_of(k). All expectations are computed here from the PARAMETERS with rows built by
    integer arithmetic (qc.all_states), dense np.kron unitaries written out above, and a brute-force partial trace — no library call."""
    from qucumber.utils import training_statistics as ts
    from qucumber.utils import unitaries as un
    kind, n, h, a, k, l, basis = case["state"], case["n"], case["h"], case.get("a", 0), case["k"], case["l"], case["basis"]
    am, ph = case["am"], case.get("ph")
    D = 2 ** n
    rows = qc.all_states(n)
    ctx.current_case = case
    stream, it, fl = streams(case)
    # the sizes and the gpu flag handed to the state / RBM constructors (both construction paths of the qc builders) in the case's forms
    (n_o, dn), (h_o, dh), (a_o, da), (g_o, dg) = it(n), it(h), it(a), fl(False)
    for nm, d in (("num_visible", dn), ("num_hidden", dh), ("num_aux", da if kind == "dm" else None), ("gpu", dg)):
        if stream and d is not None:
            ctx.count(f"argform:ctor(qc builder).{nm}={d['form']}")
    if kind == "pos":
        st = qc.make_positive(n_o, h_o, am, gpu=g_o)
    elif kind == "cplx":
        st = qc.make_complex(n_o, h_o, am, ph, gpu=g_o)
    else:
        st = qc.make_density(n_o, h_o, a_o, am, ph, gpu=g_o)
    U = np.array([[1.0 + 0j]])
    for b in basis:
        U = np.kron(U, UNITARY[b])
    sub = dict(case)
    ctx.case({"k": "onehot", **case}, nontrivial=n >= 2 and len(set(basis)) > 1 and k != l,
             sample={"op": "one-hot at k through psi/rho/probability/rotate_*/fidelity/KL", "state": kind, "n": n, "k": k, "l": l, "basis": basis})
    ctx.count(f"onehot:{kind}"); ctx.count(f"onehot:n={n}")
    space = form_call(ctx, it, st, "generate_hilbert_space", None, None, omit_size=it.rng.random() < 0.5) if stream else st.generate_hilbert_space()
    th = "C19_position_k, C19_position_k_states, C19_row_is_binary_expansion"
    tha = "C19_position_k, C19_kron_index_finProd (C04_rotate_psi / C04_index_convention for the rotation)"

    def orc(name, ok, detail=None, sig=None, theorem=th):
        ctx.oracle(f"one-hot[{kind}]: {name}", bool(ok), sub, detail=detail, sig=f"onehot/{sig or name.split('(')[0].split(' ')[0]}", theorem=theorem)

    e_k = np.zeros(D)
    e_k[k] = 1.0
    if kind in ("pos", "cplx"):
        psi = ref_wave(am, ph if kind == "cplx" else None, n, h, rows)
        Z = float(np.sum(np.abs(psi) ** 2))
        prob = np.abs(psi) ** 2
        got = cnp(st.psi(space))
        orc("psi(space)[k] == psi at the big-endian expansion of k, every k", cclose(got, psi), sig="psi",
            detail={"first_bad": next((i for i in range(D) if not cclose(got[i:i + 1], psi[i:i + 1])), None), "impl_k": str(got[k]), "want_k": str(psi[k])})
        vk = form_call(ctx, it, st, "subspace_vector", k, None, omit_size=it.rng.random() < 0.5) if stream else st.subspace_vector(k)
        one = cnp(st.psi(vk).reshape(2, -1))
        orc("psi(subspace_vector(k)) == psi(space)[k]", cclose(one.ravel(), psi[k:k + 1]), sig="psi-sub", detail={"impl": str(one), "want": str(psi[k])})
        gp = st.probability(space).detach().numpy()
        orc("probability(space)[k] == |psi_k|^2", cclose(gp, prob), sig="probability")
        r = cnp(un.rotate_psi(st, basis, space))
        orc("rotate_psi(basis, space) without psi= == kron(U_0..U_{n-1}) psi", cclose(r, U @ psi), sig="rotate_psi", theorem=tha,
            detail={"impl": [str(x) for x in r[:4]], "want": [str(x) for x in (U @ psi)[:4]]})
        tgt = torch.tensor(np.stack([e_k, 0 * e_k]), dtype=torch.double)
        F = ts.fidelity(st, tgt, space if case["pass_space"] else None)
        orc("fidelity(target = e_k) == |psi_k|^2 / Z", abs(F - prob[k] / Z) <= 1e-9 * (1 + prob[k] / Z), sig="fidelity", theorem=tha,
            detail={"impl": F, "want": prob[k] / Z})
        K = ts.KL(st, tgt, space if case["pass_space"] else None)
        orc("KL(target = e_k) == -log(|psi_k|^2 / Z)", abs(K + np.log(prob[k] / Z)) <= 1e-8 * (1 + abs(np.log(prob[k] / Z))), sig="KL", theorem=tha,
            detail={"impl": K, "want": -float(np.log(prob[k] / Z))})
        t_r = np.abs(U[:, k]) ** 2
        q_r = np.abs(U @ psi) ** 2 / Z
        Kb = ts.KL(st, tgt, space, bases=[basis])
        orc("KL(target = e_k, bases=[basis]) == KL(|U[:,k]|^2 || |U psi|^2 / Z)", abs(Kb - xlogy(t_r, q_r)) <= 1e-8 * (1 + abs(xlogy(t_r, q_r))), sig="KL-rotated",
            theorem=tha, detail={"impl": Kb, "want": xlogy(t_r, q_r)})
        impl_arrays = {"psi": got, "prob": gp}
    else:
        R = ref_rho(am, ph, n, h, a, rows)
        Z = float(np.trace(R).real)
        prob = np.diag(R).real
        got = cnp(st.rho(space, space))
        ctx.count("onehot:dm_offdiag_imag>1e-3" if np.max(np.abs(R.imag)) > 1e-3 * np.max(np.abs(R)) else "onehot:dm_offdiag_imag_small")
        orc("rho(space, space)[k, l] == rho(row k, row l), every k, l (row index = first argument)", cclose(got, R), sig="rho",
            detail={"impl_kl": str(got[k, l]), "want_kl": str(R[k, l]), "impl_lk": str(got[l, k])})
        one = cnp(st.rho(space[k:k + 1], space[l:l + 1]).reshape(2, -1))
        orc("rho(space[k:k+1], space[l:l+1]) == rho(space, space)[k, l]", cclose(one.ravel(), R[k:k + 1, l]), sig="rho-pair",
            detail={"impl": str(one), "want": str(R[k, l])})
        gp = st.probability(space).detach().numpy()
        orc("probability(space)[k] == rho_kk", cclose(gp, prob), sig="probability")
        r = cnp(un.rotate_rho(st, basis, space))
        orc("rotate_rho(basis, space) without rho= == U rho U^H", cclose(r, U @ R @ U.conj().T), sig="rotate_rho", theorem=tha,
            detail={"impl_kl": str(r[k, l]), "want_kl": str((U @ R @ U.conj().T)[k, l])})
        E = np.zeros((D, D))
        E[k, k] = 1.0
        tgt = torch.tensor(np.stack([E, 0 * E]), dtype=torch.double)
        F = ts.fidelity(st, tgt, space if case["pass_space"] else None)
        orc("fidelity(target = |k><k|) == rho_kk / Z", abs(F - prob[k] / Z) <= 1e-8 * (1 + prob[k] / Z), sig="fidelity", theorem=tha,
            detail={"impl": float(F), "want": prob[k] / Z})
        K = ts.KL(st, tgt, space if case["pass_space"] else None)
        orc("KL(target = |k><k|) == -log(rho_kk / Z)", abs(K + np.log(prob[k] / Z)) <= 1e-8 * (1 + abs(np.log(prob[k] / Z))), sig="KL", theorem=tha,
            detail={"impl": K, "want": -float(np.log(prob[k] / Z))})
        t_r = np.abs(U[:, k]) ** 2
        q_r = np.diag(U @ R @ U.conj().T).real / Z
        Kb = ts.KL(st, tgt, space, bases=[basis])
        orc("KL(target = |k><k|, bases=[basis]) == KL(|U[:,k]|^2 || diag(U rho U^H) / Z)", abs(Kb - xlogy(t_r, q_r)) <= 1e-8 * (1 + abs(xlogy(t_r, q_r))),
            sig="KL-rotated", theorem=tha, detail={"impl": Kb, "want": xlogy(t_r, q_r)})
        impl_arrays = {"rho": got, "prob": gp}
    if ctx.driver is not None:
        args = {"kind": kind, "n": n, "h": h, "am": qc.pbits(am)}
        if kind != "pos":
            args["ph"] = qc.pbits(ph)
        if kind == "dm":
            args["a"] = a
        m = ctx.driver.call("c19.arrays", **args)
        sc = float(max(np.max(np.abs(prob)), 1e-30))
        ctx.point(f"one-hot[{kind}]: probability(space)", "property", impl_arrays["prob"].tolist(), unbits(m["prob"]).tolist(), sub, scale=sc, sig="onehot/probability", theorem=th)
        if kind == "dm":
            mre = np.array([unbits(r["re"]) for r in m["rho"]])
            mim = np.array([unbits(r["im"]) for r in m["rho"]])
            ctx.point("one-hot[dm]: rho(space, space)", "property", np.concatenate([impl_arrays["rho"].real.ravel(), impl_arrays["rho"].imag.ravel()]).tolist(),
                      np.concatenate([mre.ravel(), mim.ravel()]).tolist(), sub, scale=sc, sig="onehot/rho", theorem=th)
        else:
            ctx.point(f"one-hot[{kind}]: psi(space)", "property", np.concatenate([impl_arrays["psi"].real, impl_arrays["psi"].imag]).tolist(),
                      np.concatenate([unbits(m["psi"]["re"]), unbits(m["psi"]["im"])]).tolist(), sub, scale=float(np.sqrt(sc)), sig="onehot/psi", theorem=th)


def gen_onehot_case(rng, thorough):
    kind = rng.choice(["pos", "cplx", "dm", "dm"])
    n = rng.randrange(1, 5 if thorough else 4)
    h = rng.randrange(1, 4)
    a = rng.randrange(1, 3)
    sc = rng.choice([0.3, 0.7, 1.0])
    D = 2 ** n
    k = rng.randrange(D)
    l = rng.choice([x for x in range(D) if x != k]) if D > 1 else k
    case = {"kind": "onehot", "state": kind, "n": n, "h": h, "k": k, "l": l, "basis": "".join(rng.choice("XYZ") for _ in range(n)),
            "pass_space": rng.random() < 0.5, **form_seeds(rng)}
    if kind == "dm":
        case["a"] = a
        case["am"] = qc.rand_prbm_params(rng, n, h, a, sc)
        case["ph"] = qc.rand_prbm_params(rng, n, h, a, sc)
    else:
        case["am"] = qc.rand_rbm_params(rng, n, h, sc)
        if kind == "cplx":
            case["ph"] = qc.rand_rbm_params(rng, n, h, sc * 2)
    return case


# ================================================================= part 1d: arguments outside the documented domain (outcome classes)
def intarg_case(ctx, case):
    """negative / beyond-int64 `num`, negative `size`, size > 62. The property speaks about indices 0 <= k and sizes >= 1 only, so:
      * 0 <= num < 2^63, size >= 1 (ANY size, also > 62 where `1 << i` wraps in int64): the vector must be the big-endian low bits of num —
        property-level oracle + model point (C19_subspace_int64);
      * num >= 2^63: the call may be refused (any exception) or answer CORRECTLY — a wrong vector is a violation, nothing else is;
      * negative num, negative size: OUTCOME CLASSES only. What the implementation does (two's complement bits / empty vector / which
        exception) is counted and compared with the int64 model (QV.Model.HilbertInt) in counters and a note — never a property or
        auxiliary point, because another correct implementation may legitimately answer differently there."""
    kind, nv, num, size = case["state"], case["nv"], case["num"], case["size"]
    ctx.current_case = case
    stream, it, fl = streams(case)
    st = build_state(ctx, kind, nv, it, fl) if stream else get_state(kind, nv)
    ctx.case({"k": "intarg", **case}, nontrivial=True, sample={"op": "subspace_vector / generate_hilbert_space with out-of-domain integers", "num": num, "size": size})
    # inside the domain (0 <= num < 2^63, size >= 0 or unspecified) the arguments take the forms of the case's stream; outside it plain ints
    in_dom = 0 <= num < 2 ** 63 and (size is None or size >= 0)
    try:
        v = form_call(ctx, it, st, "subspace_vector", num, size) if stream and in_dom else st.subspace_vector(num, size)
        sub = v.to(torch.int64).tolist() if v.dim() == 1 else {"bad-rank": v.dim()}
    except Exception as e:  # noqa: BLE001
        sub = "raised:" + errname(e)
    raised = isinstance(sub, str)
    s_eff = size if size else nv
    in64 = -2 ** 63 <= num < 2 ** 63
    cls = "negsize" if s_eff < 0 else "negnum" if num < 0 else "beyond-int64" if not in64 else "size>62" if s_eff > 62 else "domain"
    ctx.count(f"intarg:sub:{cls}=" + (sub if raised else "value"))
    th = "C19_subspace_int64, C19_subspace_is_binary_expansion"
    if num >= 0 and s_eff >= 0 and in64:
        ctx.oracle("subspace_vector(num, size) == big-endian low bits of num (any size, also > 62)", sub == bits_of(num, s_eff), case,
                   detail={"impl": sub, "want": bits_of(num, s_eff)}, sig="intarg/sub-bits", theorem=th)
    elif num >= 0 and s_eff >= 0:
        ctx.oracle("subspace_vector with an index beyond int64: refused or answered correctly, never a wrong vector", raised or sub == bits_of(num, s_eff), case,
                   detail={"impl": sub, "want": bits_of(num, s_eff)}, sig="intarg/sub-beyond-int64", theorem=th)
    g = None
    if case.get("guard", True) and s_eff <= 12:
        try:
            sp = st.generate_hilbert_space(size)
            g = "generated" if tuple(sp.shape) == (2 ** max(s_eff, 0), max(s_eff, 0)) else "generated-other-shape"
        except Exception as e:  # noqa: BLE001
            g = "raised:" + errname(e)
        if s_eff < 0:
            ctx.count(f"intarg:guard:negsize={g}")
    if ctx.driver is not None:
        m = ctx.driver.call("c19.intargs", num=num, size=size, nv=nv)
        msub = "raised:OverflowError" if m["sub"] == "OverflowError" else m["sub"]
        if num >= 0 and s_eff >= 0 and in64:
            ctx.point("subspace_vector (int64 model)", "property", sub, msub, case, exact=True, sig=f"intarg/sub/{cls}", theorem=th)
        else:
            same = (msub == sub) or (raised and isinstance(msub, str))
            ctx.count(f"intarg:model-{'agrees' if same else 'differs'}:{cls}")
            if not same and sum(1 for x in ctx.notes if x.startswith("out-of-domain integers:")) < 5:
                ctx.note(f"out-of-domain integers: subspace_vector({num}, {size}) implementation {sub} / int64 model {msub} (informational)")
        if g is not None and s_eff < 0:
            mg = m["guard"]
            ctx.count("intarg:guard-model-" + ("agrees" if (isinstance(mg, str) and g.startswith("raised")) or (not isinstance(mg, str) and g == "generated") else "differs"))


def gen_intarg_case(rng):
    nv = rng.randrange(1, 6)
    u = rng.random()
    if u < 0.2:
        num = rng.choice([2 ** 63, 2 ** 63 + rng.randrange(1000), 2 ** 64 + 5, -2 ** 63 - 1, -2 ** 70, 3 ** 50])
        size = rng.choice([None, 0, 3, 64, -1])
    elif u < 0.4:
        num = rng.choice([-1, -2, -3, -2 ** 63, -rng.randrange(1, 2 ** 40), 2 ** 63 - 1])
        size = rng.choice([None, 0, rng.randrange(1, 8), 62, 63, 64, 65, 70])
    elif u < 0.6:
        num = rng.choice([rng.randrange(2 ** 62), 2 ** 62, 2 ** 62 + 1, 2 ** 63 - 1, 5, 0])
        size = rng.choice([61, 62, 63, 64, 65, 66, 80, 100, 128])
    elif u < 0.8:
        num = rng.choice([0, 5, rng.randrange(2 ** 20), -1])
        size = -rng.randrange(1, 6)
    else:
        num = rng.randrange(2 ** 10)
        size = rng.choice([None, 0, rng.randrange(1, 13), 21, 25])
    return {"kind": "intarg", "state": rng.choice(["pos", "cplx", "dm"]), "nv": nv, "num": num, "size": size, **form_seeds(rng)}


# ================================================================= part 2: files
LINE_SPLIT = re.compile(r"\r\n|\r|\n")


def indep_parse(text):
    """independent tokenisation of a file text: rows of tokens (Python str.split on ASCII whitespace)"""
    rows = []
    for line in LINE_SPLIT.split(text):
        line = line.split("#", 1)[0]
        toks = line.split()
        if toks:
            rows.append(toks)
    return rows


def squeeze_expect(rows, ndmin=0):
    """('error', kind) | ('arr', {"k":…, "v":…}) — what np.loadtxt(…, ndmin=ndmin) should make of these rows, stated independently:
    ndmin=2 keeps the (N, m) table for every N, m >= 1 (an empty file is (0, 1)); ndmin=0 drops axes of length one; ndmin=1 likewise but
    never below one dimension."""
    if not rows:
        return ("arr", {"k": "mat", "v": []}) if ndmin == 2 else ("arr", {"k": "vec", "v": []})
    m = len(rows[0])
    if any(len(r) != m for r in rows):
        return ("error", "ValueError")
    if ndmin == 2:
        return ("arr", {"k": "mat", "v": [list(r) for r in rows]})
    if len(rows) == 1 and m == 1:
        return ("arr", {"k": "vec", "v": [rows[0][0]]}) if ndmin == 1 else ("arr", {"k": "scalar", "v": rows[0][0]})
    if len(rows) == 1:
        return ("arr", {"k": "vec", "v": list(rows[0])})
    if m == 1:
        return ("arr", {"k": "vec", "v": [r[0] for r in rows]})
    return ("arr", {"k": "mat", "v": [list(r) for r in rows]})


def pyfloat(tok):
    """the harness' stand-in for numpy's decimal parser; None when numpy refuses the token"""
    if "_" in tok or not re.fullmatch(r"[+-]?(\d+\.?\d*([eE][+-]?\d+)?|\.\d+([eE][+-]?\d+)?|inf|infinity)", tok, re.I):
        return None
    try:
        return float(tok)
    except ValueError:
        return None


def f32bits(x):
    """float64 bit pattern of the float32 rounding of the python float x (independent of numpy's loadtxt path)"""
    try:
        y = struct.unpack("<f", struct.pack("<f", x))[0]
    except OverflowError:
        y = float("inf") if x > 0 else float("-inf")
    return f2b(y)


def map_arr(a, f):
    if a["k"] == "scalar":
        return {"k": "scalar", "v": f(a["v"])}
    if a["k"] == "vec":
        return {"k": "vec", "v": [f(x) for x in a["v"]]}
    return {"k": "mat", "v": [[f(x) for x in r] for r in a["v"]]}


def np_arr(a, conv):
    a = np.asarray(a)
    if a.ndim == 0:
        return {"k": "scalar", "v": conv(a.item())}
    if a.ndim == 1:
        return {"k": "vec", "v": [conv(x) for x in a.tolist()]}
    if a.ndim == 2:
        return {"k": "mat", "v": [[conv(x) for x in r] for r in a.tolist()]}
    return {"k": f"rank{a.ndim}", "v": None}


def canon_items(res):
    """list returned by the real loader -> canonical items. Only what the property constrains is kept: the numeric VALUES (as
    doubles — single-precision values widen exactly, so the tensor's own float dtype does not matter) in their layout, and the
    basis tokens as strings in their layout; tensor / ndarray / list containers are all accepted."""
    items = []
    for i, x in enumerate(res):
        if isinstance(x, torch.Tensor) and x.dtype in (torch.double, torch.float32):
            x = x.detach().to(torch.double)
            if i == 0:
                items.append({"t": "num", "a": np_arr(x.numpy(), f2b)})
            elif x.dim() >= 1 and x.shape[0] == 2:
                items.append({"t": "cplx", "re": np_arr(x[0].numpy(), f2b), "im": np_arr(x[1].numpy(), f2b)})
            else:
                items.append({"t": "not-a-real-pair", "shape": list(x.shape)})
        elif isinstance(x, torch.Tensor):
            items.append({"t": "bad-dtype", "dtype": str(x.dtype)})
        elif isinstance(x, (np.ndarray, list, tuple)) and np.asarray(x).dtype.kind in ("U", "S", "O"):
            items.append({"t": "str", "a": np_arr(np.asarray(x), lambda t: t.decode() if isinstance(t, bytes) else str(t))})
        else:
            items.append({"t": "unknown", "type": type(x).__name__})
    return items


def num_expect(text, ndmin=0):
    """expected numeric array for a file text, from the independent parse: ('error', kind) | ('arr', Arr of f64 bits)"""
    rows = indep_parse(text)
    vals = []
    for r in rows:
        vr = []
        for t in r:
            v = pyfloat(t)
            if v is None:
                return ("error", "ValueError")
            vr.append(f32bits(v))
        vals.append(vr)
    return squeeze_expect(vals, ndmin)


def expect_load(case):
    """independent statement of what load_data / load_data_DM must return for the given file texts"""
    f = case["files"]
    st, s = num_expect(f["samples"], ndmin=2)     # F18: the samples keep their (N, n) shape, also for N = 1 or n = 1
    if st == "error":
        return {"error": s}
    items = [{"t": "num", "a": s}]
    if case["fn"] == "load_data":
        if f.get("psi") is not None:
            st, p = num_expect(f["psi"])
            if st == "error":
                return {"error": p}
            if p["k"] == "scalar":
                return {"error": "TypeError"}
            if p["k"] == "vec":
                return {"error": "IndexError"}
            items.append({"t": "cplx", "re": {"k": "vec", "v": [r[0] for r in p["v"]]}, "im": {"k": "vec", "v": [r[1] for r in p["v"]]}})
    else:
        parts = {}
        for key in ("re", "im"):
            if f.get(key) is not None:
                st, p = num_expect(f[key])
                if st == "error":
                    return {"error": p}
                parts[key] = p
        if len(parts) == 1:
            return {"error": "ValueError"}
        if len(parts) == 2:
            def shape(a):
                return () if a["k"] == "scalar" else (len(a["v"]),) if a["k"] == "vec" else (len(a["v"]), len(a["v"][0]))
            if shape(parts["re"]) != shape(parts["im"]):
                return {"error": "RuntimeError"}
            items.append({"t": "cplx", "re": parts["re"], "im": parts["im"]})
    for key, nd in (("tr_bases", 2), ("bases", 1)):   # per-sample bases: (N, n) table (F18); list of bases: ndmin=1 (word form of tutorial 3)
        if f.get(key) is not None:
            st, p = squeeze_expect(indep_parse(f[key]), ndmin=nd)
            if st == "error":
                return {"error": p}
            items.append({"t": "str", "a": p})
    return {"items": items}


LOAD_HOW = ("pos", "pos", "kw", "given", "trim", "rel")


def load_case(ctx, case, report=None):
    """write the file texts, read them back through the real loader, compare with model + independent expectation
    (report: the replayable description to attach to failures instead of `case` — used for the very large generated file, whose
    text is regenerated from a seed; details are then reduced to the first difference)"""
    from qucumber.utils import data as qdata
    f = case["files"]
    d = tmpdir()
    paths = {}
    for key, text in f.items():
        if text is None:
            paths[key] = None
        else:
            p = os.path.join(d, f"{key}.txt")
            with open(p, "w", newline="", encoding="ascii") as fh:
                fh.write(text)
            paths[key] = p
    # call form (case key "how"; audit2-4 C19 residue 2): all five / four paths positionally (default), every path by its documented keyword,
    # only the files that exist (first positionally, the others by keyword; trailing defaults omitted), or paths RELATIVE to the caller's
    # working directory
    how = case.get("how", "pos")
    ctx.count(f"load:call_form={how}")
    if case["fn"] == "load_data":
        fn, names, keys = qdata.load_data, ("tr_samples_path", "tr_psi_path", "tr_bases_path", "bases_path"), ("samples", "psi", "tr_bases", "bases")
    else:
        fn, names, keys = qdata.load_data_DM, ("tr_samples_path", "tr_mtx_real_path", "tr_mtx_imag_path", "tr_bases_path", "bases_path"), ("samples", "re", "im", "tr_bases", "bases")
    vals = [paths.get(k) for k in keys]
    old_cwd = None
    try:
        if how == "rel":
            old_cwd = os.getcwd()
            os.chdir(d)
            vals = [None if v is None else os.path.basename(v) for v in vals]
        if how == "kw":
            res = fn(**dict(zip(names, vals)))
        elif how == "given":
            res = fn(vals[0], **{n: v for n, v in zip(names[1:], vals[1:]) if v is not None})
        elif how == "trim":
            last = max(i for i, v in enumerate(vals) if v is not None)
            res = fn(*vals[: last + 1])
        else:
            res = fn(*vals)
        impl = {"items": canon_items(res)}
    except Exception as e:  # noqa: BLE001
        impl = {"error": errname(e)}
    finally:
        if old_cwd is not None:
            os.chdir(old_cwd)
    want = expect_load(case)
    rc = case if report is None else report

    def det(a, b):
        d0 = {"first_diff": first_diff(a, b)}
        return d0 if report is not None else {**d0, "impl": a, "want": b}

    def model_result():
        nums = {}
        for key in ("samples", "psi", "re", "im"):
            if f.get(key):
                for r in indep_parse(f[key]):
                    for t in r:
                        v = pyfloat(t)
                        if v is not None:
                            nums[t] = f2b(v)
        args = {k: f.get(k) for k in (("samples", "psi", "tr_bases", "bases") if case["fn"] == "load_data" else ("samples", "re", "im", "tr_bases", "bases"))}
        return ctx.driver.call("c19.load_data" if case["fn"] == "load_data" else "c19.load_data_dm", nums=nums, **args)

    empty = any(v is not None and not indep_parse(v) for v in f.values())
    valid = "items" in want and not empty
    ctx.count(f"load:{case['fn']}")
    for tg in case.get("tags", []):
        ctx.count(f"load:tag={tg}")
    if not valid:
        # A MALFORMED set of files (ragged table, unparsable token, empty file, a target that is not a 2-column table, only one of the two
        # matrix parts, parts of different shapes). The property says what the loaders return for the tables written in the files; it does
        # not say what happens here (which exception, or whether a lenient implementation accepts the input). Informational only: the
        # outcome class is counted and compared with the model's outcome class in a counter / note — never a property or auxiliary point.
        ctx.case({"k": "load", **rc}, nontrivial=False,
                 sample={"op": case["fn"], "files": {k: (v[:60] if v else v) for k, v in f.items()}, "tags": case.get("tags")})
        ctx.count("load:malformed:" + ("raised" if "error" in impl else "returned-a-value"))
        ctx.count("load:malformed-exception=" + str(impl.get("error")))
        if ctx.driver is not None:
            m = model_result()
            same = ("error" in m) == ("error" in impl) and m.get("error") == impl.get("error") if "error" in impl else m == impl
            ctx.count("load:malformed:model-" + ("agrees" if same else "differs"))
            if not same and sum(1 for x in ctx.notes if x.startswith("malformed files:")) < 5:
                ctx.note(f"malformed files: implementation {impl.get('error', 'returned a value')} / model {m.get('error', 'returns a value')} "
                         f"(informational; tags {case.get('tags')})")
        return
    ctx.count("load:result=ok")
    nontriv = bool(case.get("nontrivial"))
    ctx.case({"k": "load", **rc}, nontrivial=nontriv,
             sample={"op": case["fn"], "files": {k: (v[:60] if v else v) for k, v in f.items()}, "tags": case.get("tags")})
    th = TH["load"] if case["fn"] == "load_data" else TH["loaddm"]
    sig = f"{case['fn']}/values"
    ctx.oracle(f"{case['fn']} == independent parse of the files", impl == want, rc, sig=sig, theorem=th,
               detail=det(impl, want))
    # the logical tables the generator intended to write: "exactly as written"
    lg = case.get("logical")
    if lg and "items" in impl:
        exp_items = logical_items(case)
        ctx.oracle(f"{case['fn']} == tables as written", impl["items"] == exp_items, rc, sig=f"{case['fn']}/as-written", theorem=th,
                   detail=det(impl["items"], exp_items))
    if ctx.driver is not None:
        m = model_result()
        if report is not None and impl != m:      # keep the report small: the first difference instead of both 60 000-row values
            ctx.point(case["fn"], "property", first_diff(impl, m), None, rc, exact=True, sig=sig, theorem=th)
        else:
            ctx.point(case["fn"], "property", impl, m, rc, exact=True, sig=sig, theorem=th)
        if report is None:
            tk = ctx.driver.call("c19.tokenize", text=f["samples"])
            ctx.point("tokenize(samples) vs independent parse", "aux", indep_parse(f["samples"]), tk, case, exact=True, sig="tokenize")


def logical_items(case):
    """the tables the generator meant to write, "exactly as written" — stated WITHOUT np.squeeze: an N x n table of samples / per-sample
    bases is the 2-D array of shape (N, n) whatever N, n >= 1 are (F18); a target matrix is its D x D table (D = 2^n >= 2); the psi
    target is the 2 x rows real-pair layout; the list of bases (`bases_path`) is a 2-D table, or — one basis WORD per line, the form of
    tutorial 3 (and, residually, a single row of letters) — the 1-D list of the tokens."""
    lg = case["logical"]

    def table(tab, conv):
        assert tab and all(len(r) == len(tab[0]) >= 1 for r in tab)
        return {"k": "mat", "v": [[conv(x) for x in r] for r in tab]}

    def num(x):
        return f32bits(float(x))

    items = [{"t": "num", "a": table(lg["samples"], num)}]
    if case["fn"] == "load_data":
        if lg.get("psi") is not None:
            items.append({"t": "cplx", "re": {"k": "vec", "v": [f32bits(r[0]) for r in lg["psi"]]},
                          "im": {"k": "vec", "v": [f32bits(r[1]) for r in lg["psi"]]}})
    else:
        if lg.get("re") is not None and lg.get("im") is not None:
            assert len(lg["re"]) >= 2 and len(lg["im"]) >= 2
            items.append({"t": "cplx", "re": table(lg["re"], num), "im": table(lg["im"], num)})
    if lg.get("tr_bases") is not None:
        items.append({"t": "str", "a": table(lg["tr_bases"], str)})
    if lg.get("bases") is not None:
        rows = lg["bases"]
        if len(rows) <= 1 or len(rows[0]) <= 1:
            items.append({"t": "str", "a": {"k": "vec", "v": [t for r in rows for t in r]}})
        else:
            items.append({"t": "str", "a": table(rows, str)})
    return items


# ---------------------------------------------------------------- file generators
SEPS = [" ", " ", " ", "  ", "\t", " \t", "   ", "\x0b", "\x0c "]
ALPHABETS = ["XYZ", "XYZ", "Z", "XZ", "ZH", "ABZ", "xyz", "ZzY"]


def fmt_float(rng, x):
    k = rng.randrange(7)
    if k == 0:
        return repr(x)
    if k == 1:
        return "%.18e" % x
    if k == 2:
        return "%.25f" % x
    if k == 3:
        return "%.9g" % x
    if k == 4:
        return "%+.17E" % x
    if k == 5:
        return "%.40f" % x
    return "%.6f" % x


def midpoint_token(rng):
    """a decimal just above / below / exactly at the midpoint of two adjacent float32 values (double-rounding probe)"""
    from decimal import Decimal, getcontext
    getcontext().prec = 80
    a = np.float32(rng.uniform(-2, 2))
    b = np.nextafter(a, np.float32(10))
    mid = (Decimal(float(a)) + Decimal(float(b))) / 2
    eps = Decimal(10) ** (-rng.choice([25, 30, 40]))
    v = mid + rng.choice([-1, 0, 1]) * eps
    return format(v, "f")


def render(rng, rows, plain=False):
    """rows of tokens -> file text with random (model-covered) decoration; returns (text, tags)"""
    if plain:
        return "".join(" ".join(r) + "\n" for r in rows), ["plain"]
    tags = set()
    eol = rng.choice(["\n", "\n", "\n", "\r\n", "\r"])
    if eol != "\n":
        tags.add("eol=" + repr(eol))
    sep_mode = rng.random()
    out = []
    if rng.random() < 0.3:
        out.append("# header " + " ".join(rng.choice(["x", "1", "Z", "#"]) for _ in range(3)))
        tags.add("header-comment")
    for r in rows:
        if rng.random() < 0.12:
            out.append(rng.choice(["", "   ", "\t", "#", "  # only a comment 1 2"]))
            tags.add("blank/comment-line")
        if sep_mode < 0.5:
            line = " ".join(r)
        else:
            line = "".join(t + (rng.choice(SEPS) if i + 1 < len(r) else "") for i, t in enumerate(r))
            tags.add("mixed-separators")
        if rng.random() < 0.15:
            line = rng.choice([" ", "\t", "  "]) + line
            tags.add("leading-ws")
        if rng.random() < 0.15:
            line = line + rng.choice([" ", "\t ", "  "])
            tags.add("trailing-ws")
        if rng.random() < 0.12:
            line = line + rng.choice([" # c", "#c 1 0", "\t# Z Z"])
            tags.add("inline-comment")
        out.append(line)
    text = eol.join(out)
    if rng.random() < 0.8:
        text += eol
    else:
        tags.add("no-final-eol")
    if rng.random() < 0.1:
        text += eol + eol
    return text, sorted(tags)


def gen_samples(rng, N, n):
    tab = [[rng.randrange(2) for _ in range(n)] for _ in range(N)]
    style = rng.randrange(4)
    f = [lambda b: str(b), lambda b: f"{b}.0", lambda b: "%.18e" % b, lambda b: f"{b:.1f}" if b else "0"][style]
    return tab, [[f(b) for b in r] for r in tab]


def gen_target(rng, rows, cols):
    """many-digit real numbers, a few extreme / midpoint ones; returns (values as python floats, tokens)"""
    vals, toks = [], []
    for _ in range(rows):
        vr, tr = [], []
        for _ in range(cols):
            u = rng.random()
            if u < 0.08:
                t = midpoint_token(rng)
            elif u < 0.12:
                t = rng.choice(["1e39", "-3.5e38", "3.4028235e38", "1e-46", "-1e-50", "1.17549435e-38", "7e-46", "inf", "-inf", "0", "-0.0", "+1.5", "1.", ".5", "1E3"])
            else:
                t = fmt_float(rng, rng.gauss(0, 1) * rng.choice([1, 1, 1e-3, 1e3, 1e-8]))
            tr.append(t)
            vr.append(float(t))
        vals.append(vr)
        toks.append(tr)
    return vals, toks


def gen_bases_rows(rng, N, n, alphabet, p_allz=None, multi=0.0):
    rows = []
    p = rng.choice([0.0, 0.3, 0.6, 1.0]) if p_allz is None else p_allz
    for _ in range(N):
        if rng.random() < p:
            r = ["Z"] * n
        else:
            r = [rng.choice(alphabet) for _ in range(n)]
        if multi and rng.random() < multi:
            j = rng.randrange(n)
            r[j] = rng.choice(["ZZ", "Zz", "XZ", "ZX", "Z0"])
        rows.append(r)
    return rows


def gen_load_case(rng, valid_only=False):
    fn = rng.choice(["load_data", "load_data", "load_data_DM"])
    shape_kind = rng.choices(["big", "one-row", "one-col", "single"], weights=[6, 2, 2, 1])[0]   # N = 1 and n = 1 are inside "any N, n"
    if shape_kind == "big":
        N, n = rng.randrange(2, 9), rng.randrange(2, 7)
    elif shape_kind == "one-row":
        N, n = 1, rng.randrange(2, 7)
    elif shape_kind == "one-col":
        N, n = rng.randrange(2, 9), 1
    else:
        N, n = 1, 1
    plain = rng.random() < 0.25
    tags = [f"shape={shape_kind}"]
    files, logical = {}, {}
    stab, stoks = gen_samples(rng, N, n)
    files["samples"], tg = render(rng, stoks, plain)
    tags += tg
    logical["samples"] = stab
    alphabet = rng.choice(ALPHABETS)
    many_digits = False
    if fn == "load_data":
        if rng.random() < 0.75:
            rows = 2 ** min(n, 4) if rng.random() < 0.7 else rng.randrange(2, 7)
            cols = 2 if rng.random() < 0.85 else 3
            if not valid_only and rng.random() < 0.08:
                rows, cols = rng.choice([(1, 2), (3, 1), (1, 1)])
                tags.append("psi-not-2d")
            vals, toks = gen_target(rng, rows, cols)
            files["psi"], tg = render(rng, toks, plain)
            tags += tg
            logical["psi"] = vals
            many_digits = True
        else:
            files["psi"] = None
    else:
        mode = rng.choices(["both", "neither", "re-only", "im-only", "mismatch"], weights=[6, 1, 1, 1, 1 if not valid_only else 0])[0]
        if valid_only and mode in ("re-only", "im-only"):
            mode = "both"
        tags.append(f"dm={mode}")
        D = 2 ** min(n, 3)
        if mode in ("both", "re-only", "mismatch"):
            vals, toks = gen_target(rng, D, D)
            files["re"], tg = render(rng, toks, plain)
            logical["re"] = vals
            tags += tg
        else:
            files["re"] = None
        if mode in ("both", "im-only", "mismatch"):
            D2 = D if mode != "mismatch" else D + 1
            vals, toks = gen_target(rng, D2 if mode != "mismatch" or rng.random() < 0.5 else D, D2)
            files["im"], tg = render(rng, toks, plain)
            logical["im"] = vals
            tags += tg
        else:
            files["im"] = None
        many_digits = mode == "both"
    if rng.random() < 0.8:
        rows = gen_bases_rows(rng, N, n, alphabet, multi=0.1)
        files["tr_bases"], tg = render(rng, rows, plain)
        logical["tr_bases"] = rows
        tags += tg
    else:
        files["tr_bases"] = None
    if rng.random() < 0.7:
        nb = rng.choice([1, 1, 2, 3, 5])
        as_words = rng.random() < 0.3  # one token per basis ("XZZ") instead of one token per site
        rows = [["".join(rng.choice(alphabet) for _ in range(n))] if as_words else [rng.choice(alphabet) for _ in range(n)] for _ in range(nb)]
        files["bases"], tg = render(rng, rows, plain)
        logical["bases"] = rows
        tags.append(f"bases_rows={nb}")
        tags += tg
    else:
        files["bases"] = None
    case = {"fn": fn, "files": files, "logical": logical, "tags": sorted(set(tags)),
            "nontrivial": many_digits or not plain or shape_kind != "big"}
    # malformed stream
    if not valid_only and rng.random() < 0.1:
        key = rng.choice([k for k, v in files.items() if v is not None])
        kindm = rng.choice(["ragged", "badtoken", "empty"])
        rows = indep_parse(files[key])
        if kindm == "ragged" and len(rows) >= 2:
            i = rng.randrange(len(rows))
            rows[i] = rows[i][:-1] if len(rows[i]) > 1 and rng.random() < 0.5 else rows[i] + [rows[i][0]]
            files[key] = "".join(" ".join(r) + "\n" for r in rows)
        elif kindm == "badtoken" and key in ("samples", "psi", "re", "im") and rows:
            i = rng.randrange(len(rows))
            j = rng.randrange(len(rows[i]))
            rows[i][j] = rng.choice(["abc", "1,2", "0x10", "1d3", "1_0", "1+2j", "--1", "1e", "Z"])
            files[key] = "".join(" ".join(r) + "\n" for r in rows)
        elif kindm == "empty":
            files[key] = rng.choice(["", "\n\n", "# nothing here\n", "   \n#\n"])
        else:
            return case
        case["logical"] = None
        case["nontrivial"] = False
        case["tags"] = sorted(set(case["tags"] + [f"malformed={kindm}:{key}"]))
    return case


def big_file_case(ctx, bcase):
    """one large file (np.loadtxt reads in chunks of 50 000 lines): 60 000 samples x 2 sites with a per-sample bases file, a comment line
    and a blank line after the first chunk; through load_data, the model, the as-written oracle and extract_refbasis_samples.
    bcase = {"kind": "bigfile", "seed": s, "N": N}: everything is regenerated from the seed (replayable without storing the text)."""
    N, n = bcase.get("N", 60000), 2
    r = random.Random(bcase["seed"])
    stab = [[r.randrange(2) for _ in range(n)] for _ in range(N)]
    brow = [["Z"] * n if r.random() < 0.5 else [r.choice("XYZ") for _ in range(n)] for _ in range(N)]

    def text(rows):
        out = []
        for i, rr in enumerate(rows):
            if i == 50001:
                out.append("# after the first chunk")
                out.append("")
            out.append(" ".join(str(x) for x in rr))
        return "\n".join(out) + "\n"
    case = {"kind": "load", "fn": "load_data", "tags": [f"big-file-{N}"], "nontrivial": True,
            "files": {"samples": text(stab), "psi": None, "tr_bases": text(brow), "bases": None},
            "logical": {"samples": stab, "tr_bases": brow}}
    load_case(ctx, case, report=bcase)
    run_chain(ctx, {"kind": "chain", "samples_text": case["files"]["samples"], "bases_text": case["files"]["tr_bases"], "samples": stab, "bases": brow},
              report=bcase)


# ---------------------------------------------------------------- extract_refbasis_samples
def extract_case(ctx, case):
    from qucumber.utils import data as qdata
    samples, bases = case["samples"], case["bases"]
    form = case.get("form", "mat/mat")
    sm = torch.tensor(samples, dtype=torch.double)
    ba = np.array(bases, dtype=str)
    sm_before, ba_before = sm.clone(), ba.copy()
    try:
        qdata.extract_refbasis_samples(sm, ba)   # called twice on the same argument objects: the second result is the one compared
        z = qdata.extract_refbasis_samples(sm, ba)
        ctx.oracle("extract_refbasis_samples leaves its inputs unchanged", bool(torch.equal(sm, sm_before)) and bool(np.array_equal(ba, ba_before)),
                   case, sig="extract/inputs", theorem=TH["ref"])
        impl = {"result": np_arr(z.numpy().astype(np.int64) if z.numel() else z.numpy().astype(np.int64), int)}
        if z.dtype != torch.double:
            impl = {"bad-dtype": str(z.dtype)}
    except Exception as e:  # noqa: BLE001
        impl = {"error": errname(e)}
    wellformed = ba.ndim == 2 and sm.ndim >= 1 and sm.shape[0] == ba.shape[0]
    if wellformed:
        keep = [i for i, r in enumerate(bases) if all(t == "Z" for t in r)]
        wv = [samples[i] for i in keep]
        want = {"result": {"k": "mat" if sm.ndim == 2 else "vec", "v": wv}}
        nz = len(keep)
        ctx.count("extract:pattern=" + ("none" if nz == 0 else "all" if nz == len(bases) else "some"))
    else:
        # a call the property does not speak about (bases not a 2-D table, different numbers of sample and basis rows): the outcome —
        # which exception, or a lenient answer — is counted and compared with the model in a counter only, never as a point
        ctx.case({"k": "extract", **case}, nontrivial=False)
        ctx.count("extract:malformed:" + (impl.get("error") or "returned-a-value"))
        if ctx.driver is not None:
            m = ctx.driver.call("c19.extract", samples=np_arr(np.array(samples, dtype=np.int64), int), bases=np_arr(ba, str))
            ctx.count("extract:malformed:model-" + ("agrees" if m == impl else "differs"))
        return
    ctx.case({"k": "extract", **case}, nontrivial=0 < nz < len(bases),
             sample={"op": "extract_refbasis_samples", "N": len(bases), "bases": bases[:3] if isinstance(bases, list) else bases, "form": form})
    ctx.oracle("extract_refbasis_samples == rows with all-Z basis, in order", impl == want, case,
               sig="extract/value", theorem=TH["ref"], detail={"impl": impl, "want": want})
    if ctx.driver is not None:
        m = ctx.driver.call("c19.extract", samples=np_arr(np.array(samples, dtype=np.int64), int), bases=np_arr(ba, str))
        ctx.point("extract_refbasis_samples", "property", impl, m, case, exact=True, sig="extract/value", theorem=TH["ref"])


def gen_extract_case(rng):
    N, n = rng.randrange(1, 13), rng.randrange(1, 6)
    pool = [[rng.randrange(2) for _ in range(n)] for _ in range(max(1, N // 2))]
    samples = [list(rng.choice(pool)) if rng.random() < 0.5 else [rng.randrange(2) for _ in range(n)] for _ in range(N)]
    pat = rng.choice(["none", "all", "some", "some", "some"])
    alphabet = rng.choice(ALPHABETS)
    nonz = [c for c in alphabet if c != "Z"] or ["X"]
    bases = []
    for i in range(N):
        allz = pat == "all" or (pat == "some" and rng.random() < 0.5)
        if allz:
            bases.append(["Z"] * n)
        else:
            r = [rng.choice(alphabet) for _ in range(n)]
            r[rng.randrange(n)] = rng.choice(nonz + ["ZZ", "z", "Zz"])  # exactly-"Z" is required: near misses
            bases.append(r)
    case = {"samples": samples, "bases": bases, "form": "mat/mat"}
    u = rng.random()
    if u < 0.06:
        case.update(bases=[r[0] for r in bases], form="mat/vec")       # 1-D bases (one-column file): IndexError
    elif u < 0.10 and N >= 2:
        case.update(bases=bases[:-1], form="mat/mat-short")             # row-count mismatch: IndexError
    elif u < 0.16:
        case.update(samples=[r[0] for r in samples], form="vec/mat")   # 1-D samples (one-column samples file)
    return case


def chain_case(ctx, rng):
    """end to end: files -> load_data -> extract_refbasis_samples, vs the logical tables"""
    from qucumber.utils import data as qdata
    N, n = rng.choice([1, rng.randrange(2, 10), rng.randrange(2, 10)]), rng.choice([1, rng.randrange(2, 6), rng.randrange(2, 6)])   # single sample / single site included (F18)
    stab, stoks = gen_samples(rng, N, n)
    rows = gen_bases_rows(rng, N, n, rng.choice(ALPHABETS), p_allz=rng.choice([0.3, 0.6, 1.0]))
    st, _ = render(rng, stoks)
    bt, _ = render(rng, rows)
    case = {"kind": "chain", "samples_text": st, "bases_text": bt, "samples": stab, "bases": rows}
    run_chain(ctx, case)


def run_chain(ctx, case, report=None):
    from qucumber.utils import data as qdata
    rc = case if report is None else report
    d = tmpdir()
    ps, pb = os.path.join(d, "chain_s.txt"), os.path.join(d, "chain_b.txt")
    open(ps, "w", newline="").write(case["samples_text"])
    open(pb, "w", newline="").write(case["bases_text"])
    ctx.case({"k": "chain", **rc}, nontrivial=True)
    ctx.count("chain"); ctx.count(f"chain:N={'1' if len(case['samples']) == 1 else '>1'},n={'1' if len(case['samples'][0]) == 1 else '>1'}")
    try:
        s, b = qdata.load_data(ps, tr_bases_path=pb)
        z = qdata.extract_refbasis_samples(s, b).to(torch.int64).tolist()
    except Exception as e:  # noqa: BLE001
        z = {"error": errname(e)}
    want = [r for r, br in zip(case["samples"], case["bases"]) if all(t == "Z" for t in br)]
    ctx.oracle("load_data + extract_refbasis_samples == all-Z rows as written (2-D, also for one sample / one site)", z == want, rc, sig="chain",
               theorem="C19_load_then_refbasis, C19_refbasis",
               detail={"impl": z, "want": want} if report is None else {"first_diff": first_diff(z, want)})


# ================================================================= drivers of the run
def gen_index_states(rng, n, batch):
    mode = rng.random()
    if mode < 0.15:
        return [[1 if j == rng.randrange(n) else 0 for j in range(n)] for _ in range(batch)] if n else [[]]
    return [[rng.randrange(2) for _ in range(n)] for _ in range(batch)]


def run_all(ctx, thorough, scale=1, env=False):
    """env=True: the reduced sweep of `env_run` (a handful of cases of EVERY call family, same generators)"""
    rng = ctx.rng
    kinds = ["pos", "cplx", "dm"]
    # ---- (a) full spaces
    nmax = 12 if thorough else (5 if env else 8)
    for n in range(1, nmax + 1):
        how = rng.choice(["size", "default", "zero"])
        case = {"kind": "space", "state": kinds[n % 3], "nv": n if how != "size" else rng.choice([n, 1, 3]), "full": True,
                "size": n if how == "size" else (None if how == "default" else 0), "pass_size": how != "default" or rng.random() < 0.5,
                "device_form": rng.choice(DEVICE_FORMS), **form_seeds(rng)}
        space_case(ctx, case)
    # every way of passing the size / device arguments, on small spaces: the form of `size` is forced (key "size_form"), the other options
    # (constructor sizes, gpu, the index of subspace_vector, keyword / positional) come from the case's streams
    for sf in (SIZE_SWEEP[:2] if env else SIZE_SWEEP):
        for i, df in enumerate(DEVICE_FORMS):
            n = rng.randrange(1, 9)      # (up to 8: 2 ** size leaves np.int8 / np.uint8); half of the states have another number of visible units
            space_case(ctx, {"kind": "space", "state": rng.choice(kinds), "nv": n if i % 2 else (2 if n != 2 else 3), "full": True, "size": n, "pass_size": True,
                             "size_form": sf, "device_form": df, **form_seeds(rng)})
    # the DEFAULT size (num_visible as the constructor received it) with num_visible in every form, one by one (key "nv_form")
    for nf in (SIZE_SWEEP[:1] if env else SIZE_SWEEP):
        for kd in kinds:
            n = rng.randrange(8, 11)
            how = rng.choice(["default", "zero", "omit"])
            space_case(ctx, {"kind": "space", "state": kd, "nv": n, "full": False, "size": 0 if how == "zero" else None, "pass_size": how != "omit",
                             "nsamp": 20, "ks_seed": rng.randrange(10 ** 9), "nv_form": nf, "device_form": rng.choice(DEVICE_FORMS), **form_seeds(rng)})
    # ---- sampled rows, n = 9/13 .. 20 (20 always: the boundary of the guard)
    big = [9, 14, 20] if env else list(range(nmax + 1, 21))
    for n in big:
        how = rng.choice(["size", "default"]) if n != 20 else ("size" if rng.random() < 0.5 else "default")
        case = {"kind": "space", "state": rng.choice(kinds), "nv": n if how == "default" else 2, "full": False,
                "size": n if how == "size" else None, "nsamp": 200 if thorough else 60, "ks_seed": rng.randrange(10 ** 9),
                "device_form": rng.choice(DEVICE_FORMS), **form_seeds(rng)}
        space_case(ctx, case)
    if thorough:   # n = 20 through both call forms
        space_case(ctx, {"kind": "space", "state": "dm", "nv": 20, "full": False, "size": 0, "nsamp": 100, **form_seeds(rng)})
        space_case(ctx, {"kind": "space", "state": "pos", "nv": 3, "full": False, "size": 20, "nsamp": 100, **form_seeds(rng)})
    # ---- guard / default cases (malformed stream)
    for (size, nv) in [(21, 2), (None, 21), (0, 21), (22, 20), (64, 3), (0, 3), (None, 4), (1000, 2), (21, 21)] + \
            [(rng.randrange(21, 40), rng.randrange(1, 6)) for _ in range(0 if env else 3 * scale)]:
        space_case(ctx, {"kind": "space", "state": rng.choice(kinds), "nv": nv, "size": size, "full": eff_size(size, nv) <= nmax, "nsamp": 20,
                         "device_form": rng.choice(DEVICE_FORMS), **form_seeds(rng)})
    # ---- (a') results handed out earlier are modified in place between calls
    for how in MUTATIONS * (3 if thorough else 1):
        c = gen_alias_case(rng, thorough)
        c["how"] = how
        alias_case(ctx, c)
    for _ in range((40 if thorough else (2 if env else 6)) * scale):
        alias_case(ctx, gen_alias_case(rng, thorough))
    # ---- (b) subspace_vector
    for _ in range((200 if thorough else (5 if env else 20)) * scale):
        size = rng.choice([None, 0, rng.randrange(1, 21), rng.randrange(1, 41), rng.randrange(21, 61)])
        nv = rng.randrange(1, 8)
        s = eff_size(size, nv)
        nums = [rng.randrange(2 ** s) for _ in range(4)] + [0, 2 ** s - 1, rng.randrange(2 ** s, 2 ** min(s + 3, 62) + 1), 2 ** s,
                                                             rng.randrange(2 ** 62)]
        subspace_case(ctx, {"kind": "sub", "state": rng.choice(kinds), "nv": nv, "size": size, "nums": nums,
                            "device_form": rng.choice(DEVICE_FORMS), **form_seeds(rng)})
    # ---- (c) index
    for _ in range((300 if thorough else (6 if env else 25)) * scale):
        n = rng.choice([1, 2, 3, 4, 5, 6, 8, 10, 12, 16, 20, 24, 30])
        index_case(ctx, {"kind": "index", "states": gen_index_states(rng, n, rng.randrange(1, 9))})
    # ---- (d) kron ordering
    for _ in range((100 if thorough else (4 if env else 12)) * scale):
        n = rng.randrange(1, 5)
        D = 2 ** n
        g = lambda: rng.gauss(0, 1)  # noqa: E731
        case = {"kind": "kron", "n": n, "basis": "".join(rng.choice("XYZ") for _ in range(n)), "k": rng.randrange(D),
                "psi_re": [g() for _ in range(D)], "psi_im": [g() for _ in range(D)], **form_seeds(rng)}
        if n <= 3:
            case["rho_re"] = [[g() for _ in range(D)] for _ in range(D)]
            case["rho_im"] = [[g() for _ in range(D)] for _ in range(D)]
        kron_case(ctx, case)
    # ---- (d') one-hot at k through every producing / accepting entry point
    for _ in range((150 if thorough else (8 if env else 24)) * scale):
        onehot_case(ctx, gen_onehot_case(rng, thorough))
    # ---- (d'') out-of-domain integer arguments as outcome classes
    for c in [{"kind": "intarg", "state": "pos", "nv": 3, "num": -1, "size": 3}, {"kind": "intarg", "state": "dm", "nv": 2, "num": 5, "size": -1},
              {"kind": "intarg", "state": "cplx", "nv": 2, "num": 2 ** 63, "size": 4}, {"kind": "intarg", "state": "pos", "nv": 2, "num": 2 ** 62 + 1, "size": 65},
              {"kind": "intarg", "state": "pos", "nv": 4, "num": -2 ** 63, "size": 64}]:
        intarg_case(ctx, {**c, **form_seeds(rng)})
    for _ in range((150 if thorough else (5 if env else 25)) * scale):
        intarg_case(ctx, gen_intarg_case(rng))
    # ---- (e) files
    if thorough and scale == 1:
        big_file_case(ctx, {"kind": "bigfile", "seed": rng.randrange(1 << 30), "N": 60000})
    for _ in range((2000 if thorough else (40 if env else 150)) * scale):
        c = gen_load_case(rng)
        c["kind"] = "load"
        c["how"] = rng.choice(LOAD_HOW)
        load_case(ctx, c)
    # fixed double-rounding witness: via-double rounding gives 1.0, direct decimal->float32 rounding would give 1.0000001
    load_case(ctx, {"kind": "load", "fn": "load_data", "tags": ["double-rounding-witness"], "nontrivial": True, "logical": None,
                    "files": {"samples": "1 0\n0 1\n", "psi": "1.000000059604644775390625000001 0.5\n-1.000000059604644775390625000001 2\n",
                              "tr_bases": None, "bases": None}})
    # ---- (f) extract
    for _ in range((1500 if thorough else (20 if env else 120)) * scale):
        c = gen_extract_case(rng)
        c["kind"] = "extract"
        extract_case(ctx, c)
    for _ in range((40 if thorough else (3 if env else 10)) * scale):
        chain_case(ctx, rng)


def run(ctx):
    ctx.rule = RULE
    try:
        run_all(ctx, ctx.tier == "thorough")
    finally:
        cleanup()


def env_run(ctx, env_name):
    """the same property for a caller who changed a process-global setting (harness/common.py ENVS: default dtype float64, no_grad,
    another working directory): a reduced sweep over EVERY call family of the property (Hilbert-space functions on all three state
    classes, index helper, rotation helpers, one-hot family, both loaders, extract_refbasis_samples, the load -> extract chain), with
    the states constructed INSIDE the environment (the cache of state objects is emptied first and restored afterwards)"""
    saved = dict(_STATES)
    _STATES.clear()
    try:
        run_all(ctx, False, env=True)
    finally:
        _STATES.clear()
        _STATES.update(saved)
        cleanup()


def search(ctx):
    """larger oracle-only sweep on the implementation (used when a proof obligation / auxiliary point is broken)"""
    drv, ctx.driver = ctx.driver, None
    try:
        run_all(ctx, True, scale=3)
    finally:
        ctx.driver = drv
        cleanup()


def replay(ctx, case):
    try:
        k = case.get("kind")
        if k == "space":
            space_case(ctx, case)
        elif k == "alias":
            alias_case(ctx, {kk: v for kk, v in case.items() if kk != "step"})
        elif k == "sub":
            subspace_case(ctx, case)
        elif k == "index":
            index_case(ctx, case)
        elif k == "kron":
            kron_case(ctx, case)
        elif k == "onehot":
            onehot_case(ctx, case)
        elif k == "intarg":
            intarg_case(ctx, case)
        elif k == "bigfile":
            big_file_case(ctx, case)
        elif k == "load":
            load_case(ctx, case)
        elif k == "extract":
            extract_case(ctx, case)
        elif k == "chain":
            run_chain(ctx, case)
        else:
            ctx.note(f"unknown case kind {k}")
    finally:
        cleanup()
