"""Argument-form sweep (round 5): every boolean and every integer option of a public call a harness makes is handed over as one of
the objects callers really pass, not only as the Python literals `True` / `False` / `3`.

  * boolean options: the forms of `qc.FLAG_FORMS` (bool singleton, int 0/1, numpy.bool_, result of a numpy comparison, 0-d numpy bool
    array, 0-d torch.bool tensor) through `qc.flag_forms`;
  * integer options: the forms of `qc.INT_FORMS` (Python int, numpy.int64 / int32 / intp, numpy.uint8 where the value fits, 0-d integer
    numpy array, 0-d integer torch tensor) plus an `int` SUBCLASS instance (`IntSub`), restricted per option to the forms which the
    CLEAN code accepts and under which the harmless rewrites of benign/ keep the property (the `allowed=` tuples below; what was left
    out and why is recorded in notes/Cxx.md, "## Argument-form sweep").

The MODEL is always told the VALUE (plain int / bool): the theorems are about values, and on the clean tree no behaviour inside the six
properties swept with this module (C06, C07, C11, C16, C18, C20) depends on the form.  (Two places of the clean code do test identity:
`fit`'s `disable_progbar = progbar is False` and the evaluators' `if self.verbose is True` - both only decide whether something is
PRINTED, which no property constrains; see the notes.)

Replayability: a case carries ONE integer `aseed`; `Forms(aseed)` is a deterministic stream, consulted in the fixed order in which the
harness makes its calls, so a replay hands over the same objects.  A case without `aseed` (corpus/, replays stored before this round)
gets exactly the Python literals it always got.
"""
import random

from . import qc
from .qc import torch

class IntSub(int):
    """an `int` subclass (what an `enum.IntEnum` member, a `bool`-free counter type or a config wrapper is): an int in every Python sense
    (isinstance, __index__, arithmetic, torch / numpy APIs), but `type(x) is int` is False"""

    __slots__ = ()


# integer forms: those of qc.INT_FORMS plus the int subclass
ALL_INT = tuple(qc.INT_FORMS) + ("intsub",)
NO_T0D = tuple(f for f in ALL_INT if f != "t0d")         # options whose value enters float arithmetic (a 0-d int64 tensor makes it float32)
NO_U8 = tuple(f for f in ALL_INT if f != "np.uint8")     # options the code negates (`-c`: an unsigned numpy integer wraps around)
# batch sizes: harmless rewrites of the batching code hand them to `torch.split`, which takes Python ints (and subclasses) only
PY_INT = ("py", "intsub")
# counts that enter a ceiling division (num_samples / num_chains): no 0-d tensor (float32 statistics on the clean tree), no unsigned numpy
# integer (the integer-ceiling idiom -(-a // b), judged a harmless rewrite in benign/C07_2, negates it)
COUNT_INT = tuple(f for f in ALL_INT if f not in ("t0d", "np.uint8"))
# periods (`epoch % period`): harmless rewrites use `divmod(epoch, period)`, which a 0-d torch tensor does not support (benign/C18_2, C11_2)
PERIOD_INT = NO_T0D
# the integer options of `fit`
FIT_INT = {"epochs": ALL_INT, "pos_batch_size": PY_INT, "neg_batch_size": PY_INT, "k": ALL_INT, "starting_epoch": ALL_INT}
NO_CUDA = not torch.cuda.is_available()


def int_value(form, n):
    return IntSub(int(n)) if form == "intsub" else qc.int_value(form, n)


def int_forms(rng, n, allowed=ALL_INT, plain=0.3):
    """(object, descriptor) for the integer option value n: a Python int with probability `plain`, else one of the `allowed` forms"""
    form = "py" if rng.random() < plain else rng.choice(list(allowed))
    if form == "np.uint8" and not (0 <= int(n) < 256):
        form = "np.int64"
    return int_value(form, n), {"form": form, "value": int(n)}


def new_seed(rng):
    """the `aseed` of a freshly generated case"""
    return rng.randrange(1 << 30)


class Forms:
    """`fm.i(name, n)` -> the object handed over for the integer option `name` with value n; `fm.f(name, b)` -> the object for the boolean
    option; `fm.pos(name)` -> is this option group written positionally?  Everything is drawn from the case's own stream (`aseed`);
    `aseed=None`: the value itself, keyword form.  `ctx` (optional): input-distribution counters `arg <name> given as <form>`."""

    def __init__(self, aseed, ctx=None, prefix=""):
        self.rng = None if aseed is None else random.Random(aseed)
        self.ctx, self.prefix = ctx, prefix
        self.used = []

    def _note(self, name, d):
        self.used.append([name, d["form"], d["value"]])
        if self.ctx is not None:
            self.ctx.count(f"arg {self.prefix}{name} given as {d['form']}")

    def i(self, name, n, allowed=ALL_INT):
        """None, bool, float, str and other non-int values are handed over unchanged (they are not integer options' integer values)"""
        if self.rng is None or type(n) is not int:
            return n
        v, d = int_forms(self.rng, n, allowed)
        self._note(name, d)
        return v

    def f(self, name, b):
        if self.rng is None or type(b) is not bool:
            return b
        v, d = qc.flag_forms(self.rng, b)
        self._note(name, d)
        return v

    def gpu(self, name="gpu"):
        """the object handed as `gpu=`: falsy (this machine has no CUDA device) in every flag form; on a machine without CUDA also, one time in
        four, a TRUTHY one (`gpu=True` is the documented default of BinaryRBM / PositiveWaveFunction and falls back to the CPU with a
        warning)"""
        if self.rng is None:
            return False
        return self.f(name, NO_CUDA and self.rng.random() < 0.25)

    def pos(self, name, p=0.35):
        """write the call `name` positionally (documented parameter order) instead of by keyword?"""
        if self.rng is None:
            return False
        r = self.rng.random() < p
        if self.ctx is not None and r:
            self.ctx.count(f"call {self.prefix}{name} written positionally")
        return r

    def chance(self, p):
        return self.rng is not None and self.rng.random() < p


def plain(x):
    """the VALUE of an option object (what the model is told and what details / counters show): int for integer forms, bool for flags"""
    if isinstance(x, (bool,)) or x is None or isinstance(x, (str, float)) and not hasattr(x, "dtype"):
        return x
    if isinstance(x, int):
        return int(x)
    if isinstance(x, torch.Tensor):
        return bool(x) if x.dtype == torch.bool else int(x)
    if hasattr(x, "dtype"):
        import numpy as np
        return bool(x) if np.asarray(x).dtype == np.bool_ else (int(x) if np.issubdtype(np.asarray(x).dtype, np.integer) else float(x))
    return x
