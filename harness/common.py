"""Shared machinery of the correspondence harness.

A check run = (1) lake build (theorems + driver), (2) axiom audit, (3) correspondence of the
executable Lean model with the real implementation on generated inputs + property oracles on
the implementation, (4) verdict (exit 0 / VIOLATION ... exit 1 / internal error exit 2).
"""
import fcntl
import hashlib
import json
import math
import os
import random
import re
import struct
import subprocess
import sys
import time
import traceback

VERIF = os.path.dirname(os.path.dirname(os.path.abspath(__file__)))
LEAN_DIR = os.path.join(VERIF, "lean")
DRIVER_EXE = os.path.join(LEAN_DIR, ".lake", "build", "bin", "qvdriver")
REPO = os.environ.get("QV_REPO", "/repo")
ALLOWED_AXIOMS = {"propext", "Classical.choice", "Quot.sound"}

TRUSTED_BASE = [
    "Lean 4.33 kernel; Mathlib definitions of Real/Complex analysis and Matrix; axioms propext, Classical.choice, Quot.sound only",
    "QV/Real.lean: the instance Transc Real is the stated meaning of the float operations (no rounding-error bound is proved)",
    "hand-written model QV/Model/*.lean tied to /repo only by this correspondence check (finite, seeded inputs; tolerance rtol 1e-6)",
    "harness (generators, adapters, comparison), Python, torch, numpy; Lean compiler/runtime and libm for the Float instantiation",
]


# ---------------------------------------------------------------- float <-> bits
def f2b(x):
    return struct.unpack("<Q", struct.pack("<d", float(x)))[0]


def b2f(b):
    return struct.unpack("<d", struct.pack("<Q", int(b)))[0]


def bits(a):
    """nested lists / numpy / torch -> nested lists of bit patterns"""
    import numpy as np

    if hasattr(a, "detach"):
        a = a.detach().cpu().numpy()
    a = np.asarray(a, dtype=np.float64)
    return np.ascontiguousarray(a).view(np.uint64).tolist()


def unbits(b):
    import numpy as np

    return np.asarray(b, dtype=np.uint64).view(np.float64)


# ---------------------------------------------------------------- driver
class Driver:
    def __init__(self):
        self.p = subprocess.Popen(
            [DRIVER_EXE], stdin=subprocess.PIPE, stdout=subprocess.PIPE, text=True, bufsize=1
        )
        self.calls = 0

    def call(self, op, **args):
        args["op"] = op
        self.p.stdin.write(json.dumps(args) + "\n")
        self.p.stdin.flush()
        line = self.p.stdout.readline()
        if not line:
            raise InternalError(f"driver died on op {op}")
        self.calls += 1
        r = json.loads(line)
        if "err" in r:
            raise InternalError(f"driver error on op {op}: {r['err']}")
        return r["ok"]

    def close(self):
        try:
            self.p.stdin.close()
            self.p.wait(timeout=10)
        except Exception:
            self.p.kill()


class InternalError(Exception):
    pass


# ---------------------------------------------------------------- build + audit
def strip_lean_comments(src):
    # block comments (nested) and line comments
    out = []
    i, depth, n = 0, 0, len(src)
    while i < n:
        if src.startswith("/-", i):
            depth += 1
            i += 2
        elif depth and src.startswith("-/", i):
            depth -= 1
            i += 2
        elif depth:
            i += 1
        elif src.startswith("--", i):
            while i < n and src[i] != "\n":
                i += 1
        else:
            out.append(src[i])
            i += 1
    return "".join(out)


FORBIDDEN = re.compile(
    r"\bsorry\b|\badmit\b|^\s*axiom\s|\bnative_decide\b|\bbv_decide\b|implemented_by|\bunsafe\s|maxHeartbeats\s+0\b|\bextern\b",
    re.M,
)


def textual_audit():
    bad = []
    for root in ("QV",):
        for dp, _, fs in os.walk(os.path.join(LEAN_DIR, root)):
            for f in fs:
                if f.endswith(".lean"):
                    p = os.path.join(dp, f)
                    src = strip_lean_comments(open(p).read())
                    for m in FORBIDDEN.finditer(src):
                        bad.append(f"{os.path.relpath(p, LEAN_DIR)}: {m.group(0).strip()}")
    return bad


def lake_build(targets=("QV", "qvdriver")):
    """returns (ok, log). Serialised by a lock file so concurrent checks do not race."""
    lock = open(os.path.join(LEAN_DIR, ".build.lock"), "w")
    fcntl.flock(lock, fcntl.LOCK_EX)
    try:
        r = subprocess.run(
            ["lake", "build", *targets], cwd=LEAN_DIR, capture_output=True, text=True, timeout=3000
        )
        log = (r.stdout + r.stderr)
        return r.returncode == 0, log
    finally:
        fcntl.flock(lock, fcntl.LOCK_UN)
        lock.close()


def axiom_audit(pid):
    """returns dict theorem -> list of axioms, for all QV.Props theorems named <pid>_*"""
    src = f'import QV.Props.{pid}\nimport QV.AuditCmd\n#audit_props "{pid}"\n'
    path = os.path.join(LEAN_DIR, ".lake", f"audit_{pid}_{os.getpid()}.lean")
    with open(path, "w") as f:
        f.write(src)
    try:
        r = subprocess.run(
            ["lake", "env", "lean", path], cwd=LEAN_DIR, capture_output=True, text=True, timeout=1200
        )
    finally:
        os.unlink(path)
    res = {}
    for line in r.stdout.splitlines():
        m = re.match(r"AUDIT (\S+) :(.*)$", line)
        if m:
            res[m.group(1)] = [a for a in m.group(2).split() if a]
    if r.returncode != 0 and not res:
        # the property module does not build / is missing: a broken proof obligation, reported by the caller
        res["__error__"] = [(r.stdout + r.stderr)[-1500:]]
    return res


def fingerprint(files):
    out = {}
    for f in files:
        p = os.path.join(REPO, f)
        try:
            out[f] = hashlib.sha256(open(p, "rb").read()).hexdigest()[:16]
        except OSError:
            out[f] = "missing"
    return out


# ---------------------------------------------------------------- comparison context
RTOL = 1e-6
ATOL = 1e-9


def close(a, b, scale=1.0, rtol=RTOL, atol=ATOL):
    a = float(a)
    b = float(b)
    if math.isnan(a) or math.isnan(b):
        return math.isnan(a) and math.isnan(b)
    if math.isinf(a) or math.isinf(b):
        return a == b
    return abs(a - b) <= atol * max(1.0, abs(scale)) + rtol * max(abs(a), abs(b))


class Ctx:
    """Collects comparisons, oracle results, distribution statistics for one check run."""

    def __init__(self, pid, tier, seed, driver):
        self.pid = pid
        self.tier = tier
        self.seed = seed
        self.rng = random.Random(seed * 1000003 + int(pid[1:]))
        self.driver = driver
        self.evaluations = 0  # compared observation points
        self.cases = 0
        self.nontrivial = set()
        self.samples = []
        self.dist = {}
        self.prop_mismatch = []  # property-level disagreements / oracle failures  (violations)
        self.aux_mismatch = []
        self.notes = []
        self.rule = ""
        self.oracle_checks = 0
        self.known_hits = []

    # -- bookkeeping
    def count(self, key, k=1):
        self.dist[key] = self.dist.get(key, 0) + k

    def info(self, name, impl, model):
        """behaviour the property text does not constrain (malformed / undocumented call forms, wording of printed lines, which
        partial effects an internal helper leaves behind when it raises, ...): compared with the model for the RECORD only - a counter
        in the evidence, never a property or auxiliary mismatch (GAP_GUIDE: nothing outside what the property constrains may alarm)"""
        same = impl == model
        self.count(f"info:{name}: " + ("as modelled" if same else "differs from the model (not constrained by the property: no verdict)"))
        return same

    def case(self, desc, nontrivial=True, sample=None):
        """register one generated case; desc must be hashable-able (json) and canonical"""
        self.cases += 1
        if nontrivial:
            self.nontrivial.add(hashlib.sha1(json.dumps(desc, sort_keys=True, default=str).encode()).hexdigest())
        if sample is not None and len(self.samples) < 6:
            self.samples.append(sample)

    # -- comparisons between implementation and model
    def point(self, name, level, impl, model, case, scale=1.0, exact=False, rtol=RTOL, atol=ATOL, sig=None, theorem=None):
        """compare one observation point. level: 'property' | 'aux'. impl/model: scalars or flat lists
        of floats, or arbitrary json-able objects when exact=True."""
        self.evaluations += 1
        ok = True
        detail = None
        if exact:
            ok = impl == model
            if not ok:
                detail = {"impl": impl, "model": model}
        else:
            import numpy as np

            ia = np.asarray(impl, dtype=np.float64).ravel()
            ma = np.asarray(model, dtype=np.float64).ravel()
            if ia.shape != ma.shape:
                ok = False
                detail = {"impl_shape": list(ia.shape), "model_shape": list(ma.shape)}
            else:
                sc = scale
                for k in range(ia.size):
                    if not math.isfinite(ma[k]) and math.isfinite(ia[k]):
                        # the Float evaluation of the model overflowed (inf / nan) where the implementation returns a finite number:
                        # the theorems are about real numbers, the overflowed model value carries no information about the
                        # quantity the property names (the independent oracles decide such regimes)
                        self.count("model_nonfinite_skipped")
                        continue
                    if not close(ia[k], ma[k], sc, rtol, atol):
                        ok = False
                        detail = {"index": k, "impl": float(ia[k]), "model": float(ma[k]),
                                  "impl_all": [float(x) for x in ia[:64]], "model_all": [float(x) for x in ma[:64]]}
                        break
        if not ok:
            rec = {"point": name, "level": level, "case": case, "detail": detail,
                   "signature": sig or f"{name}", "theorem": theorem, "env": getattr(self, "env_name", None)}
            (self.prop_mismatch if level == "property" else self.aux_mismatch).append(rec)
        return ok

    def oracle(self, name, ok, case, detail=None, sig=None, theorem=None):
        """a property statement evaluated directly on the implementation"""
        self.oracle_checks += 1
        self.evaluations += 1
        if not ok:
            self.prop_mismatch.append({"point": name, "level": "oracle", "case": case, "detail": detail,
                                       "signature": sig or name, "theorem": theorem, "env": getattr(self, "env_name", None)})
        return ok

    def note(self, s):
        self.notes.append(s)


# ---------------------------------------------------------------- known findings
def load_known():
    p = os.path.join(VERIF, "known_findings.json")
    if not os.path.exists(p):
        return []
    return json.load(open(p))["findings"]


def write_json(path, obj):
    os.makedirs(os.path.dirname(path), exist_ok=True)
    tmp = path + f".tmp{os.getpid()}"
    with open(tmp, "w") as f:
        json.dump(obj, f, indent=1, default=str)
    os.replace(tmp, path)


# ---------------------------------------------------------------- process-global environments
# Properties quantify over inputs, not over the caller's process-global settings; but a library that silently depends on one of them
# (tensor factory calls without an explicit dtype, relative paths, autograd mode) breaks the property for a caller who changed it.
# Every check therefore replays its corpus, and runs the module's optional `env_run(ctx, env_name)`, under each of these environments.
import contextlib


@contextlib.contextmanager
def _default_dtype_float64():
    import torch
    old = torch.get_default_dtype()
    torch.set_default_dtype(torch.float64)
    try:
        yield
    finally:
        torch.set_default_dtype(old)


@contextlib.contextmanager
def _no_grad():
    import torch
    with torch.no_grad():
        yield


@contextlib.contextmanager
def _other_cwd():
    import tempfile
    old = os.getcwd()
    d = tempfile.mkdtemp(prefix="qv_cwd_")
    os.chdir(d)
    try:
        yield
    finally:
        os.chdir(old)
        try:
            os.rmdir(d)
        except OSError:
            import shutil
            shutil.rmtree(d, ignore_errors=True)


ENVS = {"default-dtype-float64": _default_dtype_float64, "no-grad": _no_grad, "other-cwd": _other_cwd}


@contextlib.contextmanager
def environment(name):
    """context manager for one named process-global environment (None / "" = the ordinary one)"""
    if not name:
        yield
    else:
        with ENVS[name]():
            yield
