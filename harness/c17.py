"""C17 — periodic callbacks: real `fit` runs with MetricEvaluator / ObservableEvaluator / ModelSaver / Logger,
an independent recorder callback as ground truth, exact comparison with the executable model
(QV.Model.Callbacks via op `c17.run`) plus oracles that re-state the property directly on the implementation."""
import csv
import io
import os
import shutil
import tempfile

import numpy as np

from . import qc
from .common import b2f, f2b
from .qc import torch

FILES = [
    "qucumber/callbacks/metric_evaluator.py",
    "qucumber/callbacks/observable_evaluator.py",
    "qucumber/callbacks/model_saver.py",
    "qucumber/callbacks/logger.py",
    "qucumber/callbacks/callback.py",
    "qucumber/nn_states/neural_state.py",
]
REQUIRED_THEOREMS = ["C17_schedule_metric", "C17_schedule_observable", "C17_schedule_logger", "C17_schedule_saver", "C17_saver",
                     "C17_saver_file", "C17_records_metric_run", "C17_records_observable_run",
                     "C17_records_get_value", "C17_records_get_value_out_of_range", "C17_independent"]
EXTRA_TRUSTED = [
    "C17: the event stream fed to the model is the one recorded by a user callback in the same real run (how fit produces it is C12)",
    "C17: file_name has the form pre+'{}'+post; obs_name+'_'+stat_name is injective on the pairs that occur; "
    "torch.save/torch.load round-trip (C11); verbose printing and pre-existing log-file content are not modelled",
]
RULE = ("case = (state kind, seed, callback list [two metric evaluators with different periods, observable evaluator, "
        "model saver, logger; periods 1..4, log on/off, metadata callable/dict/none, metadata_only, save_initial], "
        "segments [(starting_epoch, epochs, optional stop injected by a user callback at a chosen event, "
        "clear_history on chosen evaluators afterwards)]); every segment is one real fit(); "
        "non-trivial iff at least one scheduled and one unscheduled epoch-end fired for some callback; distinct by hash of the case")

STAT_QUERIES = ["mean", "means", "variance", "variances", "std_error", "std_errors", "num_samples", "num_sample", "foo", "s"]
EXTRA_NAMES = ["not_tracked"]
EVKIND = {"on_train_start": "ts", "on_train_end": "te", "on_epoch_start": "es", "on_epoch_end": "ee",
          "on_batch_start": "bs", "on_batch_end": "be"}


# ---------------------------------------------------------------- scripted environment
def metric_value(idx, w, offset):
    """value of scripted metric number idx at world w (pure, injective in (idx, w) for idx < 7)"""
    return 1000 * w + 7 * idx + offset


def make_state(kind, seed):
    torch.manual_seed(seed)
    if kind == "pos":
        st = qc.PositiveWaveFunction(2, 2, gpu=False)
    elif kind == "cplx":
        st = qc.ComplexWaveFunction(2, 2, gpu=False)
    else:
        st = qc.DensityMatrix(2, 2, 2, gpu=False)
    data = torch.randint(0, 2, (8, 2)).double()
    bases = None if kind == "pos" else np.array([["Z", "Z"], ["X", "Z"], ["Z", "Y"], ["X", "X"]] * 2)
    return st, data, bases


def snapshot(st):
    return {net: {k: v.detach().clone() for k, v in getattr(st, net).state_dict().items()} for net in st.networks}


class Recorder(qc.qucumber.callbacks.CallbackBase):
    """independent ground truth: every event with a fresh world token, the parameter snapshot at that moment"""

    def __init__(self):
        self.events = []   # dicts {k, e?, b?, w} of ALL runs
        self.worlds = []   # snapshot per world token
        self.cur = None

    def _ev(self, st, k, **kw):
        w = len(self.worlds)
        self.worlds.append(snapshot(st))
        self.cur = w
        self.events.append(dict(k=k, w=w, **kw))

    def on_train_start(self, st): self._ev(st, "ts")
    def on_train_end(self, st): self._ev(st, "te")
    def on_epoch_start(self, st, ep): self._ev(st, "es", e=ep)
    def on_epoch_end(self, st, ep): self._ev(st, "ee", e=ep)
    def on_batch_start(self, st, ep, b): self._ev(st, "bs", e=ep, b=b)
    def on_batch_end(self, st, ep, b): self._ev(st, "be", e=ep, b=b)


class StopAt(qc.qucumber.callbacks.CallbackBase):
    """sets stop_training at one chosen event of the run"""

    def __init__(self, spec):
        self.spec = spec

    def _hit(self, st, k, e=None, b=None):
        s = self.spec
        if s and s["k"] == k and s.get("e") == e and s.get("b") == b:
            st.stop_training = True

    def on_train_start(self, st): self._hit(st, "ts")
    def on_epoch_start(self, st, ep): self._hit(st, "es", ep)
    def on_epoch_end(self, st, ep): self._hit(st, "ee", ep)
    def on_batch_start(self, st, ep, b): self._hit(st, "bs", ep, b)
    def on_batch_end(self, st, ep, b): self._hit(st, "be", ep, b)


# ---------------------------------------------------------------- building the real callbacks
class Built:
    pass


def build_callbacks(case, rec, tmp):
    from qucumber.callbacks import Logger, MetricEvaluator, ModelSaver, ObservableEvaluator
    from qucumber.observables import SigmaX, SigmaZ

    built = []
    for ci, cb in enumerate(case["cbs"]):
        b = Built()
        b.spec = cb
        b.calls = []      # values returned by the scripted functions, in call order
        if cb["type"] == "metric":
            def mk(idx, b=b, cb=cb):
                def fn(nn_state, **kw):
                    v = metric_value(idx, rec.cur, kw.get("offset", 0))
                    b.calls.append(v)
                    return v
                return fn
            metrics = {name: mk(i) for i, name in enumerate(cb["names"])}
            b.logpath = os.path.join(tmp, f"log{ci}.csv") if cb["log"] else None
            b.obj = MetricEvaluator(cb["period"], metrics, log=b.logpath, offset=cb["offset"])
        elif cb["type"] == "observable":
            cls = {"SigmaZ": SigmaZ, "SigmaX": SigmaX}
            b.logpath = os.path.join(tmp, f"log{ci}.csv") if cb["log"] else None
            b.obj = ObservableEvaluator(cb["period"], [cls[o]() for o in cb["obs"]], log=b.logpath,
                                        num_samples=6, burn_in=2, steps=1)
            b.captured = {}   # world -> the dict returned by system.statistics
            orig = b.obj.system.statistics

            def wrapped(nn_state, *a, _orig=orig, _b=b, **k):
                r = _orig(nn_state, *a, **k)
                _b.captured[rec.cur] = r
                _b.calls.append(rec.cur)
                return r
            b.obj.system.statistics = wrapped
        elif cb["type"] == "saver":
            b.folder = os.path.join(tmp, f"saver{ci}")
            md = None
            if cb["metadata"] == "callable":
                def md(nn_state, epoch, _b=b):
                    return {"epoch": epoch, "w": rec.cur, "wsum": float(nn_state.rbm_am.state_dict()[_first_key(nn_state)].sum())}
            elif cb["metadata"] == "dict":
                md = {"tag": "fixed", "n": 3}
                if cb.get("reserved"):
                    md["rbm_am"] = 1
            b.md = md
            b.obj = ModelSaver(cb["period"], b.folder, cb["pre"] + "{}" + cb["post"], save_initial=cb["save_initial"],
                               metadata=md, metadata_only=cb["metadata_only"])
        elif cb["type"] == "logger":
            b.out = []
            if cb.get("default_msg"):
                b.obj = Logger(cb["period"], logger_fn=b.out.append, tag="x")
            else:
                b.obj = Logger(cb["period"], logger_fn=b.out.append,
                               msg_gen=lambda st, e, **kw: [rec.cur, e, kw["tag"]], tag="x")
        built.append(b)
    return built


def _first_key(nn_state):
    return next(iter(nn_state.rbm_am.state_dict().keys()))


# ---------------------------------------------------------------- observing the real callbacks
def pyerr(f):
    try:
        return {"ok": f()}
    except Exception as e:  # noqa: BLE001
        return {"error": type(e).__name__}


def read_csv(path):
    with open(path, newline="") as f:
        return [row for row in csv.reader(f)]


def observe_eval(b, tok):
    """everything the evaluator exposes, canonicalised with `tok` (value -> token)"""
    ev = b.obj
    names = list(ev.names)
    q = names + EXTRA_NAMES
    n = len(ev)
    obs = {
        "len": n,
        "epochs": [int(x) for x in ev.epochs],
        "names": names,
        "last": [[k, tok(v)] for k, v in ev.last.items()],
    }
    if b.spec["type"] == "metric":
        obs["series"] = [[nm, pyerr(lambda nm=nm: [tok(x) for x in ev[nm]])] for nm in q]
    else:
        obs["series"] = [[nm, pyerr(lambda nm=nm: [tok(x) for x in ev[nm].data])] for nm in q]
        obs["stat_series"] = [[nm, [[sq, pyerr(lambda nm=nm, sq=sq: [tok(x) for x in ev[nm][sq]])] for sq in STAT_QUERIES]] for nm in q]
    obs["get_value"] = [[nm, [[i, pyerr(lambda nm=nm, i=i: tok(ev.get_value(nm, i)))] for i in range(-n - 2, n + 2)]] for nm in q]
    obs["get_value_default"] = [[nm, pyerr(lambda nm=nm: tok(ev.get_value(nm)))] for nm in q]
    obs["log"] = read_csv(b.logpath) if b.logpath else []
    return obs


def model_eval_view(m, b, cellstr):
    """the model's snapshot brought to the same shape (CSV cells rendered as the strings csv would write)"""
    out = {k: m[k] for k in ("len", "epochs", "names", "last", "series", "get_value", "get_value_default")}
    if b.spec["type"] == "observable":
        out["stat_series"] = m["stat_series"]
    out["log"] = [[cellstr(c) for c in row] for row in m["log"]]
    return out


# ---------------------------------------------------------------- one case
def run_case(ctx, case):
    tmp = tempfile.mkdtemp(prefix="qv_c17_")
    try:
        _run_case(ctx, case, tmp)
    finally:
        shutil.rmtree(tmp, ignore_errors=True)


def _run_case(ctx, case, tmp):
    st, data, bases = make_state(case["kind"], case["seed"])
    rec = Recorder()
    built = build_callbacks(case, rec, tmp)
    periods = [cb["period"] for cb in case["cbs"]]
    sig0 = f"C17/{case['kind']}"

    # tokens for observable statistics values: the IEEE bit pattern of the value
    def obs_token(x):
        return f2b(float(x))

    def observe_one(b):
        t = b.spec["type"]
        if t == "metric":
            return observe_eval(b, lambda v: int(v) if not isinstance(v, dict) else v)
        if t == "observable":
            def tokd(v):
                if isinstance(v, dict):
                    return [[k, obs_token(x)] for k, x in v.items()]
                return obs_token(v)
            return observe_eval(b, tokd)
        if t == "saver":
            return {"files": sorted(os.listdir(b.folder))}
        return {"out": list(b.out)}

    after_clear = []     # per segment: observation of the cleared evaluators right after clear_history
    seg_results = []     # per segment: None (ok) or exception kind
    impl_snaps = []      # per segment: list of observations per callback
    seg_events = []      # per segment: recorder events of that segment
    nontrivial = False
    for seg in case["segments"]:
        n0 = len(rec.events)
        st.stop_training = False
        stopper = StopAt(seg.get("stop"))
        cbl = [rec] + [b.obj for b in built] + [stopper]
        kw = dict(epochs=seg["epochs"], starting_epoch=seg["start"], pos_batch_size=4, k=1, lr=0.05, callbacks=cbl)
        if bases is not None:
            kw["input_bases"] = bases
        err = None
        try:
            st.fit(data, **kw)
        except Exception as e:  # noqa: BLE001
            err = type(e).__name__
        seg_results.append(err)
        seg_events.append(rec.events[n0:])
        if err is not None:
            impl_snaps.append(None)
            break
        snaps = [observe_one(b) for b in built]
        impl_snaps.append(snaps)
        for ci in seg.get("clear", []):
            built[ci].obj.clear_history()
        after_clear.append([observe_one(b) if ci in seg.get("clear", []) else None for ci, b in enumerate(built)])

    # ---- distribution bookkeeping
    ee_all = [ev["e"] for evs in seg_events for ev in evs if ev["k"] == "ee"]
    for p in periods:
        if p >= 1 and any(e % p == 0 for e in ee_all) and any(e % p != 0 for e in ee_all):
            nontrivial = True
    ctx.case(case, nontrivial=nontrivial,
             sample={"kind": case["kind"], "periods": periods, "segments": case["segments"], "epoch_ends": ee_all})
    ctx.count(f"kind={case['kind']}")
    for cb in case["cbs"]:
        ctx.count(f"{cb['type']}.period={cb['period']}")
        if cb["type"] == "saver":
            ctx.count(f"saver.metadata={cb['metadata']}{'/only' if cb['metadata_only'] else ''}")
    for seg, err in zip(case["segments"], seg_results):
        ctx.count("segment.stop=" + (seg["stop"]["k"] if seg.get("stop") else "none"))
        ctx.count("segment.error=" + str(err))
        if seg.get("clear"):
            ctx.count("segment.clear")
    ctx.count("segments_per_case=%d" % len(case["segments"]))

    # ---- the model on the same event stream
    if ctx.driver is not None:
        mcbs = []
        nworlds = len(rec.worlds)
        for b in built:
            cb = b.spec
            if cb["type"] == "metric":
                mcbs.append({"kind": "metric", "period": cb["period"], "log": cb["log"],
                             "vals": [[nm, [metric_value(i, w, cb["offset"]) for w in range(nworlds)]] for i, nm in enumerate(cb["names"])]})
            elif cb["type"] == "observable":
                stats = []
                for w in range(nworlds):
                    r = b.captured.get(w)
                    stats.append([] if r is None else [[o, [[s, obs_token(x)] for s, x in d.items()]] for o, d in r.items()])
                mcbs.append({"kind": "observable", "period": cb["period"], "log": cb["log"], "obs": cb["obs"], "stats": stats})
            elif cb["type"] == "saver":
                mcbs.append({"kind": "saver", "period": cb["period"], "pre": cb["pre"], "post": cb["post"],
                             "save_initial": cb["save_initial"], "metadata": cb["metadata"],
                             "metadata_only": cb["metadata_only"], "reserved": bool(cb.get("reserved"))})
            else:
                mcbs.append({"kind": "logger", "period": cb["period"]})
        msegs = [{"events": evs, "clear": seg.get("clear", [])} for evs, seg in zip(seg_events, case["segments"])]
        model = ctx.driver.call("c17.run", callbacks=mcbs, segments=msegs, extra_names=EXTRA_NAMES, stat_queries=STAT_QUERIES)["segments"]
        for si, (err, snaps) in enumerate(zip(seg_results, impl_snaps)):
            c = {**case, "at_segment": si}
            mseg = model[si] if si < len(model) else {"error": "model produced no segment"}
            ctx.point("exception", "property", err, mseg.get("error"), c, exact=True, sig=f"{sig0}/exception",
                      theorem="C17_* (the hypotheses p>=1, no metric named 'epoch' with a log, no reserved metadata key exclude every error)")
            if err is not None or "error" in mseg:
                break
            for ci, (b, isnap, msnap) in enumerate(zip(built, snaps, mseg["after"])):
                t = b.spec["type"]
                cc = {**c, "callback": ci}
                if t in ("metric", "observable"):
                    if t == "metric":
                        cellstr = lambda cell: cell["t"] if "t" in cell else str(cell["i"]) if "i" in cell else str(cell["v"]) if "v" in cell else ""  # noqa: E731
                    else:
                        cellstr = lambda cell: cell["t"] if "t" in cell else str(cell["i"]) if "i" in cell else repr(b2f(cell["v"])) if "v" in cell else ""  # noqa: E731
                    mv = model_eval_view(msnap, b, cellstr)
                    th = "C17_records_metric_run" if t == "metric" else "C17_records_observable_run"
                    ctx.point(f"{t}.epochs", "property", isnap["epochs"], mv["epochs"], cc, exact=True, sig=f"{sig0}/{t}/schedule", theorem=f"C17_schedule_{t}")
                    ctx.point(f"{t}.len", "property", isnap["len"], mv["len"], cc, exact=True, sig=f"{sig0}/{t}/len", theorem="C17_records_len_epochs")
                    ctx.point(f"{t}.names", "property", isnap["names"], mv["names"], cc, exact=True, sig=f"{sig0}/{t}/names", theorem="names = keys (model by construction)")
                    ctx.point(f"{t}.last", "property", isnap["last"], mv["last"], cc, exact=True, sig=f"{sig0}/{t}/last", theorem=th)
                    ctx.point(f"{t}.series", "property", isnap["series"], mv["series"], cc, exact=True, sig=f"{sig0}/{t}/series", theorem="C17_records_getitem, C17_records_getitem_missing")
                    ctx.point(f"{t}.get_value", "property", isnap["get_value"], mv["get_value"], cc, exact=True, sig=f"{sig0}/{t}/get_value", theorem="C17_records_get_value, C17_records_get_value_out_of_range")
                    ctx.point(f"{t}.get_value_default", "property", isnap["get_value_default"], mv["get_value_default"], cc, exact=True, sig=f"{sig0}/{t}/get_value_default", theorem="C17_records_get_value_default")
                    ctx.point(f"{t}.log", "property", isnap["log"], mv["log"], cc, exact=True, sig=f"{sig0}/{t}/csv", theorem=th + (", C17_records_observable_csv_row" if t == "observable" else ""))
                    if t == "observable":
                        ctx.point("observable.stat_series", "property", isnap["stat_series"], mv["stat_series"], cc, exact=True, sig=f"{sig0}/observable/statistics", theorem="C17_records_observable_statistics")
                elif t == "saver":
                    names = sorted({wr["name"] for wr in msnap["writes"]})
                    ctx.point("saver.files", "property", isnap["files"], names, cc, exact=True, sig=f"{sig0}/saver/files", theorem="C17_saver")
                else:
                    if b.spec.get("default_msg"):
                        mo = ["Epoch " + str(e) + ": " + str({"tag": "x"}) for (_, e) in msnap["out"]]
                    else:
                        mo = [[w, e, "x"] for (w, e) in msnap["out"]]
                    ctx.point("logger.out", "property", isnap["out"], mo, cc, exact=True, sig=f"{sig0}/logger/schedule", theorem="C17_schedule_logger")
            for ci, b in enumerate(built):
                isnap = after_clear[si][ci] if si < len(after_clear) else None
                if isnap is None:
                    continue
                msnap = mseg["after_clear"][ci]
                t = b.spec["type"]
                mv = model_eval_view(msnap, b, lambda cell: "")
                for key in ("len", "epochs", "last", "series", "get_value", "get_value_default"):
                    ctx.point(f"{t}.after_clear.{key}", "property", isnap[key], mv[key], {**c, "callback": ci}, exact=True,
                              sig=f"{sig0}/{t}/clear_history", theorem="C17_records_clear_history")
                ctx.point(f"{t}.after_clear.log_rows", "property", len(isnap["log"]), len(mv["log"]), {**c, "callback": ci}, exact=True,
                          sig=f"{sig0}/{t}/clear_history", theorem="C17_records_clear_history")
        # scripted functions were called exactly at the recorded evaluations (no evaluation at any other time),
        # and saved files hold what the model says was written last under each name
        if all(e is None for e in seg_results) and model and "after" in model[-1]:
            final = model[-1]["after"]
            for ci, (b, msnap) in enumerate(zip(built, final)):
                t = b.spec["type"]
                cc = {**case, "callback": ci}
                if t == "saver":
                    check_files(ctx, case, cc, b, st, rec, msnap["writes"], sig0)

    # ---- oracles directly on the implementation
    oracle_checks(ctx, case, built, rec, seg_events, seg_results, impl_snaps, st, sig0)


def md_expected(b, rec, mdtok):
    if mdtok[0] == "call":
        w, e = mdtok[1], mdtok[2]
        snap = rec.worlds[w]["rbm_am"]
        k0 = next(iter(snap.keys()))
        return {"epoch": e, "w": w, "wsum": float(snap[k0].sum())}
    if mdtok[0] == "dict":
        return dict(b.md)
    return {}


def files_equal_snapshot(loaded, snap, nets):
    for net in nets:
        if net not in loaded:
            return False
        sd = loaded[net]
        if set(sd.keys()) != set(snap[net].keys()):
            return False
        for k in sd:
            if not torch.equal(sd[k], snap[net][k]):
                return False
    return True


def check_files(ctx, case, cc, b, st, rec, writes, sig0):
    lastw = {}
    for wr in writes:
        lastw[wr["name"]] = wr
    for name, wr in sorted(lastw.items()):
        path = os.path.join(b.folder, name)
        if not os.path.exists(path):
            ctx.point("saver.file_exists", "property", False, True, {**cc, "file": name}, exact=True, sig=f"{sig0}/saver/files", theorem="C17_saver")
            continue
        loaded = torch.load(path, weights_only=False)
        md = md_expected(b, rec, wr["md"])
        if wr["body"] == "meta":
            ok = loaded == md
            detail = {"loaded": repr(loaded)[:300], "expected": repr(md)[:300]}
        else:
            extra = {k: v for k, v in loaded.items() if k not in st.networks and k != "unitary_dict"}
            ok_params = files_equal_snapshot(loaded, rec.worlds[wr["w"]], st.networks)
            ok_ud = ("unitary_dict" in loaded) == hasattr(st, "unitary_dict")
            ok = ok_params and extra == md and ok_ud
            detail = {"params_equal_snapshot_at_world": ok_params, "metadata": repr(extra)[:300], "expected": repr(md)[:300],
                      "world": wr["w"], "arg": wr["arg"]}
        ctx.point("saver.file_content", "property", bool(ok), True, {**cc, "file": name, "detail": detail}, exact=True,
                  sig=f"{sig0}/saver/content", theorem="C17_saver, C17_saver_file, C17_saver_initial_file")


def oracle_checks(ctx, case, built, rec, seg_events, seg_results, impl_snaps, st, sig0):
    """independent re-statement of the property on the implementation only"""
    if any(e is not None for e in seg_results):
        # error cases: the documented reason must be present
        err = next(e for e in seg_results if e is not None)
        reasons = []
        for cb in case["cbs"]:
            if cb["period"] == 0:
                reasons.append("ZeroDivisionError")
            if cb["type"] == "metric" and cb["log"] and "epoch" in cb["names"]:
                reasons.append("TypeError")
            if cb["type"] == "saver" and cb.get("reserved") and not cb["metadata_only"]:
                reasons.append("ValueError")
        ctx.oracle("exception has a documented cause", err in reasons, case, detail={"raised": err, "expected_one_of": reasons},
                   sig=f"{sig0}/unexpected-exception")
        return
    for ci, b in enumerate(built):
        cb = b.spec
        p = cb["period"]
        cc = {**case, "callback": ci}
        t = cb["type"]
        # ground truth: epoch-ends per segment, evaluations kept since the last clear_history of this callback
        kept, allev = [], []
        for si, (evs, seg) in enumerate(zip(seg_events, case["segments"])):
            sched = [(ev["e"], ev["w"]) for ev in evs if ev["k"] == "ee" and ev["e"] % p == 0]
            kept += sched
            allev += sched
            snap = impl_snaps[si][ci]
            if t in ("metric", "observable"):
                ok = snap["epochs"] == [e for e, _ in kept] and snap["len"] == len(kept)
                ctx.oracle(f"{t}: epochs == multiples of p among fired epoch-ends", ok, {**cc, "at_segment": si},
                           detail={"epochs": snap["epochs"], "expected": [e for e, _ in kept]}, sig=f"{sig0}/{t}/schedule-oracle", theorem=f"C17_schedule_{t}")
                # indexed lookup agrees with the series, out of range raises
                n = len(kept)
                ser = dict((k, v) for k, v in snap["series"])
                okgv = True
                for nm, tab in snap["get_value"]:
                    if nm in EXTRA_NAMES:
                        continue
                    col = ser[nm].get("ok")
                    if col is None or len(col) != n:
                        okgv = False
                        continue
                    for i, r in tab:
                        if -n <= i < n:
                            okgv &= r == {"ok": col[i]}
                        else:
                            okgv &= r == {"error": "IndexError"}
                ctx.oracle(f"{t}: get_value(name, i) == series[i] (python indexing), IndexError outside", okgv, {**cc, "at_segment": si},
                           sig=f"{sig0}/{t}/get_value-oracle", theorem="C17_records_get_value")
                try:
                    lastok = (snap["last"] == [[nm, ser[nm]["ok"][-1]] for nm in snap["names"]]) if n else snap["last"] == []
                except (KeyError, IndexError):
                    lastok = False
                ctx.oracle(f"{t}: last == last record", lastok, {**cc, "at_segment": si}, detail={"last": snap["last"]},
                           sig=f"{sig0}/{t}/last-oracle", theorem="C17_records_*_run")
                if t == "metric":
                    exp = [[nm, {"ok": [metric_value(i, w, cb["offset"]) for _, w in kept]}] for i, nm in enumerate(cb["names"])]
                    got = [x for x in snap["series"] if x[0] not in EXTRA_NAMES]
                    ctx.oracle("metric: per-name arrays == values computed at those epochs", got == exp, {**cc, "at_segment": si},
                               detail={"got": got, "expected": exp}, sig=f"{sig0}/metric/series-oracle", theorem="C17_records_getitem")
                    if cb["log"]:
                        rows = [["epoch"] + cb["names"]] + [[str(e)] + [str(metric_value(i, w, cb["offset"])) for i in range(len(cb["names"]))] for e, w in allev]
                        ctx.oracle("metric: CSV == header + one row per evaluation", snap["log"] == rows, {**cc, "at_segment": si},
                                   detail={"got": snap["log"], "expected": rows}, sig=f"{sig0}/metric/csv-oracle", theorem="C17_records_metric_run")
                else:
                    names = snap["names"]
                    if cb["log"]:
                        hdr = ["epoch"] + [f"{o}_{s}" for o in names for s in ("mean", "variance", "std_error")]
                        rows = [hdr] + [[str(e)] + [str(b.captured[w][o][s]) for o in names for s in ("mean", "variance", "std_error")]
                                        for e, w in allev if w in b.captured]
                        ctx.oracle("observable: CSV == header + mean/variance/std_error per evaluation", snap["log"] == rows, {**cc, "at_segment": si},
                                   detail={"got": snap["log"][:4], "expected": rows[:4]}, sig=f"{sig0}/observable/csv-oracle", theorem="C17_records_observable_csv_row")
            elif t == "logger":
                if cb.get("default_msg"):
                    exp = ["Epoch " + str(e) + ": " + str({"tag": "x"}) for e, _ in allev]
                else:
                    exp = [[w, e, "x"] for e, w in allev]
                ctx.oracle("logger: one message per multiple of p", snap["out"] == exp, {**cc, "at_segment": si},
                           detail={"got": snap["out"], "expected": exp}, sig=f"{sig0}/logger/schedule-oracle", theorem="C17_schedule_logger")
            if seg.get("clear") and ci in seg["clear"]:
                kept = []
        if t == "metric":
            exp_calls = [metric_value(i, w, cb["offset"]) for _, w in allev for i in range(len(cb["names"]))]
            ctx.oracle("metric functions called exactly at the scheduled epoch-ends, in order", b.calls == exp_calls, cc,
                       detail={"calls": b.calls, "expected": exp_calls}, sig=f"{sig0}/metric/calls-oracle", theorem="C17_schedule_metric")
        elif t == "observable":
            ctx.oracle("system.statistics called exactly at the scheduled epoch-ends, in order", b.calls == [w for _, w in allev], cc,
                       detail={"calls": b.calls, "expected": [w for _, w in allev]}, sig=f"{sig0}/observable/calls-oracle", theorem="C17_schedule_observable")
        elif t == "saver":
            # expected files from ground truth alone
            exp = {}
            for evs in seg_events:
                for ev in evs:
                    if ev["k"] == "ts" and cb["save_initial"]:
                        exp[cb["pre"] + "initial" + cb["post"]] = (ev["w"], 0)
                    if ev["k"] == "ee" and ev["e"] % p == 0:
                        exp[cb["pre"] + str(ev["e"]) + cb["post"]] = (ev["w"], ev["e"])
            files = sorted(os.listdir(b.folder))
            ok = files == sorted(exp)
            bad = None
            if ok:
                for name, (w, e) in exp.items():
                    loaded = torch.load(os.path.join(b.folder, name), weights_only=False)
                    if cb["metadata"] == "callable":
                        md = md_expected(b, rec, ["call", w, e])
                    elif cb["metadata"] == "dict":
                        md = dict(b.md)
                    else:
                        md = {}
                    if cb["metadata_only"]:
                        good = loaded == md
                    else:
                        extra = {k: v for k, v in loaded.items() if k not in st.networks and k != "unitary_dict"}
                        good = files_equal_snapshot(loaded, rec.worlds[w], st.networks) and extra == md
                    if not good:
                        ok, bad = False, name
                        break
            ctx.oracle("saver: files named by epoch (+initial), each loads back to the parameters at that event with the metadata", ok, cc,
                       detail={"files": files, "expected": sorted(exp), "bad_file": bad}, sig=f"{sig0}/saver/oracle", theorem="C17_saver, C17_saver_file")


# ---------------------------------------------------------------- generation
def gen_case(rng, kind, p1, thorough, idx):
    """one structured case around period p1 for the first metric evaluator"""
    others = [p for p in (1, 2, 3, 4) if p != p1]
    p2 = rng.choice(others)
    cbs = [
        {"type": "metric", "period": p1, "names": ["nll", "kl"][: rng.choice([1, 2])], "log": True, "offset": rng.randrange(0, 5)},
        {"type": "metric", "period": p2, "names": ["fid"], "log": rng.random() < 0.5, "offset": rng.randrange(0, 5)},
        {"type": "observable", "period": rng.choice([1, 2, 3, 4]), "obs": rng.choice([["SigmaZ"], ["SigmaZ", "SigmaX"], ["SigmaX", "SigmaZ", "SigmaX"]]),
         "log": rng.random() < 0.7},
        {"type": "saver", "period": rng.choice([1, 2, 3, 4]), "pre": rng.choice(["m_", "ep"]), "post": rng.choice([".pt", ""]),
         "save_initial": rng.random() < 0.6, "metadata": rng.choice(["callable", "dict", "none"]), "metadata_only": rng.random() < 0.3},
        {"type": "logger", "period": rng.choice([1, 2, 3, 4]), "default_msg": rng.random() < 0.3},
    ]
    rng.shuffle(cbs)
    nseg = rng.choice([1, 2, 2, 3]) if thorough else rng.choice([1, 2, 2])
    segs = []
    start = rng.choice([0, 1, 1, 2, -1]) if idx % 3 == 0 else 1
    for s in range(nseg):
        length = rng.choice([0, 3, 4, 5, 6, 8])
        epochs = start + length - 1
        stop = None
        if length >= 2 and rng.random() < 0.5:
            e = rng.randrange(start, epochs + 1)
            k = rng.choice(["ee", "be", "bs", "es"])
            stop = {"k": k, "e": e}
            if k in ("be", "bs"):
                stop["b"] = rng.choice([0, 1])
        elif rng.random() < 0.1:
            stop = {"k": "ts"}
        clear = [i for i, cb in enumerate(cbs) if cb["type"] in ("metric", "observable") and rng.random() < 0.3]
        segs.append({"start": start, "epochs": epochs, "stop": stop, "clear": clear})
        start = rng.choice([1, epochs + 1, max(start, 1), 3])
    return {"kind": kind, "seed": rng.randrange(1000), "cbs": cbs, "segments": segs}


def malformed_cases(rng):
    base_seg = [{"start": 1, "epochs": 3, "stop": None, "clear": []}]
    yield {"kind": "pos", "seed": 1, "cbs": [{"type": "metric", "period": 0, "names": ["a"], "log": False, "offset": 0}], "segments": base_seg}
    yield {"kind": "pos", "seed": 1, "cbs": [{"type": "logger", "period": 0}], "segments": base_seg}
    yield {"kind": "pos", "seed": 1, "cbs": [{"type": "metric", "period": 1, "names": ["a", "epoch"], "log": True, "offset": 0}], "segments": base_seg}
    yield {"kind": "cplx", "seed": 1, "cbs": [{"type": "saver", "period": 2, "pre": "x", "post": "", "save_initial": False,
                                               "metadata": "dict", "reserved": True, "metadata_only": False}], "segments": base_seg}
    # the same reserved key is fine when only the metadata is stored
    yield {"kind": "cplx", "seed": 1, "cbs": [{"type": "saver", "period": 2, "pre": "x", "post": "", "save_initial": True,
                                               "metadata": "dict", "reserved": True, "metadata_only": True}], "segments": base_seg}
    # metric called "epoch" without a log file is harmless
    yield {"kind": "pos", "seed": 1, "cbs": [{"type": "metric", "period": 1, "names": ["a", "epoch"], "log": False, "offset": 0}], "segments": base_seg}


def gen_cases(ctx, thorough):
    rng = ctx.rng
    kinds = ["pos", "cplx", "dens"]
    reps = 12 if thorough else 2
    idx = 0
    for rep in range(reps):
        for p1 in (1, 2, 3, 4):
            for kind in kinds:
                yield gen_case(rng, kind, p1, thorough, idx)
                idx += 1
    yield from malformed_cases(rng)


def run(ctx):
    ctx.rule = RULE
    if ctx.driver is not None:
        words = ["means", "mean", "s", "", "std_errors", "num_samples", "variancess", "S"]
        got = ctx.driver.call("c17.strip", names=words)
        ctx.point("stripPlural", "aux", [w[:-1] if w.endswith("s") else w for w in words], got, {"words": words}, exact=True, sig="C17/stripPlural")
    for case in gen_cases(ctx, ctx.tier == "thorough"):
        run_case(ctx, case)


def search(ctx):
    drv, ctx.driver = ctx.driver, None
    try:
        for case in gen_cases(ctx, True):
            run_case(ctx, case)
    finally:
        ctx.driver = drv


def replay(ctx, case):
    case = {k: v for k, v in case.items() if k not in ("at_segment", "callback", "file", "detail")}
    run_case(ctx, case)
