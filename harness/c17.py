"""C17 — periodic callbacks: real `fit` runs with MetricEvaluator / ObservableEvaluator / ModelSaver / Logger,
an independent recorder callback as ground truth, exact comparison with the executable model
(QV.Model.Callbacks via op `c17.run`) plus oracles that re-state the property directly on the implementation."""
import contextlib
import csv
import io
import operator
import os
import random
import shutil
import tempfile

import numpy as np

from . import qc
from .common import b2f, f2b
from .qc import torch

FILES = [
    "qucumber/callbacks/metric_evaluator.py",
    "qucumber/callbacks/observable_evaluator.py",
    "qucumber/callbacks/model_saver.py",
    "qucumber/callbacks/logger.py",
    "qucumber/callbacks/callback.py",
    "qucumber/nn_states/neural_state.py",
]
REQUIRED_THEOREMS = ["C17_records_getattr", "C17_records_statistics_getattr", "C17_schedule_metric", "C17_schedule_observable", "C17_schedule_logger", "C17_schedule_saver", "C17_saver",
                     "C17_saver_file", "C17_records_metric_run", "C17_records_observable_run",
                     "C17_records_get_value", "C17_records_get_value_out_of_range", "C17_independent",
                     "C17_fit_stream", "C17_fit_schedule", "C17_fit_callbacks", "C17_fit_stopped_beforehand",
                     "C17_saver_file_last", "C17_saver_file_overwrite", "C17_saver_file_none", "C17_logger_default_msg", "C17_logger_msg_gen_fallback", "C17_logger_fn_branches",
                     # extension round 2: verbose branches (order of effects), names / CSV columns
                     "C17_verbose_irrelevant_when_formattable", "C17_verbose_run_irrelevant_when_formattable", "C17_verbose_identity_test",
                     "C17_verbose_unformattable_partial", "C17_verbose_irrelevant_when_formattable_observable",
                     "C17_verbose_unformattable_partial_observable", "C17_columns_of_names"]
EXTRA_TRUSTED = [
    "C17: the event stream fed to the model is the one recorded by a user callback in the same real run; that a real fit(starting_epoch, epochs) "
    "produces train-start, then the epoch-ends of starting_epoch..last (last = epochs, or the epoch of the first stop request) is "
    "C17_fit_stream / C17_fit_schedule = the C17 theorems composed with the C12 model of fit (tied to the code by the C12 check and by the "
    "fit-stream oracle here)",
    "C17: file_name has the form pre+'{}'+post; obs_name+'_'+stat_name is injective on the pairs that occur; "
    "torch.save/torch.load round-trip (C11); verbose printing is not modelled; a log file that already exists is the theorems' arbitrary list of old rows "
    "(executed by the appended-log cases, oracle on the implementation only)",
    "C17: every scripted value (metric values, System.statistics results, messages, metadata, parameter snapshots) is a function of the world token the "
    "harness Recorder - placed FIRST in the callback list - sets for the event being dispatched; that callbacks are dispatched in list order is C12's "
    "property, not re-checked here",
]
RULE = ("case = (state kind, seed, callback list [two metric evaluators with different periods, observable evaluator, "
        "model saver, logger; periods 1..7, log on/off, verbose on/off, metadata callable/dict/none, metadata_only, save_initial True/False/default], "
        "metric / observable / statistic NAMES from plain names, the evaluators' own attribute / property / method / dunder names, plural-looking and "
        "odd strings, duplicated observable names, file names with spaces and braces; "
        "segments [(starting_epoch, epochs, optional stop injected by a user callback at a chosen event, optionally started with the previous "
        "run's stop request still set, clear_history on chosen evaluators afterwards)]); every segment is one real fit(); scripted metric / message / "
        "metadata functions return values that depend on the LIVE parameters of the state they are handed; "
        "non-trivial iff at least one scheduled and one unscheduled epoch-end fired for some callback; distinct by hash of the case; "
        "ARGUMENT FORMS (seeds `fseed` / `iseed` of the case): every integer option of every public call (period of all four callbacks, num_samples / "
        "num_chains / burn_in / steps, get_value's index, fit's epochs / pos_batch_size / neg_batch_size / k / starting_epoch) is handed over as a Python int, "
        "numpy integer scalar, 0-d numpy array or 0-d torch tensor, every boolean option (verbose, save_initial, metadata_only, time, progbar) as the bool "
        "singleton, int, numpy bool, 0-d array or 0-d tensor, by keyword and positionally (constructors, get_value, fit); the model is told the VALUES; "
        "NOT COMPARED, only counted (outside the property text / quantifier): period < 1, a metric called 'epoch' with a log file, a reserved metadata key "
        "(refused or not, when, with which exception), exception TYPES of lookups (untracked name, index outside -n..n-1, unknown statistic: only "
        "raises-or-not; an untracked name on an EMPTY history: nothing), the TEXT of the default Logger message (property level = how many messages and "
        "during which epoch-end events), the on-disk layout of saved files (verdict = a fresh state `load`s the file through the library and has the "
        "recorder's parameters of that epoch; every requested metadata entry is stored under its key); "
        "APPENDED LOGS: four fixed cases with a log file that already exists (pre-filled by hand, a second evaluator given the path of an earlier one): "
        "the rows after the evaluator's own header == one row per evaluation")

STAT_QUERIES = ["mean", "means", "variance", "variances", "std_error", "std_errors", "num_samples", "num_sample", "foo", "s",
                "", "ss", "data", "datas", "bias", "bia", "biass", "meanss", "__class__", "__dict__", "__getitem__"]
EXTRA_NAMES = ["not_tracked", "period", "epochs"]

# ---------------------------------------------------------------- name spaces (round-2 dimension: adversarial names)
# What NORMAL attribute lookup resolves on the evaluator objects (instance attributes set by __init__, properties and methods
# of the class and of CallbackBase, the usual dunders). Python calls `__getattr__` only when normal lookup fails, so
# `ev.<name>` for one of these names is the attribute, while `ev[name]` (a direct call of `__getattr__`) must be the
# recorded values of a metric / observable of that name.
_DUNDERS = ["__len__", "__getattr__", "__getitem__", "__init__", "__dict__", "__module__", "__weakref__", "__doc__"]
_CB_METHODS = ["on_train_start", "on_train_end", "on_epoch_start", "on_epoch_end", "on_batch_start", "on_batch_end"]
OWN = {
    "metric": ["period", "metrics", "metric_kwargs", "past_values", "last", "verbose", "log", "csv_fields",
               "epochs", "names", "clear_history", "get_value"] + _CB_METHODS + _DUNDERS,
    "observable": ["period", "past_values", "system", "sampling_kwargs", "last", "verbose", "log", "csv_fields",
                   "epochs", "names", "clear_history", "get_value"] + _CB_METHODS + _DUNDERS,
    "stats": ["data", "__getattr__", "__getitem__", "__init__", "__dict__", "__module__", "__weakref__", "__doc__"],
}
OBJECT_NAMES = sorted(dir(object))
# own names whose VALUE is not compared (only membership in this table is used, to build the pool of colliding names)
OWN_TYPE = {"metrics": "dict", "metric_kwargs": "dict", "past_values": "list", "system": "System", "sampling_kwargs": "dict",
            "clear_history": "method", "get_value": "method", "__len__": "method", "__getattr__": "method", "__getitem__": "method",
            "__init__": "method", "__dict__": "dict", "__module__": "str", "__weakref__": "NoneType", "__doc__": "str",
            "__class__": "type", **{m: "method" for m in _CB_METHODS}}
PLAIN_NAMES = ["nll", "kl", "fid", "KL", "a"]
ODD_NAMES = ["", " ", "a b", "{}", "{0}", "{x!r}", "s", "means", "epoch ", "a,b", 'q"t', "\u00b5", "x\ny", "mean", "variance", "data"]


_LIVE_OWN = {}


def own_names(kind):
    """the names Python's NORMAL attribute lookup resolves on an evaluator / ObservableStatistics object (instance attributes, class
    attributes, properties, methods, dunders) — so `__getattr__` is never consulted for them. This set is part of the ENVIRONMENT of the
    property (it says nothing about which private helpers or attributes the classes have): it is READ from the implementation under test and
    handed to the model as an input (`own_metric` / `own_observable` / `own_stats` of op c17.run; `C17_records_getattr` is stated for an
    arbitrary such set). `OWN` above is only the pool from which colliding metric / observable names are DRAWN."""
    if kind not in _LIVE_OWN:
        from qucumber.callbacks import MetricEvaluator, ObservableEvaluator
        from qucumber.callbacks.observable_evaluator import ObservableStatistics
        from qucumber.observables import SigmaZ
        obj = {"metric": lambda: MetricEvaluator(1, {"m": lambda st: 0.0}),
               "observable": lambda: ObservableEvaluator(1, [SigmaZ()], num_samples=2),
               "stats": lambda: ObservableStatistics([])}[kind]()
        _LIVE_OWN[kind] = sorted(set(vars(obj)) | set(dir(type(obj))))
    return _LIVE_OWN[kind]


def name_pool(kind):
    return [n for n in OWN[kind] + ["__class__"] if n in OWN_TYPE or n in ("period", "log", "verbose", "last", "epochs", "names", "csv_fields", "data")]


def draw_names(rng, kind, k, forbid=()):
    """k distinct names: plain ones, names of the evaluator's own attributes / methods / dunders, odd strings"""
    out = []
    while len(out) < k:
        u = rng.random()
        n = rng.choice(PLAIN_NAMES) if u < 0.35 else rng.choice(name_pool(kind)) if u < 0.75 else rng.choice(ODD_NAMES)
        if n not in out and n not in forbid:
            out.append(n)
    return out


def obs_entry(o):
    """an entry of cb['obs']: 'SigmaZ' (class name = observable name) or [class name, observable name]"""
    return (o, o) if isinstance(o, str) else (o[0], o[1])


def extra_stat_value(w, oi, ki):
    return float(1000 * w + 17 * oi + ki) + 0.25
EVKIND = {"on_train_start": "ts", "on_train_end": "te", "on_epoch_start": "es", "on_epoch_end": "ee",
          "on_batch_start": "bs", "on_batch_end": "be"}


# ---------------------------------------------------------------- argument forms (round 5: every option of every public call)
# What the CLEAN code accepts (probed on /repo with every form of qc.INT_FORMS / qc.FLAG_FORMS against the plain Python value under the same
# torch seed, notes/C17.md "Argument-form sweep"):
#   period (all four callbacks): every INT_FORM gives the schedule of the plain int; used: all but (1) the 0-d torch tensor (it works only because
#       torch overloads `%`: the harmless rewrite benign/C17_1 computes `divmod(epoch, period)`, a TypeError for a Tensor - a tensor-valued period
#       is not an input the property text covers) and (2) np.uint8 (`epoch % np.uint8(p)` is an OverflowError for a NEGATIVE epoch - NumPy 2
#       refuses to cast the Python int - and unsigned arithmetic wraps / raises inside NumPy: `-4 // np.uint8(2)`, `np.uint8(1) - np.uint8(3)`);
#       period 0 (malformed stream) stays a plain int (`e % np.int64(0)` is 0 with a RuntimeWarning, not a ZeroDivisionError).
#   np.uint8 in general: used only for pure loop counts (k, burn_in, steps); left out for everything that may enter a subtraction / negation /
#       ceiling division in a harmless rewrite (periods, epochs, starting_epoch, batch sizes, num_samples, num_chains, indices).
#   num_samples / num_chains: every form works except the 0-d torch tensor (System.statistics then returns float32 TENSORS instead of floats:
#       code of C08 / C13, not anchored here); burn_in / steps: every form.
#   get_value(name, index): every form works (list indexing goes through __index__).
#   fit: epochs / pos_batch_size / neg_batch_size / k / starting_epoch: every form works; time: every flag form by truthiness; progbar: tested with
#       `progbar is False` (a falsy non-singleton SHOWS the bar on stderr: display only, stderr is captured and ignored).
#   save_initial / metadata_only: truthiness, every flag form.  verbose: tested with `verbose is True`: a truthy NON-singleton prints nothing
#       (display only; the property text does not mention printing): the records are compared for every form, the printing oracle gives no
#       verdict for a truthy non-singleton.
NO_UINT8 = tuple(f for f in qc.INT_FORMS if f != "np.uint8")
SIZE_FORMS = tuple(f for f in qc.INT_FORMS if f not in ("t0d", "np.uint8"))        # num_samples, num_chains, period
FIT_ORDER = ["epochs", "pos_batch_size", "neg_batch_size", "k", "lr", "input_bases", "progbar", "starting_epoch", "time", "callbacks"]
FIT_DEFAULTS = {"neg_batch_size": None, "input_bases": None, "progbar": False, "time": False}


class Forms:
    """the per-case streams that decide HOW every option is handed over: `fl` (qc.Flags, seed `fseed`) for booleans, `it` / `it_gv` (qc.Ints,
    seed `iseed`) for integers (constructors + fit / get_value indices), `cf` for keyword-vs-positional decisions. A case without the two seeds
    (corpus, replays stored before this round) gets plain Python values in the call forms used before: it replays exactly as it did."""

    def __init__(self, ctx, case):
        fs, is_ = case.get("fseed"), case.get("iseed")
        self.ctx = ctx
        self.on = fs is not None or is_ is not None
        self.fl = qc.Flags(fs)
        self.it = qc.Ints(is_)
        self.it_gv = qc.Ints(None if is_ is None else is_ + 1)
        self.cf = random.Random(31 * (fs or 0) + (is_ or 0) + 7) if self.on else None
        self.cf_gv = random.Random(31 * (fs or 0) + (is_ or 0) + 8) if self.on else None
        # one case never mixes a 0-d numpy array with a 0-d torch tensor: arithmetic BETWEEN the two (`np.array(7) - torch.tensor(2)`, also
        # + * // % <) is a TypeError inside NumPy / Torch themselves, so a harmless rewrite that combines two options (`epochs - starting_epoch`)
        # would raise a false alarm; which of the two a case may use is decided by the parity of its `iseed`; every other pair of forms mixes
        self.never = None if is_ is None else ("t0d" if is_ % 2 else "np0d")
        self.period_forms = SIZE_FORMS

    def coin(self, p):
        return self.cf is not None and self.cf.random() < p

    def pick(self, xs):
        return self.cf.choice(xs)

    def allowed(self, forms):
        return tuple(f for f in forms if f != self.never)

    def integer(self, opt, n, allowed=qc.INT_FORMS):
        v, d = self.it(n, self.allowed(allowed))
        self.ctx.count(f"form.int.{opt}={d['form']}")
        return v

    def period(self, kind, p):
        return self.integer(f"{kind}.period", p, self.period_forms if p >= 1 else ("py",))

    def flag(self, opt, b):
        """(object, positional?)"""
        v, d = self.fl(b)
        self.ctx.count(f"form.flag.{opt}={d['form']}")
        return v, bool(d["pos"])

    def called(self, what, how):
        if self.on:
            self.ctx.count(f"form.call.{what}={how}")


def canon_kw(v):
    """a keyword-argument value as the scripted functions saw it, JSON-able: every integer form is rendered as its VALUE"""
    if v is None or isinstance(v, (bool, str)):
        return v
    try:
        return operator.index(v)
    except TypeError:
        pass
    if isinstance(v, (float, np.floating)):
        return {"float": float(v)}
    return {"type": type(v).__name__}


# ---------------------------------------------------------------- scripted environment
def param_sig(params):
    """a 3-digit signature of a parameter set (`snapshot(st)` layout): changes whenever any amplitude-network parameter changes"""
    tot = 0.0
    for k, v in params["rbm_am"].items():
        tot += float(v.double().sum())
    return f2b(tot) % 997


def metric_value(idx, w, offset, psig=0):
    """value of scripted metric number idx at world w when the state passed to it has parameter signature psig
    (pure, injective in (idx, w, psig) for idx < 7, psig < 1000)"""
    return (1000 * w + 7 * idx + offset) * 1000 + psig


def make_state(kind, seed):
    torch.manual_seed(seed)
    if kind == "pos":
        st = qc.PositiveWaveFunction(2, 2, gpu=False)
    elif kind == "cplx":
        st = qc.ComplexWaveFunction(2, 2, gpu=False)
    else:
        st = qc.DensityMatrix(2, 2, 2, gpu=False)
    data = torch.randint(0, 2, (8, 2)).double()
    bases = None if kind == "pos" else np.array([["Z", "Z"], ["X", "Z"], ["Z", "Y"], ["X", "X"]] * 2)
    return st, data, bases


def snapshot(st):
    return {net: {k: v.detach().clone() for k, v in getattr(st, net).state_dict().items()} for net in st.networks}


class Recorder(qc.qucumber.callbacks.CallbackBase):
    """independent ground truth: every event with a fresh world token, the parameter snapshot at that moment"""

    def __init__(self):
        self.events = []   # dicts {k, e?, b?, w} of ALL runs
        self.worlds = []   # snapshot per world token
        self.cur = None

    def psig(self, w):
        """parameter signature of the recorder's OWN snapshot at world w (ground truth for what a callback must have seen there)"""
        return param_sig(self.worlds[w])

    def _ev(self, st, k, **kw):
        w = len(self.worlds)
        self.worlds.append(snapshot(st))
        self.cur = w
        self.events.append(dict(k=k, w=w, **kw))

    def on_train_start(self, st): self._ev(st, "ts")
    def on_train_end(self, st): self._ev(st, "te")
    def on_epoch_start(self, st, ep): self._ev(st, "es", e=ep)
    def on_epoch_end(self, st, ep): self._ev(st, "ee", e=ep)
    def on_batch_start(self, st, ep, b): self._ev(st, "bs", e=ep, b=b)
    def on_batch_end(self, st, ep, b): self._ev(st, "be", e=ep, b=b)


class StopAt(qc.qucumber.callbacks.CallbackBase):
    """sets stop_training at one chosen event of the run"""

    def __init__(self, spec):
        self.spec = spec

    def _hit(self, st, k, e=None, b=None):
        s = self.spec
        if s and s["k"] == k and s.get("e") == e and s.get("b") == b:
            st.stop_training = True

    def on_train_start(self, st): self._hit(st, "ts")
    def on_epoch_start(self, st, ep): self._hit(st, "es", ep)
    def on_epoch_end(self, st, ep): self._hit(st, "ee", ep)
    def on_batch_start(self, st, ep, b): self._hit(st, "bs", ep, b)
    def on_batch_end(self, st, ep, b): self._hit(st, "be", ep, b)


# ---------------------------------------------------------------- building the real callbacks
class Built:
    pass


def build_callbacks(case, rec, tmp, st, fm):
    from qucumber.callbacks import Logger, MetricEvaluator, ModelSaver, ObservableEvaluator
    from qucumber.observables import SigmaX, SigmaZ

    built = []
    for ci, cb in enumerate(case["cbs"]):
        b = Built()
        b.spec = cb
        b.calls = []      # values returned by the scripted functions, in call order
        b.seen = []       # per call of a scripted function: what it was handed (state identity, live parameter signature, args, kwargs)

        def saw(nn_state, a, k, b=b):
            b.seen.append({"w": rec.cur, "is_live_state": nn_state is st, "psig": param_sig(snapshot(nn_state)) if hasattr(nn_state, "networks") else None,
                           "args": len(a), "kwargs": {kk: canon_kw(v) for kk, v in k.items()}})
        if cb["type"] == "metric":
            def mk(idx, b=b, cb=cb, saw=saw):
                def fn(nn_state, *a, **kw):
                    saw(nn_state, a, kw)
                    # the value depends on the LIVE parameters of the state the evaluator hands over
                    v = metric_value(idx, rec.cur, kw.get("offset", 0), b.seen[-1]["psig"] or 0)
                    b.calls.append(v)
                    return v
                return fn
            metrics = {name: mk(i) for i, name in enumerate(cb["names"])}
            b.logpath = os.path.join(tmp, cb.get("logname", "log{}.csv").replace("{}", str(ci))) if cb["log"] else None
            args, kw = evaluator_call(fm, b, "metric", cb, metrics, "metrics")
            b.obj = MetricEvaluator(*args, offset=cb["offset"], **kw)
        elif cb["type"] == "observable":
            cls = {"SigmaZ": SigmaZ, "SigmaX": SigmaX}
            b.logpath = os.path.join(tmp, f"log{ci}.csv") if cb["log"] else None
            observables = []
            for o in cb["obs"]:
                oc, on = obs_entry(o)
                ob = cls[oc]()
                ob.name = on
                observables.append(ob)
            args, kw = evaluator_call(fm, b, "observable", cb, observables, "observables")
            # sampling options: integer options too (values as before; num_chains only in cases that carry form seeds)
            b.want_kw = dict(SAMPLING_KWARGS)
            skw = {"num_samples": fm.integer("observable.num_samples", 6, SIZE_FORMS), "burn_in": fm.integer("observable.burn_in", 2),
                   "steps": fm.integer("observable.steps", 1)}
            if fm.coin(0.4):
                nc = fm.pick([0, 2, 3, 6, 9])
                b.want_kw["num_chains"] = nc
                skw["num_chains"] = fm.integer("observable.num_chains", nc, SIZE_FORMS)
            b.obj = ObservableEvaluator(*args, **skw, **kw)
            b.captured = {}   # world -> the dict returned by system.statistics
            orig = b.obj.system.statistics

            def wrapped(nn_state, *a, _orig=orig, _b=b, _cb=cb, _saw=saw, **k):
                _saw(nn_state, a, k)
                r = _orig(nn_state, *a, **k)
                # a System may report further statistics under any key: the evaluator records whatever it is handed
                for oi, o in enumerate(r):
                    for ki, key in enumerate(_cb.get("extra_stats", [])):
                        r[o][key] = extra_stat_value(rec.cur, oi, ki) + (_b.seen[-1]["psig"] or 0) / 1024.0
                _b.captured[rec.cur] = r
                _b.calls.append(rec.cur)
                return r
            b.obj.system.statistics = wrapped
        elif cb["type"] == "saver":
            b.folder = os.path.join(tmp, f"saver{ci}")
            md = None
            if cb["metadata"] == "callable":
                def md(nn_state, epoch, *a, _b=b, _saw=saw, **k):
                    _saw(nn_state, a, k)
                    return {"epoch": epoch, "w": rec.cur, "wsum": float(nn_state.rbm_am.state_dict()[_first_key(nn_state)].sum())}
            elif cb["metadata"] == "dict":
                md = {"tag": "fixed", "n": 3}
                if cb.get("reserved"):
                    md["rbm_am"] = 1
            b.md = md
            # pre / post are LITERAL text: braces are escaped so that `file_name.format(x)` renders them as they are
            esc = lambda t: t.replace("{", "{{").replace("}", "}}")  # noqa: E731
            fname = esc(cb["pre"]) + "{}" + esc(cb["post"])
            pobj = fm.period("saver", cb["period"])
            mo, mo_pos = fm.flag("saver.metadata_only", cb["metadata_only"])
            if cb["save_initial"] is None:                                     # None: left to its default (True)
                si_pos = False
            else:
                si, si_pos = fm.flag("saver.save_initial", cb["save_initial"])
            if fm.coin(0.25):
                args, kw = [], {"file_name": fname, "period": pobj, "folder_path": b.folder}
                fm.called("ModelSaver", "all-keyword")
            else:
                args, kw = [pobj, b.folder, fname], {}
            if args and si_pos:
                args.append(si)                                                # save_initial positionally (4th)
                if mo_pos or fm.coin(0.4):
                    args += [md, mo]                                           # ... and metadata, metadata_only (5th, 6th)
                    fm.called("ModelSaver", "6-positional")
                else:
                    kw.update(metadata=md, metadata_only=mo)
                    fm.called("ModelSaver", "4-positional")
            else:
                kw.update(metadata=md, metadata_only=mo)
                if cb["save_initial"] is not None:
                    kw["save_initial"] = si
                if args:
                    fm.called("ModelSaver", "3-positional")
            b.obj = ModelSaver(*args, **kw)
        elif cb["type"] == "logger":
            b.out = []        # what logger_fn was handed, in order
            b.out_at = []     # ... and WHEN: the world token of the event being dispatched (set by the Recorder, first in the callback list)

            def log_fn(m, _b=b):
                _b.out.append(m)
                _b.out_at.append(rec.cur)
            pobj = fm.period("logger", cb["period"])
            how = fm.pick(["positional-period", "keyword-period", "positional-logger_fn", "positional-msg_gen"]) if fm.on else "positional-period"
            fm.called("Logger", how)
            if cb.get("default_msg"):
                if how == "keyword-period":
                    b.obj = Logger(logger_fn=log_fn, tag="x", period=pobj)
                elif how == "positional-period":
                    b.obj = Logger(pobj, logger_fn=log_fn, tag="x")
                else:
                    b.obj = Logger(pobj, log_fn, tag="x")
            else:
                def msg_gen(nn_state, e, *a, _saw=saw, _b=b, **kw):
                    _saw(nn_state, a, kw)
                    return [rec.cur, e, kw.get("tag"), _b.seen[-1]["psig"]]
                if how == "keyword-period":
                    b.obj = Logger(msg_gen=msg_gen, logger_fn=log_fn, tag="x", period=pobj)
                elif how == "positional-period":
                    b.obj = Logger(pobj, logger_fn=log_fn, msg_gen=msg_gen, tag="x")
                elif how == "positional-logger_fn":
                    b.obj = Logger(pobj, log_fn, msg_gen=msg_gen, tag="x")
                else:
                    b.obj = Logger(pobj, log_fn, msg_gen, tag="x")
        built.append(b)
    return built


def evaluator_call(fm, b, kind, cb, second, second_name):
    """(args, kwargs) of `MetricEvaluator(period, metrics, verbose=False, log=None, **kw)` / `ObservableEvaluator(period, observables,
    verbose=False, log=None, **kw)`: period in one of its integer forms (positionally or by keyword), verbose in one of the flag forms
    (by keyword, positionally as the 3rd argument, or left out when False), log by keyword or as the 4th positional argument.
    Records on `b` whether the object handed over as `verbose` IS the singleton True (the clean code prints only then)."""
    cls = {"metric": "MetricEvaluator", "observable": "ObservableEvaluator"}[kind]
    pobj = fm.period(kind, cb["period"])
    verbose = bool(cb.get("verbose"))
    if not fm.on:
        # the call form of the rounds before: period and metrics positionally, verbose=True only when set
        b.verbose_obj = True if verbose else False
        return [pobj, second], dict({"verbose": True} if verbose else {}, log=b.logpath)
    vobj, vpos = fm.flag(f"{kind}.verbose", verbose)
    b.verbose_obj = vobj
    if fm.coin(0.25):
        fm.called(cls, "all-keyword")
        kw = {"log": b.logpath, second_name: second, "period": pobj}
        if verbose or not fm.coin(0.3):
            kw["verbose"] = vobj
        else:
            b.verbose_obj = False                   # left to its default
        return [], kw
    if vpos:
        if fm.coin(0.5):
            fm.called(cls, "4-positional")
            return [pobj, second, vobj, b.logpath], {}
        fm.called(cls, "3-positional")
        return [pobj, second, vobj], {"log": b.logpath}
    fm.called(cls, "2-positional")
    kw = {"log": b.logpath}
    if verbose or not fm.coin(0.3):
        kw["verbose"] = vobj
    else:
        b.verbose_obj = False
    return [pobj, second], kw


def _first_key(nn_state):
    return next(iter(nn_state.rbm_am.state_dict().keys()))


# ---------------------------------------------------------------- observing the real callbacks
def pyerr(f):
    try:
        return {"ok": f()}
    except Exception as e:  # noqa: BLE001
        return {"error": type(e).__name__}


def read_csv(path):
    with open(path, newline="") as f:
        return [row for row in csv.reader(f)]


def arr_tokens(r, tok):
    """canonical form of something that must be a numpy array of recorded values"""
    if not isinstance(r, np.ndarray):
        return {"not_an_array": type(r).__name__}
    return {"ok": [tok(x) for x in r]}


def guarded(f):
    try:
        return f()
    except Exception as e:  # noqa: BLE001
        return {"error": type(e).__name__}


def own_value(kind, b, name, r, tok, snap):
    """canonical form of an OWN attribute `name` whose getattr gave `r` (kind: metric | observable | stats).
    Value attributes are rendered; for the others only the type is recorded."""
    try:
        if name == "period":
            return {"own": name, "value": int(r)}
        if name == "log":
            return {"own": name, "value": r if r is None else os.path.basename(r)}
        if name == "verbose":
            return {"own": name, "value": bool(r)}
        if name == "epochs":
            return {"own": name, "value": [int(x) for x in r]}
        if name == "names":
            return {"own": name, "value": list(r)}
        if name == "csv_fields":
            return {"own": name, "value": list(r)}
        if name == "last":
            return {"own": name, "value": [[k, tok(v)] for k, v in r.items()]}
        if name == "data" and kind == "stats":
            return {"own": name, "value": [tok(x) for x in r]}
    except Exception as e:  # noqa: BLE001
        return {"own": name, "bad_value": type(e).__name__, "type": type(r).__name__}
    # any other own attribute: its type / value is not the property's business — only that it is NOT the recorded values
    if isinstance(r, np.ndarray) or type(r).__name__ == "ObservableStatistics":
        return {"own": name, "is_recorded_values": type(r).__name__}
    return {"own": name}


def attr_view(kind, b, obj, name, tok, wrap):
    """`getattr(obj, name)` — attribute syntax; `wrap` renders what `__getattr__` is expected to produce"""
    def f():
        r = getattr(obj, name)
        if name in own_names(kind):
            return own_value(kind, b, name, r, tok, None)
        return wrap(r)
    return guarded(f)


def get_value_call(fm, ev, nm, i):
    """`ev.get_value(name, index=None)` with the index in one of its integer forms, positionally or by keyword (`i is None`: the default)"""
    if fm is None or not fm.on:
        return ev.get_value(nm) if i is None else ev.get_value(nm, i)
    how = fm.cf_gv.choice(["positional", "positional", "keyword-index", "all-keyword"])
    if i is None:
        how = fm.cf_gv.choice(["omitted", "omitted", "positional", "keyword-index"])
        iobj = None
    else:
        iobj, d = fm.it_gv(i, fm.allowed(NO_UINT8))
        fm.ctx.count(f"form.int.get_value.index={d['form']}")
    fm.ctx.count(f"form.call.get_value={how}")
    if how == "omitted":
        return ev.get_value(nm)
    if how == "positional":
        return ev.get_value(nm, iobj)
    if how == "keyword-index":
        return ev.get_value(nm, index=iobj)
    return ev.get_value(index=iobj, name=nm)


def observe_eval(b, tok, fm=None):
    """everything the evaluator exposes, canonicalised with `tok` (value -> token)"""
    ev = b.obj
    kind = b.spec["type"]
    # the names to query come from the CASE (what the user passed), not from the object under test
    tracked = list(b.spec["names"]) if kind == "metric" else list(dict.fromkeys(obs_entry(o)[1] for o in b.spec["obs"]))
    q = tracked + [n for n in EXTRA_NAMES if n not in tracked]

    def plain(f, default):
        try:
            return f()
        except Exception as e:  # noqa: BLE001
            return {"raised": type(e).__name__, "instead_of": default}
    n = plain(lambda: len(ev), "len")
    obs = {
        "len": n,
        "epochs": plain(lambda: [int(x) for x in ev.epochs], "epochs"),
        "names": plain(lambda: list(ev.names), "names"),
        "last": plain(lambda: [[k, tok(v)] for k, v in ev.last.items()], "last"),
    }
    if not isinstance(n, int):
        n = 0
    if kind == "metric":
        wrap = lambda r: arr_tokens(r, tok)  # noqa: E731
        obs["series"] = [[nm, guarded(lambda nm=nm: wrap(ev[nm]))] for nm in q]
    else:
        def wrap(r):
            if type(r).__name__ != "ObservableStatistics":
                return {"not_statistics": type(r).__name__}
            return {"ok": [tok(x) for x in object.__getattribute__(r, "data")]}
        obs["series"] = [[nm, guarded(lambda nm=nm: wrap(ev[nm]))] for nm in q]
        stok = lambda x: obs_token_of(x)  # noqa: E731
        obs["stat_series"] = [[nm, [[sq, guarded(lambda nm=nm, sq=sq: arr_tokens(ev[nm][sq], stok))] for sq in STAT_QUERIES]] for nm in q]
        obs["stat_attr"] = [[nm, [[sq, guarded(lambda nm=nm, sq=sq: attr_view("stats", b, ev[nm], sq, tok, lambda r: arr_tokens(r, stok)))]
                                  for sq in STAT_QUERIES]] for nm in q]
    obs["attr"] = [[nm, attr_view(kind, b, ev, nm, tok, wrap)] for nm in q]
    obs["get_value"] = [[nm, [[i, pyerr(lambda nm=nm, i=i: tok(get_value_call(fm, ev, nm, i)))] for i in range(-n - 2, n + 2)]] for nm in q]
    obs["get_value_default"] = [[nm, pyerr(lambda nm=nm: tok(get_value_call(fm, ev, nm, None)))] for nm in q]
    obs["log"] = read_csv(b.logpath) if b.logpath else []
    return obs


def obs_token_of(x):
    return f2b(float(x))


def expected_own(kind, b, name, msnap, extra=None):
    """what `getattr` must give for an own attribute, built from the MODEL's snapshot and the constructor arguments"""
    cb = b.spec
    if name == "period":
        return {"own": name, "value": cb["period"]}
    if name == "log":
        return {"own": name, "value": os.path.basename(b.logpath) if b.logpath else None}
    if name == "verbose":
        return {"own": name, "value": bool(cb.get("verbose", False))}
    if name == "epochs":
        return {"own": name, "value": msnap["epochs"]}
    if name == "names":
        return {"own": name, "value": msnap["names"]}
    if name == "csv_fields":
        if kind == "metric":
            return {"own": name, "value": ["epoch"] + msnap["names"]}
        return {"own": name, "value": ["epoch"] + [o + "_" + st for o in msnap["names"] for st in ("mean", "variance", "std_error")]}
    if name == "last":
        return {"own": name, "value": msnap["last"]}
    if name == "data" and kind == "stats":
        return {"own": name, "value": extra}
    return {"own": name}


def model_attr_view(kind, b, msnap):
    """the model's `attr` / `stat_attr` tables with the own attributes rendered as `expected_own` does"""
    def one(k, entry, extra=None):
        if "own" in entry:
            return expected_own(k, b, entry["own"], msnap, extra)
        return entry
    attr = [[nm, one(kind, e)] for nm, e in msnap["attr"]]
    stat_attr = None
    if kind == "observable":
        ser = {nm: e for nm, e in msnap["series"]}
        stat_attr = [[nm, [[sq, one("stats", e, ser[nm].get("ok"))] for sq, e in tab]] for nm, tab in msnap["stat_attr"]]
    return attr, stat_attr


def model_eval_view(m, b, cellstr):
    """the model's snapshot brought to the same shape (CSV cells rendered as the strings csv would write)"""
    out = {k: m[k] for k in ("len", "epochs", "names", "last", "series", "get_value", "get_value_default")}
    out["attr"], sa = model_attr_view(b.spec["type"], b, m)
    if b.spec["type"] == "observable":
        out["stat_series"] = m["stat_series"]
        out["stat_attr"] = sa
    out["log"] = [[cellstr(c) for c in row] for row in m["log"]]
    return out


# ---------------------------------------------------------------- what of a view is compared (audit2-4 X-1 c)
def _is_err(x):
    return isinstance(x, dict) and "error" in x


def _soft(x):
    """exception TYPES are never compared: {"error": T} -> {"raises": True} (recursively)"""
    if isinstance(x, dict):
        if set(x) == {"error"}:
            return {"raises": True}
        return {k: _soft(v) for k, v in x.items()}
    if isinstance(x, list):
        return [_soft(v) for v in x]
    return x


UNCONSTRAINED = "not compared (untracked name on an empty history)"


def soften_view(view, tracked):
    """the part of an evaluator view (implementation's or model's) the property constrains. "Indexed lookup ... agrees with the values computed at
    those epochs" speaks of tracked names and of indices that denote a record (-n <= i < n): those entries stay exact. For an UNTRACKED name and for an
    index outside -n..n-1 there is no value to agree with: only "raises (any exception) or not" is kept, and for an untracked name on an EMPTY
    history (the clean code returns `array([])` there and raises once there are records - a quirk of the list comprehension in `__getattr__`)
    nothing at all. Exception TYPES (IndexError / KeyError / AttributeError, unknown statistic keys) are never compared."""
    n = view["len"] if isinstance(view.get("len"), int) else 0
    out = dict(view)

    def untracked(e, nested):
        if n == 0:
            return UNCONSTRAINED
        if nested:
            return [[sq, {"raises": _is_err(x)}] for sq, x in e] if isinstance(e, list) else {"raises": _is_err(e)}
        return {"raises": _is_err(e)}
    for key in ("series", "attr", "stat_series", "stat_attr"):
        if key not in view:
            continue
        rows = []
        for nm, e in view[key]:
            if nm in tracked or (key == "attr" and isinstance(e, dict) and "own" in e):
                rows.append([nm, e])
            else:
                rows.append([nm, untracked(e, key.startswith("stat_"))])
        out[key] = rows
    out["get_value"] = [[nm, [[i, r if (nm in tracked and -n <= i < n) else {"raises": _is_err(r)}] for i, r in tab]] for nm, tab in view["get_value"]]
    out["get_value_default"] = [[nm, r if (nm in tracked and n > 0) else {"raises": _is_err(r)}] for nm, r in view["get_value_default"]]
    return _soft(out)


def tracked_names(spec):
    return list(spec["names"]) if spec["type"] == "metric" else list(dict.fromkeys(obs_entry(o)[1] for o in spec["obs"]))


# ---------------------------------------------------------------- one case
def fit_call(fm, seg, data, bases, cbl):
    """(args, kwargs, time truthy?) of one `fit(data, epochs, pos_batch_size, neg_batch_size, k, lr, input_bases, progbar, starting_epoch, time,
    callbacks)`: integer options in their forms, `time` / `progbar` in the flag forms, the first `npos` options positionally in the documented order.
    Without form seeds: the keyword call of the rounds before (epochs, starting_epoch, pos_batch_size=4, k=1, lr, callbacks[, input_bases])."""
    if not fm.on:
        kw = dict(epochs=seg["epochs"], starting_epoch=seg["start"], pos_batch_size=4, k=1, lr=0.05, callbacks=cbl)
        if bases is not None:
            kw["input_bases"] = bases
        return [data], kw, False
    # (np.uint8 only for the loop count k: unsigned 8-bit arithmetic wraps or raises inside NumPy - `np.uint8(2) - np.uint8(4) + 1` is 255,
    #  `-(-8 // np.uint8(4))` an OverflowError - so a harmless rewrite that computes the number of epochs / batches first would raise a false alarm)
    vals = {"epochs": fm.integer("fit.epochs", seg["epochs"], NO_UINT8), "pos_batch_size": fm.integer("fit.pos_batch_size", 4, NO_UINT8),
            "k": fm.integer("fit.k", 1), "lr": 0.05, "starting_epoch": fm.integer("fit.starting_epoch", seg["start"], NO_UINT8), "callbacks": cbl}
    if fm.coin(0.4):
        vals["neg_batch_size"] = fm.integer("fit.neg_batch_size", fm.pick([2, 4, 8]), NO_UINT8)
    if bases is not None:
        vals["input_bases"] = bases
    time_on, pb_on = fm.coin(0.25), fm.coin(0.2)
    tobj, tpos = fm.flag("fit.time", time_on)
    pobj, ppos = fm.flag("fit.progbar", pb_on)
    if time_on or tpos or fm.coin(0.5):
        vals["time"] = tobj
    if pb_on or ppos or fm.coin(0.5):
        vals["progbar"] = pobj
    npos = fm.pick([0, 0, 0, 1, 2, 4, 5, 7, 8, 9, 10]) if (tpos or ppos) else fm.pick([0, 0, 0, 0, 1, 2, 4])
    fm.called("fit", f"{npos}-positional")
    args, kw = [data], {}
    # (PositiveWaveFunction.fit has no `input_bases` parameter: its documented order is the same list without it)
    for j, name in enumerate([n_ for n_ in FIT_ORDER if not (bases is None and n_ == "input_bases")]):
        if j < npos:
            args.append(vals[name] if name in vals else FIT_DEFAULTS[name])
        elif name in vals:
            kw[name] = vals[name]
    return args, kw, time_on


def malformed_reasons(case):
    """why a case lies OUTSIDE the quantifier of the property (p >= 1; documented refusals of the library: a metric called "epoch" together with
    a log file, a metadata key that is the name of a network). The property says nothing about such inputs: whether the implementation refuses
    them (at construction, in the run, with which exception) or accepts them is COUNTED, never compared (DESIGN 13.8, audit2-4 X-1)."""
    out = []
    for cb in case.get("cbs", []):
        if cb["period"] < 1:
            out.append(f"{cb['type']}.period<1")
        if cb["type"] == "metric" and cb["log"] and "epoch" in cb["names"]:
            out.append("metric-named-epoch+log")
        if cb["type"] == "saver" and cb.get("reserved") and not cb["metadata_only"]:
            out.append("saver.reserved-metadata-key")
    return out


def run_case(ctx, case):
    tmp = tempfile.mkdtemp(prefix="qv_c17_")
    try:
        why = malformed_reasons(case)
        if why:
            _run_malformed(ctx, case, tmp, why)
        else:
            _run_case(ctx, case, tmp)
    finally:
        shutil.rmtree(tmp, ignore_errors=True)


def _run_malformed(ctx, case, tmp, why):
    """an input outside the quantifier: run it, COUNT what happened (refused when built / refused in the run / accepted); no point, no oracle"""
    label = "+".join(sorted(set(why)))
    outcome = "accepted"
    try:
        st, data, bases = make_state(case["kind"], case["seed"])
        rec = Recorder()
        fm = Forms(ctx, case)
        try:
            built = build_callbacks(case, rec, tmp, st, fm)
        except Exception as e:  # noqa: BLE001
            built, outcome = None, f"refused-when-built({type(e).__name__})"
        if built is not None:
            for seg in case["segments"]:
                st.stop_training = False
                args, kw, _ = fit_call(fm, seg, data, bases, [rec] + [b.obj for b in built])
                try:
                    with contextlib.redirect_stdout(io.StringIO()), contextlib.redirect_stderr(io.StringIO()):
                        st.fit(*args, **kw)
                except Exception as e:  # noqa: BLE001
                    outcome = f"refused-in-the-run({type(e).__name__})"
                    break
    except Exception as e:  # noqa: BLE001
        outcome = f"harness-side({type(e).__name__})"
    ctx.case(case, nontrivial=False)
    ctx.count(f"malformed[{label}]={outcome}")


def _run_case(ctx, case, tmp):
    st, data, bases = make_state(case["kind"], case["seed"])
    rec = Recorder()
    fm = Forms(ctx, case)
    sig0 = f"C17/{case['kind']}"
    try:
        built = build_callbacks(case, rec, tmp, st, fm)
    except Exception as e:  # noqa: BLE001
        # a configuration INSIDE the quantifier (p >= 1, ...) that cannot even be built: the callbacks never act
        ctx.case(case, nontrivial=False)
        ctx.oracle("a configuration inside the quantifier (periods >= 1, valid names / metadata) can be built", False, case,
                   detail={"raised": type(e).__name__, "msg": str(e)[:200]}, sig=f"{sig0}/construction-refused",
                   theorem="C17_schedule_metric, C17_schedule_observable, C17_schedule_saver, C17_schedule_logger (hypothesis 1 <= p only)")
        return
    periods = [cb["period"] for cb in case["cbs"]]

    # tokens for observable statistics values: the IEEE bit pattern of the value
    def obs_token(x):
        return f2b(float(x))

    def observe_one(b):
        t = b.spec["type"]
        if t == "metric":
            return observe_eval(b, lambda v: int(v) if not isinstance(v, dict) else v, fm)
        if t == "observable":
            def tokd(v):
                if isinstance(v, dict):
                    return [[k, obs_token(x)] for k, x in v.items()]
                return obs_token(v)
            return observe_eval(b, tokd, fm)
        if t == "saver":
            return {"files": sorted(os.listdir(b.folder))}
        # `acted`: per message handed to logger_fn, [world token, epoch] of the event during which it was emitted
        ev_of = {ev["w"]: ev for ev in rec.events}
        return {"out": list(b.out), "acted": [[w, ev_of[w].get("e") if ev_of[w]["k"] == "ee" else ev_of[w]["k"]] for w in b.out_at]}

    after_clear = []     # per segment: observation of the cleared evaluators right after clear_history
    seg_results = []     # per segment: None (ok) or exception kind
    impl_snaps = []      # per segment: list of observations per callback
    seg_events = []      # per segment: recorder events of that segment
    nontrivial = False
    printed = []         # per segment: what the run wrote to stdout (only verbose evaluators print)
    timed = []           # per segment: was fit called with a truthy `time` (its Timer callback prints at the end of the run)
    for seg in case["segments"]:
        n0 = len(rec.events)
        if not seg.get("keep_stop"):
            st.stop_training = False       # keep_stop: the flag is left as the previous run left it (set => fit returns at once)
        stop_before = bool(st.stop_training)
        stopper = StopAt(seg.get("stop"))
        cbl = [rec] + [b.obj for b in built] + [stopper]
        args, kw, time_on = fit_call(fm, seg, data, bases, cbl)
        timed.append(time_on)
        err = None
        buf = io.StringIO()
        try:
            with contextlib.redirect_stdout(buf), contextlib.redirect_stderr(io.StringIO()):     # stderr: the tqdm bar (progbar forms)
                st.fit(*args, **kw)
        except Exception as e:  # noqa: BLE001
            err = type(e).__name__
        printed.append(buf.getvalue())
        if err is None and not stop_before:
            # the key events of one real fit: one train start, first, then the epoch-ends of start..last (C17_fit_stream / RunEnds)
            sp = seg.get("stop")
            last = seg["epochs"] if not sp else (min(seg["start"], seg["epochs"]) if sp["k"] == "ts" else sp["e"])
            want = ["ts"] + [("ee", e) for e in range(seg["start"], last + 1)]
            got = [("ee", ev["e"]) if ev["k"] == "ee" else "ts" for ev in rec.events[n0:] if ev["k"] in ("ts", "ee")]
            ctx.oracle("one fit = train start, then the epoch-ends of starting_epoch..last (last = epochs, or the epoch of the stop request)",
                       got == want, {**case, "at_segment": len(seg_results)}, detail={"got": got, "expected": want},
                       sig=f"{sig0}/fit-stream-oracle", theorem="C17_fit_stream, C17_fit_schedule")
        if stop_before:
            ctx.oracle("a run started with the stop request still set dispatches no event (no initial save, no evaluation)",
                       err is None and rec.events[n0:] == [], {**case, "at_segment": len(seg_results)},
                       detail={"error": err, "events": rec.events[n0:][:5]}, sig=f"{sig0}/run-with-stop-set",
                       theorem="C17_fit_stopped_beforehand (C12_stopped_run_is_noop)")
        seg_results.append(err)
        seg_events.append(rec.events[n0:])
        if err is not None:
            impl_snaps.append(None)
            break
        snaps = [observe_one(b) for b in built]
        impl_snaps.append(snaps)
        for ci in seg.get("clear", []):
            try:
                built[ci].obj.clear_history()
            except Exception as e:  # noqa: BLE001  (e.g. the method shadowed by a recorded value of a metric of that name)
                ctx.oracle("clear_history() works whatever the metrics are called", False, {**case, "callback": ci},
                           detail={"raised": type(e).__name__, "msg": str(e)[:200]}, sig=f"{sig0}/clear_history-raises",
                           theorem="C17_records_clear_history")
        after_clear.append([observe_one(b) if ci in seg.get("clear", []) else None for ci, b in enumerate(built)])

    # ---- distribution bookkeeping
    ee_all = [ev["e"] for evs in seg_events for ev in evs if ev["k"] == "ee"]
    for p in periods:
        if p >= 1 and any(e % p == 0 for e in ee_all) and any(e % p != 0 for e in ee_all):
            nontrivial = True
    ctx.case(case, nontrivial=nontrivial,
             sample={"kind": case["kind"], "periods": periods, "segments": case["segments"], "epoch_ends": ee_all})
    ctx.count(f"kind={case['kind']}")
    for cb in case["cbs"]:
        ctx.count(f"{cb['type']}.period={cb['period']}")
        if cb["type"] in ("metric", "observable"):
            nms = cb["names"] if cb["type"] == "metric" else [obs_entry(o)[1] for o in cb["obs"]]
            for nm in nms:
                cls_ = "own-attribute" if nm in own_names(cb["type"]) else "odd" if nm in ODD_NAMES else "plain"
                ctx.count(f"{cb['type']}.name_class={cls_}")
            if len(set(nms)) < len(nms):
                ctx.count(f"{cb['type']}.duplicate_names")
            for k in cb.get("extra_stats", []):
                ctx.count(f"observable.extra_statistic={k!r}")
        if cb["type"] == "saver":
            ctx.count(f"saver.metadata={cb['metadata']}{'/only' if cb['metadata_only'] else ''}")
            ctx.count(f"saver.save_initial={cb['save_initial']}")
        if cb.get("verbose"):
            ctx.count(f"{cb['type']}.verbose")
    for seg, err in zip(case["segments"], seg_results):
        ctx.count("segment.stop=" + (seg["stop"]["k"] if seg.get("stop") else "none"))
        if seg.get("keep_stop"):
            ctx.count("segment.started_with_stop_still_set")
        ctx.count("segment.error=" + str(err))
        if seg.get("clear"):
            ctx.count("segment.clear")
    ctx.count("segments_per_case=%d" % len(case["segments"]))

    # ---- the model on the same event stream
    if ctx.driver is not None:
        mcbs = []
        nworlds = len(rec.worlds)
        for b in built:
            cb = b.spec
            if cb["type"] == "metric":
                mcbs.append({"kind": "metric", "period": cb["period"], "log": cb["log"],
                             "vals": [[nm, [metric_value(i, w, cb["offset"], rec.psig(w)) for w in range(nworlds)]] for i, nm in enumerate(cb["names"])]})
            elif cb["type"] == "observable":
                stats = []
                for w in range(nworlds):
                    r = b.captured.get(w)
                    stats.append([] if r is None else [[o, [[s, obs_token(x)] for s, x in d.items()]] for o, d in r.items()])
                mcbs.append({"kind": "observable", "period": cb["period"], "log": cb["log"], "obs": [obs_entry(o)[1] for o in cb["obs"]],
                             "stats": stats})
            elif cb["type"] == "saver":
                mcbs.append({"kind": "saver", "period": cb["period"], "pre": cb["pre"], "post": cb["post"],
                             "save_initial": cb["save_initial"] is not False, "metadata": cb["metadata"],
                             "metadata_only": cb["metadata_only"], "reserved": bool(cb.get("reserved"))})
            else:
                mcbs.append({"kind": "logger", "period": cb["period"]})
        msegs = [{"events": evs, "clear": seg.get("clear", [])} for evs, seg in zip(seg_events, case["segments"])]
        model = ctx.driver.call("c17.run", callbacks=mcbs, segments=msegs, extra_names=EXTRA_NAMES, stat_queries=STAT_QUERIES,
                                own_metric=own_names("metric"), own_observable=own_names("observable"),
                                own_stats=own_names("stats"))["segments"]
        for si, (err, snaps) in enumerate(zip(seg_results, impl_snaps)):
            c = {**case, "at_segment": si}
            mseg = model[si] if si < len(model) else {"error": "model produced no segment"}
            # inside the quantifier neither side raises; WHICH exception a failing run raises is not compared (only shown)
            ctx.point("run raises", "property", err is not None, "error" in mseg, {**c, "raised": err, "model_error": mseg.get("error")}, exact=True,
                      sig=f"{sig0}/exception",
                      theorem="C17_fit_callbacks (the hypotheses p>=1, no metric named 'epoch' with a log, no reserved metadata key exclude every error)")
            if err is not None or "error" in mseg:
                break
            for ci, (b, isnap, msnap) in enumerate(zip(built, snaps, mseg["after"])):
                t = b.spec["type"]
                cc = {**c, "callback": ci}
                if t in ("metric", "observable"):
                    if t == "metric":
                        cellstr = lambda cell: cell["t"] if "t" in cell else str(cell["i"]) if "i" in cell else str(cell["v"]) if "v" in cell else ""  # noqa: E731
                    else:
                        cellstr = lambda cell: cell["t"] if "t" in cell else str(cell["i"]) if "i" in cell else repr(b2f(cell["v"])) if "v" in cell else ""  # noqa: E731
                    mv = model_eval_view(msnap, b, cellstr)
                    th = "C17_records_metric_run" if t == "metric" else "C17_records_observable_run"
                    # informational: do the parts the property does NOT constrain (exception types, untracked names, out-of-range indices) also
                    # coincide with the model of the present code?
                    raw_eq = all(isnap.get(k) == mv.get(k) for k in ("series", "get_value", "get_value_default", "attr", "stat_series", "stat_attr"))
                    ctx.count("info.unconstrained-lookups(exception types, untracked names, out-of-range indices)-equal-model=" + ("yes" if raw_eq else "no"))
                    isnap, mv = soften_view(isnap, tracked_names(b.spec)), soften_view(mv, tracked_names(b.spec))
                    ctx.point(f"{t}.epochs", "property", isnap["epochs"], mv["epochs"], cc, exact=True, sig=f"{sig0}/{t}/schedule", theorem=f"C17_schedule_{t}")
                    ctx.point(f"{t}.len", "property", isnap["len"], mv["len"], cc, exact=True, sig=f"{sig0}/{t}/len", theorem="C17_records_len_epochs")
                    ctx.point(f"{t}.names", "property", isnap["names"], mv["names"], cc, exact=True, sig=f"{sig0}/{t}/names", theorem="names = keys (model by construction)")
                    ctx.point(f"{t}.last", "property", isnap["last"], mv["last"], cc, exact=True, sig=f"{sig0}/{t}/last", theorem=th)
                    ctx.point(f"{t}.series", "property", isnap["series"], mv["series"], cc, exact=True, sig=f"{sig0}/{t}/series", theorem="C17_records_getitem")
                    ctx.point(f"{t}.get_value", "property", isnap["get_value"], mv["get_value"], cc, exact=True, sig=f"{sig0}/{t}/get_value", theorem="C17_records_get_value (in range: exact; outside -n..n-1 / untracked name: raises-or-not only)")
                    ctx.point(f"{t}.get_value_default", "property", isnap["get_value_default"], mv["get_value_default"], cc, exact=True, sig=f"{sig0}/{t}/get_value_default", theorem="C17_records_get_value_default")
                    ctx.point(f"{t}.log", "property", isnap["log"], mv["log"], cc, exact=True, sig=f"{sig0}/{t}/csv", theorem=th + (", C17_records_observable_csv_row" if t == "observable" else ""))
                    ctx.point(f"{t}.attr", "property", isnap["attr"], mv["attr"], cc, exact=True, sig=f"{sig0}/{t}/attribute-syntax", theorem="C17_records_getattr")
                    if t == "observable":
                        ctx.point("observable.stat_series", "property", isnap["stat_series"], mv["stat_series"], cc, exact=True, sig=f"{sig0}/observable/statistics", theorem="C17_records_observable_statistics")
                        ctx.point("observable.stat_attr", "property", isnap["stat_attr"], mv["stat_attr"], cc, exact=True, sig=f"{sig0}/observable/statistics-attribute-syntax", theorem="C17_records_statistics_getattr")
                elif t == "saver":
                    names = sorted({wr["name"] for wr in msnap["writes"]})
                    ctx.point("saver.files", "property", isnap["files"], names, cc, exact=True, sig=f"{sig0}/saver/files", theorem="C17_saver")
                else:
                    # property level: HOW MANY messages were emitted and during WHICH epoch-end events (observed by bracketing: the world token the
                    # Recorder set for the event being dispatched), for both kinds of logger
                    ctx.point("logger.acted", "property", isnap["acted"], [[w, e] for (w, e) in msnap["out"]], cc, exact=True, sig=f"{sig0}/logger/schedule",
                              theorem="C17_schedule_logger")
                    if b.spec.get("default_msg"):
                        # the WORDING of the default message is not part of the property (audit2-4 C17-1): informational only
                        mo = ctx.driver.call("c17.default_msg", kwargs_repr=str({"tag": "x"}), epochs=[e for (_, e) in msnap["out"]])
                        ctx.count("info.logger.default-message-text-equals-model=" + ("yes" if isnap["out"] == mo else "no"))
                    else:
                        # a user-supplied msg_gen: what it returned at that epoch is what logger_fn receives (scripted: [world, epoch, tag, live psig])
                        mo = [[w, e, "x", rec.psig(w)] for (w, e) in msnap["out"]]
                        ctx.point("logger.out", "property", isnap["out"], mo, cc, exact=True, sig=f"{sig0}/logger/messages", theorem="C17_schedule_logger")
            for ci, b in enumerate(built):
                isnap = after_clear[si][ci] if si < len(after_clear) else None
                if isnap is None:
                    continue
                msnap = mseg["after_clear"][ci]
                t = b.spec["type"]
                mv = soften_view(model_eval_view(msnap, b, lambda cell: ""), tracked_names(b.spec))
                isnap = soften_view(isnap, tracked_names(b.spec))
                for key in ("len", "epochs", "last", "series", "attr", "get_value", "get_value_default"):
                    ctx.point(f"{t}.after_clear.{key}", "property", isnap[key], mv[key], {**c, "callback": ci}, exact=True,
                              sig=f"{sig0}/{t}/clear_history", theorem="C17_records_clear_history")
                ctx.point(f"{t}.after_clear.log_rows", "property", len(isnap["log"]), len(mv["log"]), {**c, "callback": ci}, exact=True,
                          sig=f"{sig0}/{t}/clear_history", theorem="C17_records_clear_history")
        # scripted functions were called exactly at the recorded evaluations (no evaluation at any other time),
        # and saved files hold what the model says was written last under each name
        if all(e is None for e in seg_results) and model and "after" in model[-1]:
            final = model[-1]["after"]
            for ci, (b, msnap) in enumerate(zip(built, final)):
                t = b.spec["type"]
                cc = {**case, "callback": ci}
                if t == "saver":
                    check_files(ctx, case, cc, b, st, rec, msnap["writes"], sig0)

    # ---- oracles directly on the implementation
    oracle_checks(ctx, case, built, rec, seg_events, seg_results, impl_snaps, st, sig0)
    live_state_checks(ctx, case, built, rec, seg_events, seg_results, printed, sig0, timed)


SAMPLING_KWARGS = {"num_samples": 6, "burn_in": 2, "steps": 1}


def live_state_checks(ctx, case, built, rec, seg_events, seg_results, printed, sig0, timed=None):
    """WHICH state the callbacks evaluate and with WHICH arguments (the scripted functions record what they are handed):
    the live NeuralState object being trained (identity), whose parameters at that moment are those of the recorder's own snapshot of the
    same event, no extra positional arguments, and exactly the configured keyword arguments. Verbose evaluators print at, and only at,
    their evaluations and record exactly what the silent ones record (the records are compared with the verbose-free model above)."""
    if any(e is not None for e in seg_results):
        return
    for ci, b in enumerate(built):
        cb = b.spec
        t = cb["type"]
        cc = {**case, "callback": ci}
        want_kw = {"metric": {"offset": cb.get("offset")}, "observable": getattr(b, "want_kw", SAMPLING_KWARGS), "saver": {},
                   "logger": {"tag": "x"}}[t]
        bad = [x for x in b.seen if not x["is_live_state"] or x["args"] != 0 or x["kwargs"] != want_kw
               or x["psig"] != rec.psig(x["w"])]
        ctx.oracle(f"{t}: scripted functions receive the live state (same object, current parameters), no extra args, exactly the configured kwargs",
                   not bad, cc, detail={"bad_calls": bad[:3], "expected_kwargs": want_kw,
                                        "recorder_psig": [rec.psig(x["w"]) for x in bad[:3]]},
                   sig=f"{sig0}/{t}/live-state-and-kwargs", theorem="C17_records_metric_run / C17_records_observable_run / C17_saver / C17_schedule_logger "
                   "(values are functions of the world token of the epoch-end event itself)")
    # verbose: something is printed in a run iff a verbose evaluator evaluated in it
    # (a truthy `verbose` that is NOT the singleton True - 1, numpy.True_, a 0-d array / tensor - prints nothing on the clean tree, which tests
    #  `verbose is True`; printing is display only and not part of the property text, so evaluations of such an evaluator carry no verdict either
    #  way; a truthy `time` makes fit's own Timer print at the end of the run: then only "something is printed" can be demanded)
    for si, (evs, out) in enumerate(zip(seg_events, printed)):
        n_eval = n_open = 0
        for b in built:
            cb = b.spec
            if cb["type"] in ("metric", "observable") and cb.get("verbose") and cb["period"] >= 1:
                k = sum(1 for ev in evs if ev["k"] == "ee" and ev["e"] % cb["period"] == 0)
                if getattr(b, "verbose_obj", True) is True:
                    n_eval += k
                else:
                    n_open += k
        timer = bool(timed and timed[si]) and any(ev["k"] == "te" for ev in evs)
        if n_eval > 0:
            okp = out != ""
        elif n_open > 0 or timer:
            okp = True                          # no verdict
            ctx.count("segment.verbose_output_unconstrained(" + ("timer" if timer else "verbose given as a truthy non-singleton") + ")")
        else:
            okp = out == ""
        ctx.oracle("verbose evaluators print at their evaluations, nothing is printed otherwise", okp,
                   {**case, "at_segment": si}, detail={"stdout": out[:300], "verbose_evaluations": n_eval, "timer": timer},
                   sig=f"{sig0}/verbose-output", theorem="C17_schedule_metric, C17_schedule_observable")
        if n_eval:
            ctx.count("segment.verbose_output")


def md_expected(b, rec, mdtok):
    if mdtok[0] == "call":
        w, e = mdtok[1], mdtok[2]
        snap = rec.worlds[w]["rbm_am"]
        k0 = next(iter(snap.keys()))
        return {"epoch": e, "w": w, "wsum": float(snap[k0].sum())}
    if mdtok[0] == "dict":
        return dict(b.md)
    return {}


def files_equal_snapshot(loaded, snap, nets):
    for net in nets:
        if net not in loaded:
            return False
        sd = loaded[net]
        if set(sd.keys()) != set(snap[net].keys()):
            return False
        for k in sd:
            if not torch.equal(sd[k], snap[net][k]):
                return False
    return True


def snaps_equal(got, snap):
    if set(got) != set(snap):
        return False
    for net in snap:
        if set(got[net].keys()) != set(snap[net].keys()):
            return False
        for k in snap[net]:
            if got[net][k].shape != snap[net][k].shape or not torch.equal(got[net][k], snap[net][k]):
                return False
    return True


def file_loads_back(ctx, path, kind, snap, md, st):
    """does the file at `path` LOAD BACK - through the library - to the parameters `snap` with the metadata `md`?
    Verdict (property level): a FRESH state of the same kind (other parameters) calls the public `load(path)` and then has exactly the parameters of
    the recorder's snapshot; and every requested metadata entry is stored in the file under its key with its value (`torch.load`: the documented way
    to read the metadata back). Informational only: `Kind.autoload(path)` gives the same parameters; the present on-disk LAYOUT (one state_dict per
    network name at the top level, nothing else besides metadata and unitary_dict) - a rewrite that changes the layout in `save` and `load`
    consistently keeps the property (audit2-4 C17-2)."""
    detail = {}
    with torch.random.fork_rng():
        st2 = make_state(kind, 777)[0]
    try:
        st2.load(path)
        ok_params = snaps_equal(snapshot(st2), snap)
    except Exception as e:  # noqa: BLE001
        ok_params = False
        detail["load_raised"] = f"{type(e).__name__}: {str(e)[:120]}"
    detail["fresh_state.load(path)_gives_the_snapshot"] = ok_params
    try:
        loaded = torch.load(path, weights_only=False)
        ok_md = all(k in loaded and loaded[k] == v for k, v in md.items())
        detail["stored_metadata"] = repr({k: loaded.get(k, "<missing>") for k in md})[:300]
    except Exception as e:  # noqa: BLE001
        loaded, ok_md = None, not md
        detail["torch.load_raised"] = type(e).__name__
    detail["expected_metadata"] = repr(md)[:300]
    # informational
    try:
        auto = type(st).autoload(path, gpu=False)
        ctx.count("info.saver.autoload(path)-gives-the-snapshot=" + ("yes" if snaps_equal(snapshot(auto), snap) else "no"))
    except Exception as e:  # noqa: BLE001
        ctx.count(f"info.saver.autoload(path)-gives-the-snapshot=raised({type(e).__name__})")
    layout = False
    if isinstance(loaded, dict):
        try:
            extra = {k: v for k, v in loaded.items() if k not in st.networks and k != "unitary_dict"}
            layout = files_equal_snapshot(loaded, snap, st.networks) and extra == md and ("unitary_dict" in loaded) == hasattr(st, "unitary_dict")
        except Exception:  # noqa: BLE001
            layout = False
    ctx.count("info.saver.on-disk-layout(state_dict per network + metadata + unitary_dict)-as-modelled=" + ("yes" if layout else "no"))
    return ok_params and ok_md, detail


def check_files(ctx, case, cc, b, st, rec, writes, sig0):
    lastw = {}
    for wr in writes:
        lastw[wr["name"]] = wr
    for name, wr in sorted(lastw.items()):
        path = os.path.join(b.folder, name)
        if not os.path.exists(path):
            ctx.point("saver.file_exists", "property", False, True, {**cc, "file": name}, exact=True, sig=f"{sig0}/saver/files", theorem="C17_saver")
            continue
        md = md_expected(b, rec, wr["md"])
        if wr["body"] == "meta":
            # metadata_only: the file IS the metadata (there are no parameters to load)
            loaded = torch.load(path, weights_only=False)
            ok = loaded == md
            detail = {"loaded": repr(loaded)[:300], "expected": repr(md)[:300]}
        else:
            ok, detail = file_loads_back(ctx, path, case["kind"], rec.worlds[wr["w"]], md, st)
            detail.update(world=wr["w"], arg=wr["arg"])
        ctx.point("saver.file_content", "property", bool(ok), True, {**cc, "file": name, "detail": detail}, exact=True,
                  sig=f"{sig0}/saver/content", theorem="C17_saver, C17_saver_file_last, C17_saver_file_overwrite (last write wins over several runs)")


def oracle_checks(ctx, case, built, rec, seg_events, seg_results, impl_snaps, st, sig0):
    """independent re-statement of the property on the implementation only"""
    if any(e is not None for e in seg_results):
        # (inputs outside the quantifier never get here: `_run_malformed`)
        err = next(e for e in seg_results if e is not None)
        ctx.oracle("a run inside the quantifier (periods >= 1, valid names / metadata) does not raise", False, case, detail={"raised": err},
                   sig=f"{sig0}/unexpected-exception", theorem="C17_fit_callbacks")
        return
    for ci, b in enumerate(built):
        cb = b.spec
        p = cb["period"]
        cc = {**case, "callback": ci}
        t = cb["type"]
        # ground truth: epoch-ends per segment, evaluations kept since the last clear_history of this callback
        kept, allev = [], []
        for si, (evs, seg) in enumerate(zip(seg_events, case["segments"])):
            sched = [(ev["e"], ev["w"]) for ev in evs if ev["k"] == "ee" and ev["e"] % p == 0]
            kept += sched
            allev += sched
            snap = impl_snaps[si][ci]
            if t in ("metric", "observable"):
                tracked = list(cb["names"]) if t == "metric" else list(dict.fromkeys(obs_entry(o)[1] for o in cb["obs"]))
                ctx.oracle(f"{t}: names == the names given, in order (duplicates collapse onto the first position)", snap["names"] == tracked,
                           {**cc, "at_segment": si}, detail={"names": snap["names"], "expected": tracked}, sig=f"{sig0}/{t}/names-oracle")
                # name spaces: subscripting ALWAYS gives the recorded values; attribute syntax gives them unless normal lookup finds
                # an attribute of that name first
                own = set(own_names(t))
                att = dict((k, v) for k, v in snap["attr"])
                ser0 = dict((k, v) for k, v in snap["series"])
                okattr = all(("own" in att.get(nm, {})) if nm in own else (nm in att and att[nm] == ser0.get(nm)) for nm in tracked)
                ctx.oracle(f"{t}: ev.<name> is the attribute for own names and ev[name] otherwise", okattr, {**cc, "at_segment": si},
                           detail={"attr": {k: att[k] for k in tracked}}, sig=f"{sig0}/{t}/attribute-oracle", theorem="C17_records_getattr")
                ok = snap["epochs"] == [e for e, _ in kept] and snap["len"] == len(kept)
                ctx.oracle(f"{t}: epochs == multiples of p among fired epoch-ends", ok, {**cc, "at_segment": si},
                           detail={"epochs": snap["epochs"], "expected": [e for e, _ in kept]}, sig=f"{sig0}/{t}/schedule-oracle", theorem=f"C17_schedule_{t}")
                # indexed lookup agrees with the series, out of range raises
                n = len(kept)
                ser = dict((k, v) for k, v in snap["series"])
                okgv = True
                for nm, tab in snap["get_value"]:
                    if nm not in tracked:
                        continue
                    col = ser.get(nm, {}).get("ok")
                    if col is None or len(col) != n:
                        okgv = False
                        continue
                    for i, r in tab:
                        if -n <= i < n:
                            okgv &= r == {"ok": col[i]}
                        else:
                            okgv &= "error" in r           # raises (whatever the exception)
                ctx.oracle(f"{t}: get_value(name, i) == series[i] (python indexing), raises outside -n..n-1", okgv, {**cc, "at_segment": si},
                           sig=f"{sig0}/{t}/get_value-oracle", theorem="C17_records_get_value")
                try:
                    lastok = (snap["last"] == [[nm, ser[nm]["ok"][-1]] for nm in tracked]) if n else snap["last"] == []
                except (KeyError, IndexError):
                    lastok = False
                ctx.oracle(f"{t}: last == last record", lastok, {**cc, "at_segment": si}, detail={"last": snap["last"]},
                           sig=f"{sig0}/{t}/last-oracle", theorem="C17_records_*_run")
                if t == "metric":
                    exp = [[nm, {"ok": [metric_value(i, w, cb["offset"], rec.psig(w)) for _, w in kept]}] for i, nm in enumerate(cb["names"])]
                    got = [x for x in snap["series"] if x[0] in tracked]
                    ctx.oracle("metric: per-name arrays == values computed at those epochs", got == exp, {**cc, "at_segment": si},
                               detail={"got": got, "expected": exp}, sig=f"{sig0}/metric/series-oracle", theorem="C17_records_getitem")
                    if cb["log"]:
                        rows = [["epoch"] + cb["names"]] + [[str(e)] + [str(metric_value(i, w, cb["offset"], rec.psig(w))) for i in range(len(cb["names"]))] for e, w in allev]
                        ctx.oracle("metric: CSV == header + one row per evaluation", snap["log"] == rows, {**cc, "at_segment": si},
                                   detail={"got": snap["log"], "expected": rows}, sig=f"{sig0}/metric/csv-oracle", theorem="C17_records_metric_run")
                else:
                    names = tracked
                    if cb["log"]:
                        hdr = ["epoch"] + [f"{o}_{s}" for o in names for s in ("mean", "variance", "std_error")]
                        rows = [hdr] + [[str(e)] + [str(b.captured[w].get(o, {}).get(s, "<missing>")) for o in names for s in ("mean", "variance", "std_error")]
                                        for e, w in allev if w in b.captured]
                        ctx.oracle("observable: CSV == header + mean/variance/std_error per evaluation", snap["log"] == rows, {**cc, "at_segment": si},
                                   detail={"got": snap["log"][:4], "expected": rows[:4]}, sig=f"{sig0}/observable/csv-oracle", theorem="C17_records_observable_csv_row")
            elif t == "logger":
                # one message per scheduled epoch-end, emitted DURING that epoch-end (the text of the default message is not constrained)
                exp_at = [[w, e] for e, w in allev]
                okl = snap["acted"] == exp_at
                if not cb.get("default_msg"):
                    okl = okl and snap["out"] == [[w, e, "x", rec.psig(w)] for e, w in allev]
                ctx.oracle("logger: exactly one message during each epoch-end that is a multiple of p, none at any other time", okl, {**cc, "at_segment": si},
                           detail={"acted_at[world, epoch]": snap["acted"], "expected": exp_at, "messages": [str(m)[:60] for m in snap["out"][:4]]},
                           sig=f"{sig0}/logger/schedule-oracle", theorem="C17_schedule_logger")
            if seg.get("clear") and ci in seg["clear"]:
                kept = []
        if t == "metric":
            exp_calls = [metric_value(i, w, cb["offset"], rec.psig(w)) for _, w in allev for i in range(len(cb["names"]))]
            ctx.oracle("metric functions called exactly at the scheduled epoch-ends, in order", b.calls == exp_calls, cc,
                       detail={"calls": b.calls, "expected": exp_calls}, sig=f"{sig0}/metric/calls-oracle", theorem="C17_schedule_metric")
        elif t == "observable":
            ctx.oracle("system.statistics called exactly at the scheduled epoch-ends, in order", b.calls == [w for _, w in allev], cc,
                       detail={"calls": b.calls, "expected": [w for _, w in allev]}, sig=f"{sig0}/observable/calls-oracle", theorem="C17_schedule_observable")
        elif t == "saver":
            # expected files from ground truth alone
            exp = {}
            for evs in seg_events:
                for ev in evs:
                    if ev["k"] == "ts" and cb["save_initial"] is not False:      # None = constructor default = True
                        exp[cb["pre"] + "initial" + cb["post"]] = (ev["w"], 0)
                    if ev["k"] == "ee" and ev["e"] % p == 0:
                        exp[cb["pre"] + str(ev["e"]) + cb["post"]] = (ev["w"], ev["e"])
            files = sorted(os.listdir(b.folder))
            ok = files == sorted(exp)
            bad = None
            if ok:
                for name, (w, e) in exp.items():
                    if cb["metadata"] == "callable":
                        md = md_expected(b, rec, ["call", w, e])
                    elif cb["metadata"] == "dict":
                        md = dict(b.md)
                    else:
                        md = {}
                    if cb["metadata_only"]:
                        good, why = torch.load(os.path.join(b.folder, name), weights_only=False) == md, None
                    else:
                        # through the library: a fresh state `load`s the file and has the parameters of the recorder's snapshot of that event
                        good, why = file_loads_back(ctx, os.path.join(b.folder, name), case["kind"], rec.worlds[w], md, st)
                    if not good:
                        ok, bad = False, {"file": name, "why": why}
                        break
            ctx.oracle("saver: files named by epoch (+initial), each loads back to the parameters at that event with the metadata", ok, cc,
                       detail={"files": files, "expected": sorted(exp), "bad_file": bad}, sig=f"{sig0}/saver/oracle", theorem="C17_saver, C17_saver_file_overwrite, C17_saver_file_none")


# ---------------------------------------------------------------- generation
def gen_case(rng, kind, p1, thorough, idx):
    """one structured case around period p1 for the first metric evaluator"""
    others = [p for p in (1, 2, 3, 4) if p != p1]
    p2 = rng.choice(others)
    # NAMES: plain ones, names of the evaluators' own attributes / properties / methods, plural-looking and odd strings;
    # a metric called "epoch" together with a log file is a documented TypeError (malformed stream only)
    obs_classes = rng.choice([["SigmaZ"], ["SigmaZ", "SigmaX"], ["SigmaX", "SigmaZ", "SigmaX"]])
    if rng.random() < 0.35:
        obs = list(obs_classes)
    else:
        onames = draw_names(rng, "observable", len(obs_classes))
        if len(onames) == 3 and rng.random() < 0.6:
            onames[2] = onames[0]      # duplicated observable name: the later observable wins, the first position is kept
        obs = [[c, n_] for c, n_ in zip(obs_classes, onames)]
    def per():
        # periods 1..4 mostly; now and then a period longer than most runs (5..7: few or no scheduled epochs at all)
        return rng.choice([1, 2, 3, 4]) if rng.random() < 0.85 else rng.choice([5, 6, 7])
    cbs = [
        {"type": "metric", "period": p1, "names": draw_names(rng, "metric", rng.choice([1, 2, 3]), forbid=("epoch",)), "log": True,
         "offset": rng.randrange(0, 5), "logname": rng.choice(["log{}.csv", "log {}.csv", "l{}og{{0}}.csv"]), "verbose": rng.random() < 0.3},
        {"type": "metric", "period": p2, "names": draw_names(rng, "metric", rng.choice([1, 1, 2]), forbid=("epoch",)),
         "log": rng.random() < 0.5, "offset": rng.randrange(0, 5), "verbose": rng.random() < 0.2},
        {"type": "observable", "period": per(), "obs": obs, "log": rng.random() < 0.7,
         "extra_stats": rng.choice([[], [], ["bias"], ["data", "s", "means"], ["", "bias", "data"], ["s", "mean "]]), "verbose": rng.random() < 0.3},
        {"type": "saver", "period": per(), "pre": rng.choice(["m_", "ep", "run {a} ", "{0}x"]), "post": rng.choice([".pt", "", " {}.pt"]),
         "save_initial": rng.choice([True, True, False, None]), "metadata": rng.choice(["callable", "dict", "none"]), "metadata_only": rng.random() < 0.3},
        {"type": "logger", "period": per(), "default_msg": rng.random() < 0.3},
    ]
    rng.shuffle(cbs)
    nseg = rng.choice([1, 2, 2, 3]) if thorough else rng.choice([1, 2, 2])
    segs = []
    start = rng.choice([0, 1, 1, 2, -1]) if idx % 3 == 0 else 1
    for s in range(nseg):
        length = rng.choice([0, 3, 4, 5, 6, 8, 15])
        epochs = start + length - 1
        stop = None
        if length >= 2 and rng.random() < 0.5:
            e = rng.randrange(start, epochs + 1)
            k = rng.choice(["ee", "be", "bs", "es"])
            stop = {"k": k, "e": e}
            if k in ("be", "bs"):
                stop["b"] = rng.choice([0, 1])
        elif rng.random() < 0.1:
            stop = {"k": "ts"}
        clear = [i for i, cb in enumerate(cbs) if cb["type"] in ("metric", "observable") and rng.random() < 0.3]
        seg = {"start": start, "epochs": epochs, "stop": stop, "clear": clear}
        # a run started while the previous run's stop request is still set: fit returns before on_train_start
        if segs and segs[-1]["stop"] and not segs[-1].get("keep_stop") and rng.random() < 0.4:
            seg["keep_stop"] = True
            seg["stop"] = None
        segs.append(seg)
        start = rng.choice([1, epochs + 1, max(start, 1), 3])
    # seeds of the case's argument-form streams (qc.Flags / qc.Ints / call forms): drawn LAST, so the rest of the case is the one the
    # generator produced before this round for the same rng state
    return {"kind": kind, "seed": rng.randrange(1000), "cbs": cbs, "segments": segs,
            "fseed": rng.randrange(2 ** 31), "iseed": rng.randrange(2 ** 31)}


def malformed_cases(rng):
    base_seg = [{"start": 1, "epochs": 3, "stop": None, "clear": []}]
    yield {"kind": "pos", "seed": 1, "cbs": [{"type": "metric", "period": 0, "names": ["a"], "log": False, "offset": 0}], "segments": base_seg}
    yield {"kind": "pos", "seed": 1, "cbs": [{"type": "logger", "period": 0}], "segments": base_seg}
    yield {"kind": "pos", "seed": 1, "cbs": [{"type": "metric", "period": 1, "names": ["a", "epoch"], "log": True, "offset": 0}], "segments": base_seg}
    yield {"kind": "cplx", "seed": 1, "cbs": [{"type": "saver", "period": 2, "pre": "x", "post": "", "save_initial": False,
                                               "metadata": "dict", "reserved": True, "metadata_only": False}], "segments": base_seg}
    # the same reserved key is fine when only the metadata is stored
    yield {"kind": "cplx", "seed": 1, "cbs": [{"type": "saver", "period": 2, "pre": "x", "post": "", "save_initial": True,
                                               "metadata": "dict", "reserved": True, "metadata_only": True}], "segments": base_seg}
    # metric called "epoch" without a log file is harmless
    yield {"kind": "pos", "seed": 1, "cbs": [{"type": "metric", "period": 1, "names": ["a", "epoch"], "log": False, "offset": 0}], "segments": base_seg}


def gen_cases(ctx, thorough):
    rng = ctx.rng
    kinds = ["pos", "cplx", "dens"]
    reps = 12 if thorough else 2
    idx = 0
    for rep in range(reps):
        for p1 in (1, 2, 3, 4):
            for kind in kinds:
                yield gen_case(rng, kind, p1, thorough, idx)
                idx += 1
    yield from malformed_cases(rng)


# ---------------------------------------------------------------- verbose branches + names / columns (extension round 2)
# Callbacks.onEpochEndV / runV (order of effects: history appended, header printed, `{v:.6f}` formatting, line printed, CSV row written) and
# ObservableEvaluator.names / csvFields (C17_columns_of_names) against the REAL `on_epoch_end`, called directly on a scripted run:
# metric functions / `system.statistics` return scripted values of the kinds float, numpy.float64, 0-d tensor, int (formattable) and - in the
# `bad` stream - str / None / a 2-element tensor / a list (`{v:.6f}` raises).  Twins: the same script with the given `verbose` object
# (True, False, 1, numpy.True_, a 0-d numpy array, a 0-d tensor) and with verbose=False.
VERBOSE_OBJS = ["True", "False", "1", "np.True_", "np0d", "t0d"]
VALUE_KINDS = ["float", "npfloat", "tensor0", "int"]
BAD_KINDS = ["str", "None", "tensor2", "list"]
TH_VERB = "C17_verbose_irrelevant_when_formattable, C17_verbose_run_irrelevant_when_formattable, C17_verbose_irrelevant_when_formattable_observable"


class PatchRouteFailed(Exception):
    """the monkey-patched route into ObservableEvaluator (private attributes) could not be installed"""


def verbose_obj(tag):
    return {"True": True, "False": False, "1": 1, "np.True_": np.True_, "np0d": np.array(True), "t0d": torch.tensor(True)}[tag]


def verbose_flag_desc(tag):
    return {"True": {"form": 0, "value": 1}, "False": {"form": 0, "value": 0}, "1": {"form": 1, "value": 1}, "np.True_": {"form": 2, "value": 1},
            "np0d": {"form": 3, "value": 1}, "t0d": {"form": 4, "value": 1}}[tag]


def scripted_value(kind, x):
    if kind == "float":
        return float(x)
    if kind == "npfloat":
        return np.float64(x)
    if kind == "tensor0":
        return torch.tensor(float(x), dtype=torch.double)
    if kind == "int":
        return int(round(x * 4))
    return {"str": "n/a", "None": None, "tensor2": torch.tensor([float(x), 1.0], dtype=torch.double), "list": [float(x)]}[kind]


def value_canon(v):
    """JSON-able identity of a recorded value (kind + number)"""
    if isinstance(v, torch.Tensor):
        return ["tensor", [float(t) for t in v.reshape(-1).tolist()]]
    if isinstance(v, np.floating):
        return ["npfloat", float(v)]
    if isinstance(v, bool) or v is None or isinstance(v, str):
        return [type(v).__name__, v]
    if isinstance(v, (int, float)):
        return [type(v).__name__, v]
    if isinstance(v, list):
        return ["list", v]
    return [type(v).__name__, repr(v)]


def value_only(v):
    """audit 3 (B14): the VALUE that was recorded, whatever Python type carries it (C17 says the records agree with the VALUES computed at
    the epochs; the type of the stored object - float / numpy.float64 / 0-d tensor - is not constrained: compared with ctx.info only)"""
    if isinstance(v, torch.Tensor):
        l = [float(t) for t in v.reshape(-1).tolist()]
        return l[0] if v.dim() == 0 else l
    if isinstance(v, np.ndarray):
        l = [float(t) for t in v.reshape(-1).tolist()]
        return l[0] if v.ndim == 0 else l
    if isinstance(v, (np.floating, np.integer, np.bool_)):
        return float(v)
    if isinstance(v, (bool, int, float)):
        return float(v)
    if v is None or isinstance(v, str):
        return v
    if isinstance(v, (list, tuple)):
        return [value_only(x) for x in v]
    return repr(v)


def csv_by_name(rows):
    """audit 3 (B8): the CSV log as records keyed by the header's column names (column POSITION is not constrained by C17; rows stay in
    epoch order)"""
    if not rows:
        return []
    hdr = rows[0]
    return [sorted(hdr)] + [[len(r), sorted(zip(hdr, r))] for r in rows[1:]]


def csv_line(cells):
    """the text csv.DictWriter writes for these Python values"""
    buf = io.StringIO()
    csv.writer(buf).writerow(cells)
    return next(csv.reader(io.StringIO(buf.getvalue())))


def gen_verbose_case(rng, kind, stream):
    E = rng.randrange(2, 7)
    p = rng.choice([1, 1, 2, 3])
    nn = rng.randrange(1, 4)
    case = {"verbose_case": True, "kind": kind, "stream": stream, "period": p, "epochs": E, "log": rng.random() < 0.7,
            "verbose": rng.choice(["True", "True", "True"] + VERBOSE_OBJS), "start": rng.choice([1, 1, 2, 5])}
    if kind == "metric":
        case["names"] = rng.sample(["kl", "nll", "a b", "fid", "x"], nn)
        slots = [(n, None) for n in case["names"]]
    else:
        case["leaves"] = rng.sample([{"type": "SigmaX"}, {"type": "SigmaZ", "absolute": True}, {"type": "SigmaZ"}, {"type": "SWAP", "A": 1},
                                     {"type": "NI", "periodic": {"form": rng.choice(qc.FLAG_FORMS), "value": rng.random() < 0.5}, "c": rng.randrange(1, 3),
                                      "c_form": rng.choice(["py", "np.int64", "t0d"]), "pos": False},
                                     {"type": "user", "cls": "Energy", "set": []}, {"type": "user", "cls": "PlainLeaf", "set": [["name", "E x"]]}], nn)
        case["composite"] = rng.random() < 0.4     # one more observable: -leaf0 + 2 (named by the library)
        slots = [(i, st) for i in range(nn + (1 if case["composite"] else 0)) for st in ("mean", "variance", "std_error")]
    script = []
    for e in range(E):
        row = []
        for _ in slots:
            row.append([rng.choice(VALUE_KINDS), round(rng.gauss(0, 2), 3)])
        script.append(row)
    if stream == "bad":
        if rng.random() < 0.6:
            case["verbose"] = "True"            # the branch that formats (and raises)
        ev = [e for e in range(E) if (case["start"] + e) % p == 0] or [0]
        e = rng.choice(ev)
        script[e][rng.randrange(len(slots))][0] = rng.choice(BAD_KINDS)
    case["script"] = script
    return case


def verbose_case(ctx, case):
    from qucumber.callbacks import MetricEvaluator, ObservableEvaluator
    from . import c16
    kind, p, E, start = case["kind"], case["period"], case["epochs"], case["start"]
    epochs = [start + i for i in range(E)]
    sig = f"verbose/{kind}"
    ctx.case({k: v for k, v in case.items()}, nontrivial=E >= 3 and any(e % p == 0 for e in epochs),
             sample={"verbose_case": kind, "stream": case["stream"], "verbose": case["verbose"], "period": p, "epochs": E})
    ctx.count(f"verbose:{kind}:{case['stream']}:verbose={case['verbose']}:log={'on' if case['log'] else 'off'}")
    values = {}           # token -> Python value
    tok_of = {}

    def token(e_idx, slot):
        k, x = case["script"][e_idx][slot]
        key = (e_idx, slot)
        if key not in tok_of:
            tok_of[key] = len(tok_of) + 1
            values[tok_of[key]] = scripted_value(k, x)
            ctx.count(f"verbose:value kind={k}")
        return tok_of[key]
    cur = {"e": 0}
    tmp = tempfile.mkdtemp(prefix="qv_c17v_")
    try:
        def build(vobj, path):
            if kind == "metric":
                def mk(slot):
                    return lambda nn_state, **kw: values[token(cur["e"], slot)]
                return MetricEvaluator(p, {n: mk(i) for i, n in enumerate(case["names"])}, verbose=vobj, log=path), None
            built = [c16.make_named_leaf(sp) for sp in case["leaves"]]
            obs = [b[0] for b in built]
            idents = [b[1] for b in built]
            if case.get("composite"):
                obs.append(-obs[0] + 2)
            ev = ObservableEvaluator(p, obs, verbose=vobj, log=path, num_samples=10)
            # audit 3 (B8): `ev.system.observables` / `ev.system.statistics` are private layout: when this scripted route cannot be
            # installed (or is not the one the evaluator takes) the case is recorded with ctx.info and skipped, never an alarm
            try:
                keys = list(ev.system.observables.keys())
            except Exception as ex:  # noqa: BLE001
                raise PatchRouteFailed(type(ex).__name__)

            def scripted(nn_state, **kw):
                cur["scripted_calls"] = cur.get("scripted_calls", 0) + 1
                # what System.statistics returns: one dict per key, in key order; slot of observable i / statistic j = 3 i + j
                out = {}
                for k in keys:
                    i = [o.name for o in obs].index(k)
                    out[k] = {st: values[token(cur["e"], 3 * i + j)] for j, st in enumerate(("mean", "variance", "std_error"))}
                    out[k]["num_samples"] = 10
                return out
            try:
                ev.system.statistics = scripted
            except Exception as ex:  # noqa: BLE001
                raise PatchRouteFailed(type(ex).__name__)
            return ev, (obs, idents)

        def run(vobj, tag):
            path = os.path.join(tmp, f"log_{tag}.csv") if case["log"] else None
            # audit 3 (B7): constructed under try - a validating constructor (non-`bool` verbose forms are outside the documented `bool`)
            # must neither crash the harness nor alarm by itself
            try:
                ev, extra = build(vobj, path)
            except PatchRouteFailed as ex:
                return {"built": False, "patch": True, "exc": str(ex)}
            except Exception as ex:  # noqa: BLE001
                return {"built": False, "patch": False, "exc": type(ex).__name__}
            out, raised, at = io.StringIO(), None, None
            cur["scripted_calls"] = 0
            for i, e in enumerate(epochs):
                cur["e"] = i
                try:
                    with contextlib.redirect_stdout(out):
                        ev.on_epoch_end(None, e)
                except Exception as ex:  # noqa: BLE001
                    raised, at = type(ex).__name__, e
                    break
            rows = read_csv(path) if path else []
            # audit 3 (B14): the records are compared by VALUE; the Python type of the stored objects goes to ctx.info ("types")
            def canon_with(f):
                return (lambda d: {k: f(v) for k, v in d.items()}) if kind == "metric" else \
                    (lambda d: {k: {s: f(v) for s, v in sd.items()} for k, sd in d.items()})
            canon, tcanon = canon_with(value_only), canon_with(value_canon)
            try:
                state = {"len": len(ev), "epochs": [int(x) for x in ev.epochs], "last": canon(ev.last),
                         "past": [[int(ep), canon(d)] for ep, d in ev.past_values], "csv": rows}
                types = {"last": tcanon(ev.last), "past": [[int(ep), tcanon(d)] for ep, d in ev.past_values]}
            except Exception as ex:  # noqa: BLE001
                if kind == "observable":     # the scripted statistics' layout was not accepted: the patched route, not the property
                    return {"built": False, "patch": True, "exc": type(ex).__name__}
                raise
            return {"built": True, "ev": ev, "extra": extra, "state": state, "types": types, "stdout": out.getvalue(), "raised": raised, "at": at,
                    "scripted_calls": cur.get("scripted_calls", 0)}
        V = run(verbose_obj(case["verbose"]), "v")
        Q = run(False, "q")
    finally:
        shutil.rmtree(tmp, ignore_errors=True)
    # audit 3 (B7): `verbose` is documented `bool`; the other forms (1, np.True_, 0-d array / tensor) are outside the documented forms:
    # everything that depends on the run with such an object is recorded with ctx.info only
    bool_form = case["verbose"] in ("True", "False")
    # audit 3 (A): the whole-stream theorem C17_verbose_run_irrelevant_when_formattable is about the MetricEvaluator model only
    th_v = TH_VERB if kind == "metric" else "C17_verbose_irrelevant_when_formattable_observable"
    if not Q["built"] or not V["built"]:
        bad = Q if not Q["built"] else V
        if bad.get("patch"):
            ctx.info(f"verbose/{kind}: scripted route into the evaluator (private attributes) could be installed", bad["exc"], None)
        elif bad is V and Q["built"] and not bool_form:
            ctx.info(f"verbose/{kind}: evaluator constructed with a non-bool verbose object ({case['verbose']})", bad["exc"], None)
        else:
            ctx.oracle("the evaluator can be constructed from its documented arguments (verbose a bool)", False, case,
                       detail={"raised": bad["exc"]}, sig=f"{sig}/constructible", theorem=th_v)
        return
    # formattability of every value that was computed (the interpreter's `format(v, ".6f")`: an input of the model)
    fmt = []
    all_ok = True
    for t, v in values.items():
        try:
            fmt.append([t, format(v, ".6f"), None])
        except Exception as ex:  # noqa: BLE001
            fmt.append([t, None, type(ex).__name__ if type(ex).__name__ in ("TypeError", "ValueError") else "TypeError"])
            all_ok = False
    if kind == "observable":
        fmt.append([-10, format(10, ".6f"), None])       # num_samples
    scheduled = [e for e in epochs if e % p == 0]
    if kind == "observable":
        # audit 3 (B8): the scripted `system.statistics` is a private route: if the evaluator did not take it (never called although an
        # evaluation was due) or the QUIET run (verbose=False, formattable values: nothing the model lets fail) raised, the route failed ->
        # recorded, dependent points skipped
        route_ok = not (scheduled and Q["scripted_calls"] == 0) and not (all_ok and Q["raised"] is not None)
        ctx.info(f"verbose/{kind}: scripted route into the evaluator (private attributes) taken", route_ok, True)
        if not route_ok:
            return
    # ---- oracles on the implementation (twins)
    if Q["raised"] is None and all_ok:
        twins_ok = V["raised"] is None and V["state"] == Q["state"]
        if bool_form:
            ctx.oracle("verbose on/off twins: same records (len, epochs, last, history, CSV rows), no exception, whenever every value is formattable",
                       twins_ok, case,
                       detail={"verbose": {k: V[k] for k in ("state", "raised", "at")}, "quiet": Q["state"]}, sig=f"{sig}/twins", theorem=th_v)
        else:   # non-bool verbose object: outside the documented forms -> info
            ctx.info(f"verbose/{kind}: twins with a non-bool verbose object", twins_ok, True)
        # audit 3 (B14): Python type of the stored values (verbose on / off): recorded only
        ctx.info(f"verbose/{kind}: twins store the same Python types", V["types"], Q["types"])
    else:
        ctx.count(f"verbose:unformattable value met ({kind}): outside the property's values, effects recorded only (info)")
    if ctx.driver is None:
        return
    # ---- model
    args = dict(kind=kind, period=p, log=bool(case["log"]), verbose=verbose_flag_desc(case["verbose"]), fmt=fmt,
                events=[{"k": "ee", "e": e, "w": i} for i, e in enumerate(epochs)])
    nslots = len(case["script"][0])
    tk = lambda i, s: tok_of.get((i, s), 0)  # noqa: E731
    if kind == "metric":
        args["vals"] = [[n, [tk(i, s) for i in range(E)]] for s, n in enumerate(case["names"])]
    else:
        obs, idents = V["extra"]
        mnames = []
        for i, o in enumerate(obs):
            if i < len(idents):
                mm = ctx.driver.call("c16.names", leaves=[idents[i]], expr=["leaf", 0])
            else:
                mm = ctx.driver.call("c16.names", leaves=[idents[0]], expr=["add", ["neg", ["leaf", 0]], ["const", "int", 2]])
            mnames.append(mm.get("name"))
        inames = [o.name for o in obs]
        # audit 3 (B1): what an observable is CALLED is not constrained by C17 (nor C13 / C16): the model's names are recorded only, and the
        # Lean op is fed the IMPLEMENTATION's names (o.name as given) so nothing below depends on how observables are called
        ctx.info(f"{sig}/obs-names: names of the observables handed to the evaluator vs the model's names", inames, mnames)
        args["obs"] = inames
        keys = []
        for n in inames:
            if n not in keys:
                keys.append(n)
        args["stats"] = [[[k, [[st, tk(i, 3 * inames.index(k) + j)] for j, st in enumerate(("mean", "variance", "std_error"))]
                              + [["num_samples", -10]]] for k in keys] for i in range(E)]
        # duplicates: System keeps the LAST observable given with a name; the scripted statistics use the FIRST index of the name for the slot
    m = ctx.driver.call("c17.verbose", **args)
    val = lambda t: 10 if t == -10 else values.get(t)  # noqa: E731
    ev = V["ev"]
    # a value `{v:.6f}` cannot format is outside the property's values; a non-bool verbose object is outside the documented forms: info then
    lvl = "property" if (all_ok and bool_form) else "info"
    th = th_v
    # effects when EVERY value is formattable: property level.  With a value `{v:.6f}` cannot format (outside the property's values) the
    # partial effects left behind are recorded only (info), and so is everything printed: wording / chunking of stdout is not constrained
    def pt(name, impl, model, sg):
        if lvl == "property":
            ctx.point(name, "property", impl, model, case, exact=True, theorem=th, sig=f"{sig}/{sg}")
        elif not bool_form:
            ctx.info(f"verbose/{kind}/non-bool verbose object: {name}", impl, model)
        else:
            ctx.info(f"verbose/{kind}/unformattable value: {name}", impl, model)
    # audit 3 (B8): the SET of names is what the per-name records are keyed by (property); the POSITION of a name / CSV column is not
    # constrained by C17 (with duplicate names the docs only say the later one takes precedence): order recorded with ctx.info
    pt("evaluator.names (as a set)", sorted(ev.names), sorted(m["names"]), "names")
    ctx.info(f"{sig}/names: order of evaluator.names", list(ev.names), m["names"])
    # `csv_fields` is an undocumented attribute: recorded only (the header of the CSV FILE is compared below, keyed by name)
    ctx.info(f"{sig}/fields: csv_fields (header of the CSV log)", list(getattr(ev, "csv_fields", None) or []), m["fields"])
    pt("raised (an exception left on_epoch_end)", V["raised"] is not None, m["err"] is not None, "raised")
    pt("len and epochs", [V["state"]["len"], V["state"]["epochs"]], [m["len"], m["epochs"]], "epochs")
    # audit 3 (B14): last / past_values by VALUE (value_only); the Python type of what is stored is recorded only
    if kind == "metric":
        mk = lambda f: ({k: f(val(t)) for k, t in m["last"]}, [[e, {k: f(val(t)) for k, t in d}] for e, d in m["past"]])  # noqa: E731
    else:
        mk = lambda f: ({k: {s: f(val(t)) for s, t in sd} for k, sd in m["last"]},  # noqa: E731
                        [[e, {k: {s: f(val(t)) for s, t in sd} for k, sd in d}] for e, d in m["past"]])
    mlast, mpast = mk(value_only)
    tlast, tpast = mk(value_canon)
    pt("last", V["state"]["last"], mlast, "last")
    pt("past_values", V["state"]["past"], mpast, "past")
    ctx.info(f"verbose/{kind}: Python types of the stored values (last, past_values)", [V["types"]["last"], V["types"]["past"]], [tlast, tpast])
    mrows = [csv_line([c["t"] if "t" in c else c["i"] if "i" in c else "" if "b" in c else val(c["v"]) for c in row]) for row in m["log"]]
    # audit 3 (B8): CSV compared as records keyed by column name, rows in epoch order; column order recorded only
    pt("CSV rows (header names + one row per completed evaluation, cells by column name)", csv_by_name(V["state"]["csv"]), csv_by_name(mrows), "csv")
    ctx.info(f"verbose/{kind}: CSV column order", V["state"]["csv"][:1], mrows[:1])
    ctx.info(f"verbose/{kind}: stdout (header / formatted line per evaluation, in order)", V["stdout"], "".join(m["out"]))
    if lvl != "property":
        ctx.count(f"verbose:partial effects recorded ({kind}; raised={V['raised']})")


def verbose_cases(ctx, n):
    for i in range(n):
        kind = "metric" if i % 2 == 0 else "observable"
        stream = "bad" if i % 4 >= 2 else "formattable"
        verbose_case(ctx, gen_verbose_case(ctx.rng, kind, stream))


# ---------------------------------------------------------------- Logger: msg_gen fallback and logger_fn branches (extension round 2)
# Callbacks.Logger.new / stepFn / runFn; theorems C17_logger_msg_gen_fallback, C17_logger_fn_branches.
NONCALLABLE_OBJS = {"str": "not a function", "int": 7, "dict": {"a": 1}, "none": None, "list": [1, 2]}


def logger_fn_case(ctx, case):
    """a REAL fit of a tiny positive state with ONE Logger: msg_gen omitted / callable / a non-callable object, logger_fn omitted (print, stdout
    captured) / callable (recorded) / a non-callable object; the model gets the epoch ends of the run"""
    import contextlib
    import io

    from qucumber.callbacks import Logger
    from qucumber.nn_states import PositiveWaveFunction
    torch.manual_seed(case["tseed"])
    st = PositiveWaveFunction(2, 2, gpu=False)
    data = torch.tensor([[0, 1], [1, 0], [1, 1], [0, 0]], dtype=torch.double)
    handed = []
    kw = dict(case["kwargs"])
    args = {}
    if case["msg"] == "callable":
        args["msg_gen"] = lambda nn_state, epoch, **k: "gen " + str(epoch)
    elif case["msg"] == "noncallable":
        args["msg_gen"] = NONCALLABLE_OBJS[case["msg_obj"]]
    if case["fn"] == "callable":
        args["logger_fn"] = handed.append
    elif case["fn"] == "noncallable":
        args["logger_fn"] = NONCALLABLE_OBJS[case["fn_obj"]]
    # audit 3 (B7): msg_gen is documented `callable`: with a non-callable object a validating constructor may refuse -> constructed under
    # try; for that form everything is recorded with ctx.info only
    msg_documented = case["msg"] != "noncallable"
    try:
        lg = Logger(case["period"], **args, **kw)
    except Exception as e:  # noqa: BLE001
        if not msg_documented or case["fn"] == "noncallable":
            ctx.info("logger_fn: Logger constructed with a non-callable msg_gen / logger_fn", type(e).__name__, None)
            ctx.case({"logger_fn": {k: case[k] for k in ("period", "msg", "fn", "msg_obj", "fn_obj", "start", "epochs", "kwargs")}}, nontrivial=False)
            return
        raise
    buf = io.StringIO()
    raised = None
    with contextlib.redirect_stdout(buf):
        try:
            st.fit(data, epochs=case["epochs"], pos_batch_size=2, neg_batch_size=2, k=1, lr=0.01, starting_epoch=case["start"], callbacks=[lg])
        except Exception as e:  # noqa: BLE001
            raised = type(e).__name__
    text = buf.getvalue()
    printed = [] if text == "" else (text.split("\n")[:-1] if text.endswith("\n") else ["<unterminated>"] + text.split("\n"))
    fired = list(range(case["start"], case["epochs"] + 1))
    sched = [e for e in fired if e % case["period"] == 0]
    ctx.count(f"logger_fn:msg={case['msg']}/fn={case['fn']}/scheduled={'some' if sched else 'none'}")
    sig = f"C17/logger_fn/{case['msg']}/{case['fn']}"
    cs = dict(case)
    # property oracle on the implementation: one emission per scheduled epoch, none at any other time (only where something CAN be emitted)
    if case["fn"] != "noncallable":
        got = handed if case["fn"] == "callable" else printed
        other = printed if case["fn"] == "callable" else handed
        count_ok = raised is None and len(got) == len(sched) and other == []
        if msg_documented:
            ctx.oracle("logger: exactly one message per epoch that is a multiple of p (print -> one stdout line each), nothing elsewhere",
                       count_ok, cs, {"raised": raised, "got": got, "other": other, "scheduled": sched},
                       sig=sig + "/count-oracle", theorem="C17_logger_fn_branches")
        else:   # audit 3 (B7): non-callable msg_gen is outside the documented `callable`: what the run does then is recorded only
            ctx.info("logger_fn: non-callable msg_gen: one message per scheduled epoch (fallback to the default message)", count_ok, True)
        if case["msg"] == "callable":
            ctx.oracle("logger: the messages are msg_gen(state, e) of the scheduled epochs, in order", got == ["gen " + str(e) for e in sched], cs,
                       {"got": got}, sig=sig + "/epochs-oracle", theorem="C17_logger_fn_branches, C17_logger_msg_gen_fallback")
    if ctx.driver is not None:
        m = ctx.driver.call("c17.logger_fn", period=case["period"], msg=case["msg"], fn=case["fn"], kwargs_repr=str(kw), epochs=fired)
        if case["fn"] != "noncallable" and not msg_documented:
            # audit 3 (B7): non-callable msg_gen (malformed input): model's fallback compared for the record only
            ctx.info("logger_fn: non-callable msg_gen: number of messages handed / lines printed", [len(handed), len(printed), raised is not None],
                     [len(m["handed"]), len(m["printed"]), m["err"] is not None])
            ctx.info("logger_fn: non-callable msg_gen: message texts (handed, printed)", [handed, printed], [m["handed"], m["printed"]])
        elif case["fn"] != "noncallable":
            ctx.point("logger_fn: number of messages handed / lines printed", "property", [len(handed), len(printed), raised is not None],
                      [len(m["handed"]), len(m["printed"]), m["err"] is not None], cs, exact=True, sig=sig + "/count", theorem="C17_logger_fn_branches")
            if case["msg"] == "callable":
                ctx.point("logger_fn: message texts (handed, printed)", "property", [handed, printed], [m["handed"], m["printed"]], cs, exact=True,
                          sig=sig + "/text", theorem="C17_logger_fn_branches, C17_logger_msg_gen_fallback")
            else:   # the TEXT of the default message is not in the property: recorded only
                ctx.info("logger_fn: default message texts (handed, printed)", [handed, printed], [m["handed"], m["printed"]])
        else:
            # a logger_fn that cannot be called: the property does not say what happens -> recorded only
            ctx.info("logger_fn non-callable: run refused iff a scheduled epoch end occurs; nothing emitted", [raised is not None, handed, printed],
                     [m["err"] is not None, m["handed"], m["printed"]])
    ctx.case({"logger_fn": {k: case[k] for k in ("period", "msg", "fn", "msg_obj", "fn_obj", "start", "epochs", "kwargs")}}, nontrivial=bool(sched),
             sample={"logger_fn": case["fn"], "msg": case["msg"], "scheduled": sched})


def gen_logger_fn(rng):
    start = rng.choice([1, 1, 2, 3])
    return {"logger_fn_case": True, "period": rng.choice([1, 2, 2, 3, 4, 7]), "msg": rng.choice(["omitted", "callable", "noncallable", "noncallable"]),
            "fn": rng.choice(["print", "print", "callable", "noncallable"]), "msg_obj": rng.choice(["str", "int", "dict", "list"]),
            "fn_obj": rng.choice(["str", "int", "none", "dict"]), "start": start, "epochs": start + rng.choice([0, 1, 3, 5]),
            "kwargs": rng.choice([{}, {"tag": "x"}, {"a": 1, "b": "two"}]), "tseed": rng.randrange(1, 2 ** 31)}


def logger_fn_cases(ctx, count):
    fixed = [
        {"period": 2, "msg": "noncallable", "msg_obj": "str", "fn": "print", "fn_obj": "none", "start": 1, "epochs": 5, "kwargs": {"tag": "x"}},
        {"period": 1, "msg": "omitted", "msg_obj": "str", "fn": "print", "fn_obj": "none", "start": 1, "epochs": 3, "kwargs": {}},
        {"period": 3, "msg": "callable", "msg_obj": "str", "fn": "print", "fn_obj": "none", "start": 2, "epochs": 7, "kwargs": {}},
        {"period": 2, "msg": "callable", "msg_obj": "str", "fn": "callable", "fn_obj": "none", "start": 1, "epochs": 4, "kwargs": {"a": 1}},
        {"period": 2, "msg": "omitted", "msg_obj": "str", "fn": "noncallable", "fn_obj": "none", "start": 1, "epochs": 4, "kwargs": {}},
        {"period": 4, "msg": "noncallable", "msg_obj": "int", "fn": "noncallable", "fn_obj": "str", "start": 1, "epochs": 3, "kwargs": {}},
    ]
    for c in fixed:
        logger_fn_case(ctx, dict(c, logger_fn_case=True, tseed=11))
    for _ in range(count):
        logger_fn_case(ctx, gen_logger_fn(ctx.rng))


def run(ctx):
    ctx.rule = RULE
    if ctx.driver is not None:
        words = ["means", "mean", "s", "", "std_errors", "num_samples", "variancess", "S"]
        got = ctx.driver.call("c17.strip", names=words)
        ctx.point("stripPlural", "aux", [w[:-1] if w.endswith("s") else w for w in words], got, {"words": words}, exact=True, sig="C17/stripPlural")
    own_sanity(ctx)
    format_spec_cases(ctx)
    appended_log_cases(ctx)
    verbose_cases(ctx, 120 if ctx.tier == "thorough" else 32)
    for case in gen_cases(ctx, ctx.tier == "thorough"):
        run_case(ctx, case)
    logger_fn_cases(ctx, 120 if ctx.tier == "thorough" else 40)   # last: the older seeded streams are unchanged


def format_spec_cases(ctx, forms=True):
    """`file_name` with a format SPEC (outside the model, whose file names are `pre{}post`): `"m{:03d}.pt"` names the epoch files
    `m002.pt`, …, each loads back to the parameters at the end of that epoch; the "initial" save (`"{:03d}".format("initial")`) is a
    ValueError at train start — the recorded behaviour of `str.format`, so such a pattern needs `save_initial=False`."""
    from qucumber.callbacks import ModelSaver
    for idx, save_initial in enumerate((False, True, None)):
        tmp = tempfile.mkdtemp(prefix="qv_c17f_")
        case = {"format_spec": "m{:03d}.pt", "save_initial": save_initial}
        if forms:
            # fixed form seeds (the three cases are not random): period / save_initial / fit's integers in non-plain forms too;
            # `forms=False` (replay of a case stored before this round): plain Python values
            case.update(fseed=1700 + idx, iseed=1701 + 2 * idx)
        fm = Forms(ctx, {**case, "segments": []})
        try:
            st, data, bases = make_state("pos", 3)
            rec = Recorder()
            kw = {} if save_initial is None else {"save_initial": fm.flag("saver.save_initial", save_initial)[0]}
            saver = ModelSaver(fm.period("saver", 2), os.path.join(tmp, "f"), "m{:03d}.pt", **kw)
            err = None
            try:
                st.fit(data, epochs=fm.integer("fit.epochs", 5, NO_UINT8), pos_batch_size=fm.integer("fit.pos_batch_size", 4, NO_UINT8),
                       k=fm.integer("fit.k", 1), lr=0.05, callbacks=[rec, saver])
            except Exception as e:  # noqa: BLE001
                err = type(e).__name__
            files = sorted(os.listdir(os.path.join(tmp, "f")))
            ctx.case(case, nontrivial=True)
            ctx.count("saver.file_name_with_format_spec")
            if save_initial is False:
                ok = err is None and files == ["m002.pt", "m004.pt"]
                if ok:
                    for ev in rec.events:
                        if ev["k"] == "ee" and ev["e"] % 2 == 0:
                            ok = ok and file_loads_back(ctx, os.path.join(tmp, "f", "m%03d.pt" % ev["e"]), "pos", rec.worlds[ev["w"]], {}, st)[0]
                ctx.oracle("saver: a format spec in file_name formats the epoch; files load back to the parameters at that epoch's end", ok, case,
                           detail={"error": err, "files": files}, sig="C17/saver/format-spec", theorem="C17_saver (file naming is str.format: assumed)")
            else:
                # an integer format spec cannot format the word "initial": what then happens (the clean code: ValueError at train start, nothing
                # saved) is not something the property speaks about - counted, not compared
                ctx.count(f"info.saver.format-spec+initial-save={'raised(' + err + ')' if err else 'accepted'}, files={len(files)}")
        finally:
            shutil.rmtree(tmp, ignore_errors=True)


def appended_log_cases(ctx):
    """a log file that ALREADY EXISTS when the evaluator is built (audit2-4 C17-3: re-running a script; a second evaluator given the path of an
    earlier one). The library opens the file in append mode and writes a (second) header. The property's "the CSV log agrees with the values
    computed at those epochs in order" can then only speak about what THIS evaluator appended: the rows after its header (if the implementation
    writes no second header: the last rows of the file) are exactly one row per evaluation, in order. Whether the earlier content is kept and
    whether a second header is written is counted, not compared. Oracle on the implementation only (C17_records_metric_run /
    C17_records_observable_run are stated for an ARBITRARY list of old rows: log = old rows ++ one row per evaluation)."""
    from qucumber.callbacks import MetricEvaluator, ObservableEvaluator
    from qucumber.observables import SigmaX, SigmaZ
    variants = ["metric/prefilled-by-hand", "metric/second-evaluator-same-path", "observable/second-evaluator-same-path", "metric/prefilled-same-header"]
    for vi, variant in enumerate(variants):
        case = {"appended_log": variant, "aseed": 40 + vi}
        r = random.Random(case["aseed"] * 7919)     # fixed cases (not drawn from ctx.rng): the replay re-runs all of them
        p1, p2 = r.choice([1, 2, 3]), r.choice([1, 2, 3])
        e1, e2 = r.choice([3, 4, 5]), r.choice([4, 6, 7])
        tmp = tempfile.mkdtemp(prefix="qv_c17a_")
        try:
            path = os.path.join(tmp, "shared log.csv")
            st, data, bases = make_state("pos", 5 + vi)
            rec = Recorder()
            err = None
            captured = {}

            def mk(idx):
                return lambda nn_state, **kw: metric_value(idx, rec.cur, 0, 0)

            def wrap_stats(ev):
                orig = ev.system.statistics

                def wrapped(nn_state, *a, **k):
                    res = orig(nn_state, *a, **k)
                    captured[rec.cur] = res
                    return res
                ev.system.statistics = wrapped

            def fit(cbs, start, epochs):
                with contextlib.redirect_stdout(io.StringIO()), contextlib.redirect_stderr(io.StringIO()):
                    st.fit(data, epochs=epochs, starting_epoch=start, pos_batch_size=4, k=1, lr=0.05, callbacks=[rec] + cbs)
            names2 = ["kl", "a b"] if variant != "metric/prefilled-same-header" else ["nll"]
            try:
                if variant == "metric/prefilled-by-hand":
                    before = "epoch,old metric\r\n1,0.5\r\n2,0.25\r\n"
                    with open(path, "w", newline="") as f:
                        f.write(before)
                elif variant == "metric/prefilled-same-header":
                    before = "epoch,nll\r\n1,7\r\n"
                    with open(path, "w", newline="") as f:
                        f.write(before)
                elif variant == "metric/second-evaluator-same-path":
                    fit([MetricEvaluator(p1, {"nll": mk(0)}, log=path)], 1, e1)
                else:
                    ev1 = ObservableEvaluator(p1, [SigmaZ()], log=path, num_samples=6, burn_in=2, steps=1)
                    fit([ev1], 1, e1)
                n_before = len(read_csv(path))
                start2 = 1 if variant.startswith("metric/prefilled") else e1 + 1
                n0 = len(rec.events)
                if variant.startswith("metric"):
                    ev2 = MetricEvaluator(p2, {nm: mk(i + 1) for i, nm in enumerate(names2)}, log=path)
                    fit([ev2], start2, start2 + e2 - 1)
                    hdr = ["epoch"] + names2
                    exp = [[str(ev["e"])] + [str(metric_value(i + 1, ev["w"], 0, 0)) for i in range(len(names2))]
                           for ev in rec.events[n0:] if ev["k"] == "ee" and ev["e"] % p2 == 0]
                else:
                    ev2 = ObservableEvaluator(p2, [SigmaX(), SigmaZ()], log=path, num_samples=6, burn_in=2, steps=1)
                    wrap_stats(ev2)
                    fit([ev2], start2, start2 + e2 - 1)
                    onames = ["SigmaX", "SigmaZ"]
                    hdr = ["epoch"] + [f"{o}_{s_}" for o in onames for s_ in ("mean", "variance", "std_error")]
                    exp = [[str(ev["e"])] + [str(captured[ev["w"]][o][s_]) for o in onames for s_ in ("mean", "variance", "std_error")]
                           for ev in rec.events[n0:] if ev["k"] == "ee" and ev["e"] % p2 == 0 and ev["w"] in captured]
                rows = read_csv(path)
            except Exception as e:  # noqa: BLE001
                err = f"{type(e).__name__}: {str(e)[:120]}"
            ctx.case(case, nontrivial=True)
            ctx.count(f"appended-log.{variant}")
            if err is not None:
                ctx.oracle("an evaluator given the path of a log file that already exists evaluates and logs as with a fresh file", False, case,
                           detail={"raised": err}, sig=f"C17/appended-log/{variant}", theorem="C17_records_metric_run, C17_records_observable_run")
                continue
            hpos = [i for i, row in enumerate(rows) if row == hdr and i >= (n_before if variant != "metric/prefilled-same-header" else 1)]
            if hpos:
                suffix = rows[hpos[-1] + 1:]
            else:
                suffix = rows[len(rows) - len(exp):] if exp else []
            ctx.count("info.appended-log.second-header=" + ("written" if hpos else "absent"))
            ctx.count("info.appended-log.earlier-content-kept=" + ("yes" if len(rows) >= n_before + len(exp) else "no"))
            ctx.oracle("log file that already existed: the rows appended by this evaluator (after its header) == one row per evaluation, values computed "
                       "at those epochs, in order", suffix == exp and len(exp) > 0, case,
                       detail={"appended": suffix[:4], "expected": exp[:4], "rows_in_file": len(rows), "rows_before": n_before, "period": p2},
                       sig=f"C17/appended-log/{variant}", theorem="C17_records_metric_run, C17_records_observable_run (old rows arbitrary)")
        finally:
            shutil.rmtree(tmp, ignore_errors=True)


def own_sanity(ctx):
    """bookkeeping only: how many of the names the generator draws collisions from (`OWN`) are in fact resolved by normal lookup on the
    live objects. No comparison: which attributes / helper methods the classes have is not constrained by the property."""
    for kind in ("metric", "observable", "stats"):
        live = set(own_names(kind))
        ctx.count(f"own_names[{kind}].pool_names_live", sum(1 for n in OWN[kind] if n in live))
        ctx.count(f"own_names[{kind}].pool_names_not_live", sum(1 for n in OWN[kind] if n not in live))


def search(ctx):
    drv, ctx.driver = ctx.driver, None
    try:
        format_spec_cases(ctx)
        appended_log_cases(ctx)
        verbose_cases(ctx, 120)
        for case in gen_cases(ctx, True):
            run_case(ctx, case)
        logger_fn_cases(ctx, 120)
    finally:
        ctx.driver = drv


def replay(ctx, case):
    if case.get("logger_fn_case"):
        logger_fn_case(ctx, case)
        return
    if case.get("verbose_case"):
        verbose_case(ctx, case)
        return
    if "format_spec" in case:
        format_spec_cases(ctx, forms="fseed" in case or "iseed" in case)
        return
    if "appended_log" in case:
        appended_log_cases(ctx)
        return
    case = {k: v for k, v in case.items() if k not in ("at_segment", "callback", "file", "detail", "raised", "model_error")}
    run_case(ctx, case)
