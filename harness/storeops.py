"""Shared engine of the C11 / C20 harnesses: executes histories of operations on REAL qucumber objects
(states, RBM modules, metadata dicts, files in a scratch directory), canonicalises what can be observed
(storage identity classes via data_ptr(), shapes, contents tokens, file contents, error kinds) and builds the
same history for the Lean heap model (`QV.Store`, driver ops `c11.run` / `c20.run`).

Tokens: contents of a tensor -> small integer by hashing its bytes with first-occurrence numbering
(0 = all-zero bytes, 1,2,3 = the default X, Y, Z unitaries); metadata values -> tokens of their deep structure.
"""
import contextlib
import copy
import os
import pickle
import shutil
import tempfile

import numpy as np

from . import argforms as af
from . import qc
from .qc import BinaryRBM, ComplexWaveFunction, DensityMatrix, PositiveWaveFunction, PurificationRBM, torch

from qucumber.callbacks import ModelSaver  # noqa: E402
from qucumber.utils import unitaries  # noqa: E402

KINDS = {"pos": PositiveWaveFunction, "cplx": ComplexWaveFunction, "dens": DensityMatrix}
NETS = {"pos": ["rbm_am"], "cplx": ["rbm_am", "rbm_ph"], "dens": ["rbm_am", "rbm_ph"]}
NETKIND = {"pos": "binary", "cplx": "binary", "dens": "purif"}
OPTIMS = {
    "sgd": (torch.optim.SGD, {}),
    "sgdm": (torch.optim.SGD, {"momentum": 0.9, "weight_decay": 0.05}),
    "nest": (torch.optim.SGD, {"momentum": 0.8, "weight_decay": 0.01, "nesterov": True}),
    "adam": (torch.optim.Adam, {}),
    "adamwd": (torch.optim.Adam, {"weight_decay": 0.1}),
    # "any optimizer" (C20 audit item 1): every torch.optim class `fit` can drive (step() without closure, dense gradients)
    "adadelta": (torch.optim.Adadelta, {}),                       # the optimizer of the repo's own DensityMatrix tutorial
    "adadelta_wd": (torch.optim.Adadelta, {"rho": 0.8, "weight_decay": 0.1}),
    "rmsprop": (torch.optim.RMSprop, {}),
    "rmsprop_mcw": (torch.optim.RMSprop, {"momentum": 0.9, "centered": True, "weight_decay": 0.1}),
    "adagrad": (torch.optim.Adagrad, {}),
    "adagrad_wd": (torch.optim.Adagrad, {"weight_decay": 0.1, "lr_decay": 0.1, "initial_accumulator_value": 0.5}),
    "adamw": (torch.optim.AdamW, {}),
    "adamw_ams": (torch.optim.AdamW, {"amsgrad": True, "weight_decay": 0.3}),
    "adamax": (torch.optim.Adamax, {"weight_decay": 0.1}),
    "nadam": (torch.optim.NAdam, {}),
    "nadam_dwd": (torch.optim.NAdam, {"weight_decay": 0.1, "decoupled_weight_decay": True}),
    "adam_ams": (torch.optim.Adam, {"amsgrad": True, "weight_decay": 0.1}),
    "sgd_max": (torch.optim.SGD, {"maximize": True, "momentum": 0.5, "weight_decay": 0.1}),
    "adam_max": (torch.optim.Adam, {"maximize": True}),
    "radam": (torch.optim.RAdam, {"weight_decay": 0.1}),
    "rprop": (torch.optim.Rprop, {}),
    "asgd": (torch.optim.ASGD, {"weight_decay": 0.1, "t0": 0}),
    "sgd_foreach": (torch.optim.SGD, {"foreach": True, "momentum": 0.9, "weight_decay": 0.05}),
    "adam_foreach": (torch.optim.Adam, {"foreach": True, "weight_decay": 0.1}),
    # audit2-4 C20-1: classes / kernels of the installed torch (2.14) that `fit` can drive and the list above predates
    "adafactor": (torch.optim.Adafactor, {}),                     # row/column-factored second moment, own relative step
    "adafactor_wd": (torch.optim.Adafactor, {"weight_decay": 0.1}),
    "sgd_fused": (torch.optim.SGD, {"fused": True, "momentum": 0.9, "weight_decay": 0.05}),
    "adam_fused": (torch.optim.Adam, {"fused": True, "weight_decay": 0.1}),
    "adamw_fused": (torch.optim.AdamW, {"fused": True}),
}
# learning-rate schedulers for `fit(scheduler=…, scheduler_args=…)` (op field "sched")
SCHEDULERS = {
    "steplr": (torch.optim.lr_scheduler.StepLR, {"step_size": 1, "gamma": 0.5}),
    "explr": (torch.optim.lr_scheduler.ExponentialLR, {"gamma": 0.7}),
}


class Tokens:
    def __init__(self):
        self.tab = {}
        self.next = 4
        d = unitaries.create_dict()
        for i, k in enumerate("XYZ"):
            self.tab[self._tkey(d[k])] = i + 1

    @staticmethod
    def _tkey(t):
        t = t.detach().cpu().contiguous()
        return ("T", str(t.dtype), tuple(t.shape), t.numpy().tobytes())

    def _num(self, key):
        if key not in self.tab:
            self.tab[key] = self.next
            self.next += 1
        return self.tab[key]

    def tensor(self, t):
        key = self._tkey(t)
        b = key[3]
        if b.count(0) == len(b):
            return 0
        return self._num(key)

    def canon(self, v):
        if isinstance(v, torch.Tensor):
            return self._tkey(v)
        if isinstance(v, dict):
            return ("D", type(v).__name__, tuple((self.canon(k), self.canon(x)) for k, x in v.items()))
        if isinstance(v, (list, tuple)):
            return (type(v).__name__, tuple(self.canon(x) for x in v))
        return ("S", type(v).__name__, repr(v))

    def value(self, v):
        return self._num(("M", self.canon(v)))


def deep_equal(a, b):
    if isinstance(a, torch.Tensor) or isinstance(b, torch.Tensor):
        return (isinstance(a, torch.Tensor) and isinstance(b, torch.Tensor) and a.dtype == b.dtype
                and a.shape == b.shape and a.detach().numpy().tobytes() == b.detach().numpy().tobytes())
    if isinstance(a, dict) or isinstance(b, dict):
        return (isinstance(a, dict) and isinstance(b, dict) and list(a.keys()) == list(b.keys())
                and all(deep_equal(a[k], b[k]) for k in a))
    if isinstance(a, (list, tuple)) or isinstance(b, (list, tuple)):
        return type(a) is type(b) and len(a) == len(b) and all(deep_equal(x, y) for x, y in zip(a, b))
    return type(a) is type(b) and a == b


def make_value(vkind, gen):
    """metadata values by kind; tensors drawn from the case's generator"""
    r = lambda *s: torch.randn(*s, generator=gen, dtype=torch.double)  # noqa: E731
    if vkind == "int":
        return int(torch.randint(1, 1000, (1,), generator=gen))
    if vkind == "zero":
        return 0
    if vkind == "float":
        return float(r(1))
    if vkind == "str":
        return "note-%d" % int(torch.randint(0, 1000, (1,), generator=gen))
    if vkind == "list":
        return [1, 2.5, "x", [3, 4]]
    if vkind == "dict":
        return {"a": [1, 2], "b": {"c": "x", "d": float(r(1))}}
    if vkind == "emptydict":
        return {}
    if vkind == "tensor":
        return r(2, 3)
    if vkind == "tdict":
        return {"t": r(3), "n": 1}
    raise ValueError(vkind)


CTOR_ORDER = {"pos": ["num_visible", "num_hidden", "gpu", "module"],
              "cplx": ["num_visible", "num_hidden", "unitary_dict", "gpu", "module"],
              "dens": ["num_visible", "num_hidden", "num_aux", "unitary_dict", "gpu", "module"]}
CTOR_DEFAULT = {"num_hidden": None, "num_aux": None, "unitary_dict": None, "module": None}


def call_ctor(kind, kw, form=None):
    """the constructor call in the form the caller writes it: all keywords (default), or (form == "pos") every argument up to the last
    one given passed POSITIONALLY in the documented order (num_visible, num_hidden[, num_aux][, unitary_dict], gpu, module)"""
    if form != "pos":
        return KINDS[kind](**kw)
    names = CTOR_ORDER[kind]
    last = max(i for i, nm in enumerate(names) if nm in kw)
    return KINDS[kind](*[kw[nm] if nm in kw else CTOR_DEFAULT[nm] for nm in names[: last + 1]])


# ---------------------------------------------------------------- argument forms (round 5, harness/argforms.py)
# operations whose public call has integer / boolean options: op["af"] seeds the stream of the objects handed over for them
# (sizes, gpu, zero_weights, epochs / pos_batch_size / k of fit, period / save_initial / metadata_only of ModelSaver); the model op keeps the VALUES
AF_OPS = ("construct", "constructFrom", "mkModule", "initModule", "train", "saverSave", "autoload")


def add_forms(plan, rng):
    """give every operation with options its argument-form seed (and a ModelSaver its period: a divisor of the epoch it is called with).
    An operation that repeats the previous one (save again with the very same arguments) repeats its forms."""
    prev = last_saver = None
    for op in plan:
        if op["t"] in AF_OPS and "af" not in op:
            if op["t"] == "saverSave" and last_saver is not None and {k: v for k, v in last_saver.items() if k not in ("af", "period")} == op:
                prev = last_saver   # the next period of the same ModelSaver (the state may have been trained in between)
            if prev is not None and {k: v for k, v in prev.items() if k not in ("af", "period")} == op:
                op.update({k: prev[k] for k in ("af", "period") if k in prev})
            else:
                op["af"] = af.new_seed(rng)
                if op["t"] == "saverSave":
                    e = op["path"]
                    op["period"] = rng.choice([d for d in range(1, e + 1) if e % d == 0] if e else [1, 2, 3])
        prev = op
        if op["t"] == "saverSave":
            last_saver = op
    return plan


class Real:
    """the real objects of one history"""

    ctx = None   # set by run_history: input-distribution counters of the argument forms

    def __init__(self, tseed, rel=False):
        # rel (case key "rel"): the caller writes every location as a RELATIVE path and changes his working directory between
        # creating a ModelSaver and training with it (see `in_dir`, `loc_arg`); the files of the history still are <tmp>/file<p>.pt
        self.rel = bool(rel)
        self.base = tempfile.mkdtemp(prefix="qv_store_")
        assert not self.base.startswith("/repo") and not self.base.startswith("/verif")
        self.tmp = self.base
        if self.rel:
            self.tmp = os.path.join(self.base, "w")
            self.elsewhere = os.path.join(self.base, "elsewhere", "deeper")
            os.makedirs(self.tmp)
            os.makedirs(self.elsewhere)
        self.tok = Tokens()
        self.gen = torch.Generator()
        self.gen.manual_seed(int(tseed))
        torch.manual_seed(int(tseed) + 17)
        self.models = {}
        self.modules = {}
        self.metas = {}
        self.savers = {}
        self.loc = {}      # history file number -> (physical file, start position) when it is not (file<p>.pt, 0)
        self.last_write = None  # what the last save through a file object did to the bytes in front of its start position
        self.uds = {}      # caller-owned unitary dictionaries (the SAME object may be handed to several constructors)
        self.ud_snaps = {}  # udslot -> deep copy taken when the caller created it
        self.last_ref = None  # reference weights of the last initialising op: [[tensor per weight matrix] per network]
        self.keep = []  # keeps every tensor ever observed alive, so that data_ptr() values are never reused
        self.events = []

    def close(self):
        shutil.rmtree(self.base, ignore_errors=True)

    def path(self, p):
        return os.path.join(self.tmp, f"file{p}.pt")

    @contextlib.contextmanager
    def in_dir(self, d):
        """relative-path histories only: the caller's working directory is `d` while the body runs (restored afterwards)"""
        if not self.rel:
            yield
            return
        old = os.getcwd()
        os.chdir(d)
        try:
            yield
        finally:
            os.chdir(old)

    def loc_arg(self, p):
        """the location of the history's file p as the caller writes it: an absolute path, or (relative-path histories) a path
        relative to the working directory at the time of the call"""
        return os.path.relpath(self.path(p)) if self.rel else self.path(p)

    # ------------------------------------------------------------ locations: a "file" of the history is (physical file, start position)
    # `location` of save / load / autoload is "str or file": an open file object stands for the data that starts at its CURRENT position
    # (a state written after a header the caller wrote first, or the k-th checkpoint of a stream of checkpoints). The history's file number p
    # is such a location; the model (path -> snapshot) does not care which form it has.
    def stream_path(self, s):
        return os.path.join(self.tmp, f"stream{s}.bin")

    def where(self, p):
        """(physical file, start position) of the history's file p"""
        return self.loc.get(p, (self.path(p), 0, None))[:2]

    def file_exists(self, p):
        return os.path.exists(self.where(p)[0])

    def is_tail(self, p):
        """nothing follows the data of file p in its physical file.  torch.load finds a zip archive's directory from the END of the file
        object it is given, so a checkpoint that is followed by further data (a later checkpoint of the same stream) cannot be read back by
        the installed torch at all - whatever the library does ("values loadable by the installed torch"): only the LAST checkpoint of a
        stream is a location `load` / `autoload` can be asked to read."""
        phys, start, end = self.loc.get(p, (self.path(p), 0, None))
        return end is None or (os.path.exists(phys) and os.path.getsize(phys) == end)

    def target_of(self, op):
        """the physical file a save operation is going to write"""
        if op["t"] == "save" and op.get("fobj") and op.get("stream") is not None:
            return self.stream_path(op["stream"])
        return self.path(op["path"])

    def must_be_fileobj(self, p):
        """a location that is not the start of a file of its own can only be handed over as an open file object"""
        phys, off = self.where(p)
        return off != 0 or phys != self.path(p)

    def open_location(self, p, io_kind=None):
        """an open binary file object positioned where file p starts: a real file, or (io_kind == "bytes") an io.BytesIO holding the same bytes"""
        import io

        phys, off = self.where(p)
        fh = io.BytesIO(open(phys, "rb").read()) if io_kind == "bytes" else open(phys, "rb")
        fh.seek(off)
        return fh

    def read_file(self, p):
        """the harness's own reading of the history's file p (whatever the form of its location): exactly the bytes the save wrote"""
        import io

        phys, start, end = self.loc.get(p, (self.path(p), 0, None))
        with open(phys, "rb") as fh:
            data = fh.read()
        return torch.load(io.BytesIO(data[start:end]), weights_only=False)

    @staticmethod
    def header_bytes(n):
        """what a caller might write in front of a checkpoint: n bytes, not a pickle / zip prefix"""
        return (b"#QV-RUN-HEADER\n" * (n // 15 + 1))[:n]

    # ------------------------------------------------------------ observation
    def _tid(self, p):
        self.keep.append(p)
        self.keep.append(p.data)
        return p.data_ptr() if p.numel() > 0 else ("empty", id(p))

    def obs_net(self, net):
        self.keep.append(net)
        return {"id": id(net), "kind": "purif" if isinstance(net, PurificationRBM) else "binary",
                "nv": int(net.num_visible), "nh": int(net.num_hidden), "na": int(getattr(net, "num_aux", 0)),
                "params": [[name, self._tid(p), list(p.shape), self.tok.tensor(p)] for name, p in net.named_parameters()]}

    def fval(self, key, v):
        import collections

        if isinstance(v, collections.OrderedDict) and all(isinstance(x, torch.Tensor) for x in v.values()):
            return {"sd": [[k, list(x.shape), self.tok.tensor(x)] for k, x in v.items()]}
        if key == "unitary_dict" and isinstance(v, dict) and v and all(isinstance(x, torch.Tensor) for x in v.values()):
            return {"ud": [[k, self.tok.tensor(x)] for k, x in v.items()]}
        return {"mv": [isinstance(v, dict), self.tok.value(v)]}

    def obs_dict(self, d):
        return [[k, self.fval(k, v)] for k, v in d.items()]

    def observe(self):
        w = {"states": {}, "modules": {}, "metas": {}, "files": {}}
        for s in sorted(self.models):
            st = self.models[s]
            kind = {PositiveWaveFunction: "pos", ComplexWaveFunction: "cplx", DensityMatrix: "dens"}[type(st)]
            # read the way any caller (and the library's own save / load, `hasattr(self, "unitary_dict")`) reads them: by attribute access,
            # whether the class keeps them as instance attributes, properties or forwards them to its amplitude network
            ud = getattr(st, "unitary_dict", None)
            w["states"][str(s)] = {
                "kind": kind, "nv": int(st.num_visible), "nh": int(st.num_hidden),
                "na": (int(st.num_aux) if kind == "dens" and getattr(st, "num_aux", None) is not None else None),
                "nets": [[n, self.obs_net(getattr(st, n))] for n in st.networks],
                "ud": None if ud is None else self.fval("unitary_dict", ud)}
        for s in sorted(self.modules):
            w["modules"][str(s)] = self.obs_net(self.modules[s])
        for s in sorted(self.metas):
            w["metas"][str(s)] = {"entries": self.obs_dict(self.metas[s])}
        for p in range(6):
            if self.file_exists(p):
                try:
                    f = self.read_file(p)
                except (EOFError, RuntimeError, pickle.UnpicklingError, ValueError) as e:
                    # a file that no longer holds a checkpoint (e.g. truncated by a refused save) is a state of the world
                    # the model cannot be in: report it as the file's content so that the comparison shows it
                    f = {"<unreadable>": type(e).__name__}
                w["files"][str(p)] = self.obs_dict(f)
        return w

    def weights_tokens(self, net):
        if isinstance(net, PurificationRBM):
            return [self.tok.tensor(net.weights_W), self.tok.tensor(net.weights_U)]
        return [self.tok.tensor(net.weights)]

    def all_tokens(self, net):
        return [self.tok.tensor(p) for _, p in net.named_parameters()]

    # ------------------------------------------------------------ independent reference for "random weights"
    def ref_draws(self, rng_state, nets):
        """what `initialize_parameters` is documented to produce, recomputed independently of the implementation:
        for every network in order, every weight matrix in order (W, then U) is N(0,1)/sqrt(num_visible) drawn from
        torch's generator as it was BEFORE the operation (`rng_state`), or all zeros (no draw) with zero_weights=True.
        nets: [(zero_weights, [(rows, cols), ...]), ...]  ->  (tensors, tokens) with the same nesting"""
        g = torch.Generator()
        g.set_state(rng_state)
        tens, toks = [], []
        for zw, mats in nets:
            tn, tk = [], []
            for r, c in mats:
                if zw:
                    t = torch.zeros(r, c, dtype=torch.double)
                else:
                    t = torch.randn(r, c, generator=g, dtype=torch.double) / np.sqrt(c)
                tn.append(t)
                tk.append(self.tok.tensor(t))
            tens.append(tn)
            toks.append(tk)
        self.last_ref = tens
        return toks

    def drawn(self, nets):
        """tokens of the weight matrices the implementation actually holds after an initialising operation — this is what the MODEL is
        given as "the generator's draws" (the property says the weights are random, not how the generator's stream is consumed; that the
        values ARE fresh draws is checked by the effect oracles of the C20 harness, and `ref_draws` / `last_ref` keep the exact-stream
        reference for an auxiliary comparison only)"""
        return [self.weights_tokens(net) for net in nets]

    def changed_uds(self):
        """caller-owned unitary dictionaries whose keys or tensor bytes differ from what the caller put in"""
        return [s for s, ud in sorted(self.uds.items())
                if not (list(ud.keys()) == list(self.ud_snaps[s].keys()) and all(deep_equal(ud[k], self.ud_snaps[s][k]) for k in ud))]

    @staticmethod
    def weight_shapes(netkind, nv, nh, na):
        """shapes of the weight matrices the property prescribes for the requested sizes (num_hidden: None -> nv, and for a
        BinaryRBM also 0 -> nv; num_aux: None -> nv)"""
        if netkind == "purif":
            return [(nv if nh is None else nh, nv), (nv if na is None else na, nv)]
        return [(nh if nh else nv, nv)]

    @staticmethod
    def net_weight_shapes(net):
        return [tuple(p.shape) for k, p in net.named_parameters() if k.startswith("weights")]

    # ------------------------------------------------------------ helpers
    def make_ud(self, spec):
        """spec: None | "empty" | list of extra names -> (python object, model entries)"""
        if spec is None:
            return None, None
        if isinstance(spec, dict) and "raw" in spec:
            # a dictionary the caller wrote out in full (NOT through create_dict): exactly these names, in this order --
            # it need not contain the default X / Y / Z
            ud = {name: torch.randn(2, 2, 2, generator=self.gen, dtype=torch.double) for name in spec["raw"]}
            return ud, [[k, self.tok.tensor(v)] for k, v in ud.items()]
        if isinstance(spec, dict):  # {"ref": udslot}: the caller's dict object itself (shared between constructors)
            ud = self.uds[spec["ref"]]
            return ud, [[k, self.tok.tensor(v)] for k, v in ud.items()]
        if spec == "empty":
            return {}, []
        extra = {}
        for name in spec:
            m = torch.randn(2, 2, 2, generator=self.gen, dtype=torch.double)
            extra[name] = m
        ud = unitaries.create_dict(**extra)
        return ud, [[k, self.tok.tensor(v)] for k, v in ud.items()]

    def make_md(self, items):
        d = {}
        ents = []
        for key, vkind in items:
            v = make_value(vkind, self.gen)
            d[key] = v
            ents.append([key, isinstance(v, dict), self.tok.value(v)])
        return d, ents

    def scramble(self, net):
        """external in-place write: every parameter gets fresh non-zero contents"""
        with torch.no_grad():
            for _, p in net.named_parameters():
                p.data.copy_(torch.randn(p.shape, generator=self.gen, dtype=torch.double) + 0.25)

    def train_data(self, n):
        B = 4
        data = torch.randint(0, 2, (B, n), generator=self.gen).to(torch.double)
        letters = np.array(list("XYZ"))
        idx = torch.randint(0, 3, (B, n), generator=self.gen).numpy()
        bases = letters[idx]
        bases[0, :] = "Z"  # at least one reference-basis row (z_samples must not be empty)
        return data, bases

    def save_to_fileobj(self, op, md):
        """`location` given as an open (binary) file object instead of a path (neural_state.py:203-204 "str or file"):
        * plain: a fresh file, the state starts at position 0;
        * op["hdr"] = n: the caller first writes an n-byte header of his own, then saves the state into the same open file;
        * op["stream"] = s: the caller appends the state to the checkpoint stream s (a file that already holds earlier checkpoints of this or
          other models);
        * op["io"] == "bytes": the file object is an io.BytesIO (whose content the caller then writes to the physical file).
        The history's file op["path"] then is (that physical file, the position the state starts at)."""
        import io

        p = op["path"]
        st = self.models[op["slot"]]
        if op.get("stream") is not None:
            phys = self.stream_path(op["stream"])
            prefix = open(phys, "rb").read() if os.path.exists(phys) else b""
            target, replace = phys, False
        else:
            phys = self.path(p)
            prefix = self.header_bytes(int(op.get("hdr") or 0))
            target, replace = phys + ".part", True
        start = len(prefix)
        try:
            if op.get("io") == "bytes":
                fh = io.BytesIO()
                fh.write(prefix)
                st.save(fh, md)
                data = fh.getvalue()
                with open(target, "wb") as out:
                    out.write(data)
            else:
                if replace or not os.path.exists(target):
                    with open(target, "wb") as out:
                        out.write(prefix)
                with open(target, "r+b") as fh:
                    fh.seek(start)
                    st.save(fh, md)
                data = open(target, "rb").read()
            # what the save did to the bytes in front of the position it was given (the caller's header / the earlier checkpoints)
            self.last_write = {"start": start, "prefix_intact": data[:start] == prefix, "grew": len(data) > start}
            if replace:
                os.replace(target, phys)  # the caller's file appears only if save returned
            self.loc[p] = (phys, start, len(data))
            if self.loc[p][:2] == (self.path(p), 0):
                del self.loc[p]
        finally:
            if replace and os.path.exists(target):
                os.remove(target)

    # ------------------------------------------------------------ operations
    def apply(self, op):
        """execute one planned operation on the real objects.
        returns (model op json, error kind or None)"""
        t = op["t"]
        m = dict(op)
        err = None
        fm = af.Forms(op.get("af"), self.ctx)   # integer / boolean options of this call as the objects a caller passes (no "af": Python literals)
        try:
            if t == "construct":
                ud, ents = self.make_ud(op.get("ud"))
                m["ud"] = ents
                kw = {"num_visible": fm.i("num_visible", op["nv"]), "num_hidden": fm.i("num_hidden", op["nh"]), "gpu": fm.gpu()}
                if op["kind"] == "dens":
                    kw["num_aux"] = fm.i("num_aux", op["na"])
                if op["kind"] != "pos":
                    kw["unitary_dict"] = ud
                rs = torch.get_rng_state()
                m["rand"] = [[] for _ in NETS[op["kind"]]]
                built = None
                try:
                    st = call_ctor(op["kind"], kw, op.get("form"))
                    self.models[op["slot"]] = st
                    built = st
                finally:
                    ws = self.weight_shapes(NETKIND[op["kind"]], op["nv"], op["nh"], op["na"])
                    m["rand"] = self.ref_draws(rs, [(False, ws) for _ in NETS[op["kind"]]])
                    if built is not None:   # the model is told the weights the implementation drew (see `drawn`)
                        m["rand"] = self.drawn([getattr(built, n) for n in built.networks])
            elif t == "mkUD":
                ud, ents = self.make_ud(op["names"] if op["names"] else "empty")
                self.uds[op["udslot"]] = ud
                self.ud_snaps[op["udslot"]] = {k: v.detach().clone() for k, v in ud.items()}
                m = None  # the caller's dict object is not part of the model's world (a state holds its dictionary by value)
            elif t == "mkModule":
                zw = bool(op.get("zw", False))
                rs = torch.get_rng_state()
                kw = {"gpu": fm.gpu()}
                if "zw" in op:
                    kw["zero_weights"] = fm.f("zero_weights", zw)
                sizes = [fm.i("num_visible", op["nv"]), fm.i("num_hidden", op["nh"])] + ([fm.i("num_aux", op["na"])] if op["k"] != "binary" else [])
                cls = BinaryRBM if op["k"] == "binary" else PurificationRBM
                if "zw" in op and fm.pos("RBM(sizes..., zero_weights, gpu)"):   # both flags in their documented positions
                    net = cls(*sizes, kw["zero_weights"], kw["gpu"])
                else:
                    net = cls(*sizes, **kw)
                self.modules[op["mslot"]] = net
                m["rand"] = self.ref_draws(rs, [(False, self.weight_shapes(op["k"], op["nv"], op["nh"], op["na"]))])[0]
                if not zw:
                    m["rand"] = self.drawn([net])[0]
            elif t == "initModule":
                net = self.modules[op["mslot"]]
                rs = torch.get_rng_state()
                ws = self.net_weight_shapes(net)  # the property: shapes unchanged
                m["rand"] = self.ref_draws(rs, [(False, ws)])[0]
                if op.get("zw") is None:
                    net.initialize_parameters()
                else:
                    zwo = fm.f("zero_weights", bool(op["zw"]))
                    if fm.pos("initialize_parameters(zero_weights)"):
                        net.initialize_parameters(zwo)
                    else:
                        net.initialize_parameters(zero_weights=zwo)
                if not op.get("zw"):
                    m["rand"] = self.drawn([net])[0]
            elif t == "constructFrom":
                ud, ents = self.make_ud(op.get("ud"))
                m["ud"] = ents
                # the sizes the caller passes ALONGSIDE the module (documented as taken from the module instead): `num_visible` is a required
                # argument (op["nv"], 7 when the plan does not say), `num_hidden` / `num_aux` are passed only when the plan has the key
                # (None = the explicit default, 0, the module's own size, or any other number)
                kw = {"num_visible": fm.i("num_visible", op.get("nv", 7)), "module": self.modules[op["mslot"]], "gpu": fm.gpu()}
                m["nv"] = op.get("nv", 7)
                if "nh" in op:
                    kw["num_hidden"] = fm.i("num_hidden", op["nh"])
                if "na" in op and op["kind"] == "dens":
                    kw["num_aux"] = fm.i("num_aux", op["na"])
                if op["kind"] != "pos":
                    kw["unitary_dict"] = ud
                st = call_ctor(op["kind"], kw, op.get("form"))
                self.models[op["slot"]] = st
            elif t == "write":
                net = getattr(self.models[op["slot"]], op["net"])
                self.scramble(net)
                m["toks"] = self.all_tokens(net)
            elif t == "writeModule":
                net = self.modules[op["mslot"]]
                self.scramble(net)
                m["toks"] = self.all_tokens(net)
            elif t == "train":
                st = self.models[op["slot"]]
                data, bases = self.train_data(st.num_visible)
                optimizer, oargs = OPTIMS[op.get("opt", "sgd")]
                self.events = []
                rec = _Recorder(self.events)
                kw = dict(epochs=fm.i("epochs", op.get("epochs", 2), af.FIT_INT["epochs"]), pos_batch_size=fm.i("pos_batch_size", 2, af.FIT_INT["pos_batch_size"]),
                          k=fm.i("k", 1, af.FIT_INT["k"]), lr=op.get("lr", 0.1),
                          callbacks=[rec] + [mk(st) for mk in getattr(self, "extra_callbacks", [])],
                          optimizer=optimizer, optimizer_args=dict(oargs))
                if op.get("sched"):
                    kw["scheduler"], sargs = SCHEDULERS[op["sched"]]
                    kw["scheduler_args"] = dict(sargs)
                if op["bases"]:
                    kw["input_bases"] = bases
                self.fit_probe = {"data": (data, data.clone()), "bases": (bases, bases.copy())}
                m["toks"] = [[] for _ in st.networks]
                stopped = bool(op.get("stopped")) and not op["bases"] and len(st.networks) == 2
                if stopped:
                    st.stop_training = True
                self.fit_probe.update(rng_before=torch.get_rng_state(), stop_before=st.stop_training)
                try:
                    st.fit(data, **kw)
                finally:
                    self.fit_probe.update(rng_after=torch.get_rng_state(), stop_after=st.stop_training)
                    if stopped:
                        st.stop_training = False
                    m["toks"] = [self.all_tokens(getattr(st, n)) for n in st.networks]
            elif t == "reinit":
                st = self.models[op["slot"]]
                rs = torch.get_rng_state()
                m["rand"] = self.ref_draws(rs, [(False, self.net_weight_shapes(getattr(st, n))) for n in st.networks])
                st.reinitialize_parameters()
                m["rand"] = self.drawn([getattr(st, n) for n in st.networks])
            elif t == "addUnitary":
                st = self.models[op["slot"]]
                u = torch.randn(2, 2, 2, generator=self.gen, dtype=torch.double)
                m["tok"] = self.tok.tensor(u)
                st.unitary_dict[op["name"]] = u
            elif t == "mkMeta":
                d, ents = self.make_md(op["items"])
                m["entries"] = ents
                self.metas[op["mdslot"]] = d
            elif t == "save":
                md = None if op["md"] is None else self.metas[op["md"]]
                self.last_write = None
                if op.get("fobj"):
                    self.save_to_fileobj(op, md)
                else:
                    with self.in_dir(self.elsewhere if self.rel else None):
                        self.models[op["slot"]].save(self.loc_arg(op["path"]), md)
                    self.loc.pop(op["path"], None)
            elif t == "saverSave":
                # ModelSaver is driven through its PUBLIC interface only: constructor + the callback event `on_epoch_end(nn_state, epoch)`
                # with a period that fires; the file it writes is `folder_path / file_name.format(epoch)` (documented contract), chosen
                # such that it is the history's file number `path`
                # argument forms: the period (a divisor of the epoch the callback is called with) as an integer object, save_initial /
                # metadata_only as truthy / falsy objects, by keyword or all positionally
                per, si = fm.i("ModelSaver period", op.get("period", 1), af.PERIOD_INT), fm.f("save_initial", False)
                mo = fm.f("metadata_only", bool(op["metadataOnly"]))
                # relative-path histories: the saver is CREATED while the working directory is <base> with folder_path "w" (= <base>/w = tmp),
                # and USED (every period) after the caller has moved to another directory: the documented files are still <base>/w/file<epoch>.pt
                folder = "w" if self.rel else self.tmp
                if fm.pos("ModelSaver(period, folder_path, file_name, save_initial, metadata, metadata_only)"):
                    mk0 = lambda md_arg: ModelSaver(per, folder, "file{}.pt", si, md_arg, mo)  # noqa: E731
                else:
                    mk0 = lambda md_arg: ModelSaver(per, folder, "file{}.pt", save_initial=si, metadata=md_arg, metadata_only=mo)  # noqa: E731

                def mk(md_arg):
                    with self.in_dir(self.base):
                        return mk0(md_arg)
                if op["src"] == "dict":
                    key = ("dict", op["mdslot"], op["metadataOnly"], op.get("period", 1), op.get("af"))
                    if key not in self.savers or self.savers[key][1] is not self.metas[op["mdslot"]]:
                        self.savers[key] = (mk(self.metas[op["mdslot"]]), self.metas[op["mdslot"]])  # one saver object, reused every period
                    saver = self.savers[key][0]
                elif op["src"] == "callable":
                    d, ents = self.make_md(op["items"])
                    m["entries"] = ents
                    saver = mk(lambda s, e: copy.deepcopy(d))
                else:
                    saver = mk(None)
                with self.in_dir(self.elsewhere if self.rel else None):
                    saver.on_epoch_end(self.models[op["slot"]], op["path"])
                if self.rel:
                    # audit 3 (B5): WHERE a saver with a relative folder writes after the caller changed directory is not in C11's text. A
                    # saver that wrote <cwd of the moment>/w/file<epoch>.pt (path kept as written, folder created at write time) did save:
                    # the outcome is recorded by the hooks and the history ends there (the model's file map cannot follow)
                    moved = os.path.join(self.elsewhere, "w", os.path.basename(self.where(op["path"])[0]))
                    if os.path.exists(moved) and os.path.realpath(moved) != os.path.realpath(self.where(op["path"])[0]):
                        self.unconstrained = "ModelSaver wrote under the working directory of the moment"
                self.loc.pop(op["path"], None)   # ModelSaver writes to a path: the history's file is now that file, from its start
            elif t == "load":
                if op.get("fobj") or self.must_be_fileobj(op["path"]):
                    with self.open_location(op["path"], op.get("io")) as fh:
                        self.models[op["slot"]].load(fh)
                else:
                    with self.in_dir(self.elsewhere if self.rel else None):
                        self.models[op["slot"]].load(self.loc_arg(op["path"]))
            elif t == "autoload":
                m["rand"] = []
                if op.get("fobj") or self.must_be_fileobj(op["path"]):
                    with self.open_location(op["path"], op.get("io")) as fh:
                        st = KINDS[op["kind"]].autoload(fh, gpu=fm.gpu())
                else:
                    with self.in_dir(self.elsewhere if self.rel else None):
                        loc, g = self.loc_arg(op["path"]), fm.gpu()
                        st = KINDS[op["kind"]].autoload(loc, g) if fm.pos("autoload(location, gpu)") else KINDS[op["kind"]].autoload(loc, gpu=g)
                self.models[op["slot"]] = st
            else:
                raise AssertionError(t)
        except AssertionError:
            raise
        except Exception as e:  # noqa: BLE001 - the operation is refused; WHICH exception class refuses it is nowhere compared (counters only)
            err = type(e).__name__
        return m, err


from qucumber.callbacks import CallbackBase  # noqa: E402


def _mk_recorder(events):
    class R(CallbackBase):
        def on_train_start(self, s):
            events.append("train_start")

        def on_train_end(self, s):
            events.append("train_end")

        def on_epoch_start(self, s, ep):
            events.append("epoch_start")

        def on_epoch_end(self, s, ep):
            events.append("epoch_end")

        def on_batch_start(self, s, ep, b):
            events.append("batch_start")

        def on_batch_end(self, s, ep, b):
            events.append("batch_end")

    return R()


_Recorder = _mk_recorder  # CallbackList only accepts CallbackBase instances


# ---------------------------------------------------------------- canonicalisation of identities
def by_key(entries):
    """audit 3 (B9): the property fixes WHAT a checkpoint / a unitary dictionary holds, not the ORDER of its keys: entry lists
    [[key, value], ...] are compared sorted by key (on both sides); anything else is returned unchanged"""
    import json

    def val(v):
        if isinstance(v, dict) and isinstance(v.get("ud"), (list, tuple)):
            return {**v, "ud": sorted((list(e) for e in v["ud"]), key=lambda e: json.dumps(e[0], sort_keys=True, default=str))}
        return v

    if isinstance(entries, dict):
        return val(entries)
    if isinstance(entries, (list, tuple)) and all(isinstance(e, (list, tuple)) and len(e) == 2 for e in entries):
        return sorted(([e[0], val(e[1])] for e in entries), key=lambda e: json.dumps(e[0], sort_keys=True, default=str))
    return entries


def canon_world(w):
    """replace network ids / tensor ids by first-occurrence class numbers (same traversal for both sides); key order of files and of
    unitary dictionaries is normalised (by_key)"""
    nets, tens = {}, {}

    def cn(i):
        return nets.setdefault(repr(i), len(nets))

    def ct(i):
        return tens.setdefault(repr(i), len(tens))

    def net(n):
        if n.get("dangling"):
            return {"dangling": True}
        return {"id": cn(n["id"]), "kind": n["kind"], "nv": n["nv"], "nh": n["nh"], "na": n["na"],
                "params": [[p[0], ct(p[1]), list(p[2]), p[3]] for p in n["params"]]}

    out = {"states": {}, "modules": {}, "metas": {}, "files": {p: by_key(f) for p, f in w["files"].items()}}
    for s in sorted(w["states"]):
        st = w["states"][s]
        out["states"][s] = {"kind": st["kind"], "nv": st["nv"], "nh": st["nh"], "na": st["na"],
                            "nets": [[n, net(x)] for n, x in st["nets"]], "ud": by_key(st["ud"]) if st["ud"] is not None else None}
    for s in sorted(w["modules"]):
        out["modules"][s] = net(w["modules"][s])
    for s in sorted(w["metas"]):
        out["metas"][s] = {"entries": w["metas"][s]["entries"]}
    return out


def tuplify(x):
    """json round trip normalisation (tuples -> lists)"""
    import json

    return json.loads(json.dumps(x))


def snapshot_state(st):
    """independent deep snapshot of a state (for the oracles): nets -> name -> cloned tensor, unitary dict, sizes"""
    has_ud = hasattr(st, "unitary_dict")
    ud = st.unitary_dict if has_ud else None
    if isinstance(ud, dict) and all(isinstance(v, torch.Tensor) for v in ud.values()):
        ud = {k: v.detach().clone() for k, v in ud.items()}
    elif has_ud:  # an attribute that is not a dictionary of tensors: a state of the object no history should reach
        ud = {"<not a unitary dictionary>": repr(ud)[:120]}
    snap = {"nets": {n: {k: v.detach().clone() for k, v in getattr(st, n).named_parameters()} for n in st.networks},
            "ud": ud,
            "arch": (int(st.num_visible), int(st.num_hidden), (int(st.num_aux) if isinstance(st, DensityMatrix) and getattr(st, "num_aux", None) is not None else None)),
            "kind": type(st).__name__}
    return snap


def nets_equal(a, b):
    return list(a.keys()) == list(b.keys()) and all(deep_equal(a[k], b[k]) for k in a)


# ---------------------------------------------------------------- running a history on both sides
def admissible(real, op):
    """drop planned operations that refer to unbound variables or leave the modelled domain"""
    t = op["t"]
    if t in ("write", "train", "reinit", "addUnitary", "save", "saverSave", "load") and op["slot"] not in real.models:
        return False
    if t in ("constructFrom", "writeModule", "initModule") and op["mslot"] not in real.modules:
        return False
    if t in ("construct", "constructFrom") and isinstance(op.get("ud"), dict) and "ref" in op["ud"] and op["ud"]["ref"] not in real.uds:
        return False
    if t == "write" and op["net"] not in real.models[op["slot"]].networks:
        return False
    if t == "addUnitary" and not hasattr(real.models[op["slot"]], "unitary_dict"):
        return False
    if t == "save" and op["md"] is not None and op["md"] not in real.metas:
        return False
    if t == "saverSave" and op["src"] == "dict" and op["mdslot"] not in real.metas:
        return False
    # a metadata key "unitary_dict" on a state WITHOUT a unitary dictionary (or in a metadata-only checkpoint) is accepted by save and
    # makes the file's "unitary_dict" entry an arbitrary user value.  Such saves, loads of the file and the autoload of the SAME state
    # type (PositiveWaveFunction.autoload never reads the entry) are executed; only handing that user value to the constructor of a
    # state type that has a unitary dictionary (ComplexWaveFunction / DensityMatrix .autoload) is outside the modelled domain.
    if t in ("load", "autoload") and real.file_exists(op["path"]) and not real.is_tail(op["path"]):
        return False   # a checkpoint followed by later checkpoints of its stream: not readable by torch.load itself (see Real.is_tail)
    if t == "autoload" and op["kind"] != "pos" and real.file_exists(op["path"]):
        try:
            f = real.read_file(op["path"])
        except Exception:  # unreadable files are handled (and compared) by the operation itself
            f = {}
        u = f.get("unitary_dict") if isinstance(f, dict) else None
        if "unitary_dict" in (f if isinstance(f, dict) else {}) and not (isinstance(u, dict) and u and all(isinstance(x, torch.Tensor) for x in u.values())):
            return False
    if t == "train" and str(op.get("opt", "")).startswith("adafactor"):
        # torch.optim.Adafactor itself divides by the size of a parameter: it cannot drive a model with an EMPTY parameter (num_hidden = 0 /
        # num_aux = 0 of a PurificationRBM) - ZeroDivisionError out of torch's step(); not an optimizer `fit` can drive for that model
        st = real.models[op["slot"]]
        if any(p.numel() == 0 for n in st.networks for p in getattr(st, n).parameters()):
            return False
    if t == "train" and op.get("bases"):
        # the training data uses the bases X, Y and Z: a state whose dictionary lacks one of them cannot be trained on it (KeyError)
        ud0 = getattr(real.models[op["slot"]], "unitary_dict", None)
        if ud0 is not None and not all(b in ud0 for b in "XYZ"):
            return False
        # a ComplexWaveFunction whose parameters are ALL exactly zero (only reachable through a zero_weights=True module) is the uniform
        # real state: an X-basis outcome "1" then has probability exactly 0, its log-likelihood gradient is 0/0 and `fit` fills the
        # parameters with NaN (a later Gibbs step raises RuntimeError). Training from that point is outside the domain of the property.
        st = real.models[op["slot"]]
        if isinstance(st, ComplexWaveFunction) and all(bool(torch.all(p == 0)) for n in st.networks for p in getattr(st, n).parameters()):
            return False
    if t == "constructFrom":
        mod = real.modules[op["mslot"]]
        # a PurificationRBM handed to a wavefunction state is accepted by the constructors but meaningless
        if isinstance(mod, PurificationRBM) and op["kind"] != "dens":
            return False
    return True


def run_history(ctx, case, drv_op, hooks, level_fn):
    """execute case["plan"] on the real objects (with the hooks' oracles), then on the model; compare after every op.
    hooks.before(real, op) -> pre ; hooks.after(real, op, pre, err, world) ; level_fn(op, err) -> 'property'|'aux'"""
    real = Real(case["tseed"], rel=case.get("rel"))
    real.ctx = ctx
    if real.rel:
        ctx.count("histories_with_relative_paths_and_chdir_between_saver_construction_and_use")
    try:
        mops, obs, kept = [], [], []
        for op in case["plan"]:
            if not admissible(real, op):
                continue
            pre = hooks.before(real, op)
            mop, err = real.apply(op)
            w = real.observe()
            try:
                hooks.after(real, op, pre, err, w)
            except Exception as e:  # the implementation left the state in a shape the oracle cannot even inspect
                ctx.oracle("property oracle could not be evaluated on the implementation's result", False,
                           {"plan": case["plan"], "tseed": case["tseed"], "op": op, **({"rel": True} if case.get("rel") else {})}, detail={"exception": repr(e)[:300]},
                           sig=f"{op['t']}/oracle-crash")
            ctx.count(f"op={op['t']}")
            if mop is None:  # harness-only operation (the caller creating one of his own objects): no model step
                continue
            if getattr(hooks, "cut", False):
                # the implementation did something no clause of the property constrains and the model cannot follow (e.g. it ACCEPTED a
                # metadata dict with a non-string key): the history ends before this operation
                ctx.count(f"history_cut_at_unconstrained_outcome:{op['t']}")
                break
            mops.append(mop)
            kept.append(op)
            obs.append((err, w))
            ctx.count(f"err={err}")
            if op["t"] == "load" and err is not None:
                # what a REFUSED load leaves in the model's parameters (nothing, or the networks copied before the offending one) is not
                # constrained by the property: the model is re-synchronised from the implementation (one external write per network)
                st = real.models[op["slot"]]
                for n in st.networks:
                    sync = {"t": "write", "slot": op["slot"], "net": n, "sync": True}
                    mops.append({**sync, "toks": real.all_tokens(getattr(st, n))})
                    kept.append(sync)
                    obs.append((None, w))
                ctx.count("resync_after_refused_load")
        if ctx.driver is not None and mops:
            res = ctx.driver.call(drv_op, ops=mops)
            for k, ((err, w), mw) in enumerate(zip(obs, res)):
                op = kept[k]
                lvl = level_fn(op, err)
                cs = {"plan": case["plan"], "tseed": case["tseed"], "step": k, "op": op, **({"rel": True} if case.get("rel") else {})}
                sig = f"{op['t']}"
                # whether the operation is refused — not WHICH exception type refuses it (no property names one)
                ctx.point(f"{op['t']}.refused", lvl if op["t"] in ("save", "saverSave", "train", "constructFrom") else "aux",
                          err is not None, mw["err"] is not None, cs, exact=True, sig=f"{sig}/refused", theorem=hooks.theorem(op, "err"))
                if err is not None:
                    ctx.count(f"refusal:{op['t']}:impl={err},model={mw['err']}")
                iw = tuplify(canon_world(w))
                cm = tuplify(canon_world(mw))
                for comp in ("states", "modules", "metas", "files"):
                    if op["t"] == "load" and err is not None and comp in ("states", "modules"):
                        continue   # parameters after a refused load: unconstrained (re-synchronised by the next steps)
                    ctx.point(f"{op['t']}.{comp}", lvl, iw[comp], cm[comp], cs, exact=True, sig=f"{sig}/{comp}",
                              theorem=hooks.theorem(op, comp))
        return kept, obs
    finally:
        real.close()
