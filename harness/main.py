"""Entry point:  python -m harness.main <Cxx> quick|thorough      |     <Cxx> --replay <path>"""
import importlib
import json
import os
import subprocess
import sys
import time
import traceback

from . import common
from .common import (ALLOWED_AXIOMS, Ctx, Driver, InternalError, LEAN_DIR, TRUSTED_BASE, VERIF, axiom_audit, fingerprint,
                     lake_build, load_known, textual_audit, write_json)


def leanchecker(pid):
    r = subprocess.run(["lake", "env", "leanchecker", f"QV.Props.{pid}"], cwd=LEAN_DIR, capture_output=True, text=True, timeout=3000)
    return r.returncode == 0, (r.stdout + r.stderr)[-1500:]


ENV_QUICK = 3  # number of environments of common.ENVS the quick tier runs (all of them)


def main(argv):
    if len(argv) < 2:
        print("usage: check <Cxx> quick|thorough | <Cxx> --replay <path>")
        return 2
    pid = argv[0].upper()
    replay_path = None
    if argv[1] == "--replay":
        replay_path = argv[2]
        tier = "quick"
    else:
        tier = argv[1]
    if tier not in ("quick", "thorough"):  # the command-line tier wins; VERIF_TIER is only a fallback
        tier = os.environ.get("VERIF_TIER", "quick")
    if tier not in ("quick", "thorough"):
        tier = "quick"
    seed = int(os.environ.get("VERIF_SEED", "0") or 0)
    t0 = time.time()
    mod = importlib.import_module(f"harness.{pid.lower()}")

    # 1. proof obligations: build + audit
    broken = []  # names of broken theorems / obligations
    build_ok, build_log = lake_build()
    audit = {}
    if not build_ok:
        errs = [l for l in build_log.splitlines() if "error" in l][:20]
        broken.append({"obligation": "lake build QV qvdriver", "log": errs})
    else:
        bad_text = textual_audit()
        if bad_text:
            broken.append({"obligation": "textual audit (sorry/axiom/native_decide/...)", "hits": bad_text})
        audit = axiom_audit(pid)
        if "__error__" in audit:
            broken.append({"obligation": f"QV.Props.{pid} does not compile / is not part of the build", "log": audit.pop("__error__")})
        if not audit:
            broken.append({"obligation": f"no theorem {pid}_* found in QV.Props.{pid}"})
        for th, axs in audit.items():
            extra = [a for a in axs if a not in ALLOWED_AXIOMS]
            if extra:
                broken.append({"obligation": th, "axioms": extra})
        required = getattr(mod, "REQUIRED_THEOREMS", [])
        for th in required:
            if not any(name == f"QV.Props.{th}" or name.endswith("." + th) for name in audit):
                broken.append({"obligation": th, "missing": True})
    lc = None
    if tier == "thorough" and build_ok and not replay_path:
        ok, log = leanchecker(pid)
        lc = ok
        if not ok:
            broken.append({"obligation": f"leanchecker QV.Props.{pid}", "log": log})

    # 2. correspondence + oracles
    driver = None
    if build_ok and os.path.exists(common.DRIVER_EXE):
        driver = Driver()
    ctx = Ctx(pid, tier, seed, driver)
    try:
        if replay_path:
            rep = json.load(open(replay_path))
            if rep.get("case") is None:
                aux_names = sorted({a.get("point", "?") for a in (rep.get("aux_mismatch") or [])})
                print(f"replay names a broken obligation / correspondence point, no failing input to re-run: "
                      f"obligations {json.dumps(rep.get('broken'))[:300]}; auxiliary points {json.dumps(aux_names[:8])[:600]}")
            else:
                ctx.env_name = rep.get("env")
                with common.environment(rep.get("env")):
                    mod.replay(ctx, rep["case"])
        else:
            cdir = os.path.join(VERIF, "corpus", pid)
            try:
                # corpus first (inside the same guard as run: an exception escaping from /repo code while a stored case is
                # replayed is a finding with that case, not a harness error)
                if os.path.isdir(cdir):
                    for f in sorted(os.listdir(cdir)):
                        if f.endswith(".json"):
                            ccase = json.load(open(os.path.join(cdir, f)))["case"]
                            ctx.current_case = ccase
                            mod.replay(ctx, ccase)
                            ctx.count("corpus_cases")
                mod.run(ctx)
                # the same property under other process-global environments of the caller (default dtype, autograd mode, cwd):
                # the corpus again, and the module's own environment cases if it has any
                for env_name in (common.ENVS if tier == "thorough" else list(common.ENVS)[:ENV_QUICK]):
                    ctx.env_name = env_name
                    with common.environment(env_name):
                        if os.path.isdir(cdir):
                            for f in sorted(os.listdir(cdir)):
                                if f.endswith(".json"):
                                    mod.replay(ctx, json.load(open(os.path.join(cdir, f)))["case"])
                                    ctx.count(f"env:{env_name}:corpus_cases")
                        if hasattr(mod, "env_run"):
                            mod.env_run(ctx, env_name)
                    ctx.env_name = None
            except InternalError:
                raise
            except Exception as e:  # an exception escaping from the implementation under test is a finding, not a harness error
                tb = traceback.extract_tb(e.__traceback__)
                in_repo = [f for f in tb if f.filename.startswith(common.REPO + os.sep)]
                if not in_repo:
                    raise
                last = in_repo[-1]
                ctx.prop_mismatch.append({"point": "implementation raised", "level": "oracle", "case": getattr(ctx, "current_case", None),
                                          "detail": {"exception": type(e).__name__, "message": str(e)[:300],
                                                     "where": f"{os.path.relpath(last.filename, common.REPO)}:{last.lineno} in {last.name}"},
                                          "signature": f"raised/{type(e).__name__}/{os.path.relpath(last.filename, common.REPO)}:{last.name}",
                                          "theorem": None})
        known_sigs = {k["signature"] for k in load_known() if k["property"] == pid and k["status"] == "known"}
        need_search = (broken or ctx.aux_mismatch) and not replay_path and \
            not [v for v in ctx.prop_mismatch if v["signature"] not in known_sigs]
        if need_search and hasattr(mod, "search"):
            ctx.note("proof obligation or auxiliary correspondence broken: running failing-input search on the implementation")
            mod.search(ctx)
    finally:
        if driver:
            driver.close()

    # 3. verdict
    known = [k for k in load_known() if k["property"] == pid and k["status"] == "known"]
    unlisted = []
    known_printed = {}
    for v in ctx.prop_mismatch:
        hit = next((k for k in known if k["signature"] == v["signature"]), None)
        if hit:
            known_printed[hit["signature"]] = hit
        else:
            unlisted.append(v)
    # known findings are replayed by the modules themselves (they register mismatches with that signature)
    for sig, k in known_printed.items():
        print(f"KNOWN-FINDING: property={pid} {k['what']} [signature {sig}]")
    for k in known:
        if k["signature"] not in known_printed and not replay_path:
            ctx.note(f"known finding {k['signature']} did not reproduce in this run")

    exit_code = 0
    replay_out = None
    if unlisted:
        v = unlisted[0]
        replay_out = os.path.join(VERIF, "replays", f"{pid}_{tier}_{seed}_{int(time.time())}.json")
        write_json(replay_out, {"property": pid, "kind": "failing-input", "env": v.get("env"), "point": v["point"], "level": v["level"],
                                "signature": v["signature"], "theorem": v.get("theorem"), "case": v["case"], "detail": v["detail"],
                                "others": [{"point": u["point"], "signature": u["signature"]} for u in unlisted[1:20]],
                                "broken": broken, "replay_cmd": f"./check {pid} --replay {replay_out}"})
        print(f"VIOLATION property={pid} replay={replay_out}")
        exit_code = 1
    elif (broken or ctx.aux_mismatch) and not replay_path:
        replay_out = os.path.join(VERIF, "replays", f"{pid}_{tier}_{seed}_{int(time.time())}_obligation.json")
        write_json(replay_out, {"property": pid, "kind": "broken-obligation", "case": None, "broken": broken,
                                "aux_mismatch": ctx.aux_mismatch[:5],
                                "explanation": "a theorem / audit / correspondence point no longer checks; the failing-input search on the "
                                               "implementation found no input violating the property"})
        print(f"VIOLATION property={pid} replay={replay_out} no-failing-input-found")
        exit_code = 1

    wall = time.time() - t0
    if replay_path:
        print(f"replay: {len(ctx.prop_mismatch)} property-level mismatches, {len(ctx.aux_mismatch)} auxiliary, exit {exit_code}")
        for v in ctx.prop_mismatch[:5]:
            print("  ", v["point"], json.dumps(v["detail"], default=str)[:300])
        return exit_code

    discharged = sum(1 for th, axs in audit.items() if all(a in ALLOWED_AXIOMS for a in axs))
    cov = {
        "obligations": max(len(audit), 1) if audit else len(getattr(mod, "REQUIRED_THEOREMS", [])) or 1,
        "discharged": discharged,
        "checker_cmd": f"cd lean && lake build QV qvdriver && lake env lean <import QV.Props.{pid}; #audit_props \"{pid}\">"
                       + (" && lake env leanchecker QV.Props." + pid if tier == "thorough" else ""),
        "trusted_base": TRUSTED_BASE + list(getattr(mod, "EXTRA_TRUSTED", [])),
        "theorems": {th: axs for th, axs in sorted(audit.items())},
        "leanchecker_ok": lc,
        "evaluations": ctx.evaluations,
        "cases": ctx.cases,
        "distinct_nontrivial": len(ctx.nontrivial),
        "rule": ctx.rule,
        "samples": ctx.samples or [{"note": "no case generated"}],
        "traces_validated_against_impl": ctx.cases if driver else 0,
        "driver_calls": driver.calls if driver else 0,
        "oracle_checks_on_impl": ctx.oracle_checks,
        "input_distribution": dict(sorted(ctx.dist.items())),
        "tolerance": {"rtol": common.RTOL, "atol_times_scale": common.ATOL},
        "source_fingerprint": fingerprint(getattr(mod, "FILES", [])),
        "known_findings_printed": sorted(known_printed),
        "broken_obligations": broken,
        "auxiliary_mismatches": len(ctx.aux_mismatch),
        "notes": ctx.notes,
        "exhaustive": False,
    }
    ev = {
        "property_id": pid, "tier": tier, "seed": seed, "level": "proof", "coverage": cov,
        "assumptions": TRUSTED_BASE + list(getattr(mod, "EXTRA_TRUSTED", [])),
        "wall_s": round(wall, 2), "violations": len(unlisted) + (1 if exit_code == 1 and not unlisted else 0),
    }
    write_json(os.path.join(VERIF, "evidence", f"{pid}.json"), ev)
    print(f"{pid} {tier} seed={seed}: theorems {discharged}/{len(audit)} ok, {ctx.cases} cases, {ctx.evaluations} points, "
          f"{len(ctx.nontrivial)} distinct non-trivial, {len(ctx.prop_mismatch)} property mismatches ({len(known_printed)} known), "
          f"{len(ctx.aux_mismatch)} aux mismatches, {wall:.1f}s -> exit {exit_code}")
    return exit_code


if __name__ == "__main__":
    try:
        sys.exit(main(sys.argv[1:]))
    except SystemExit:
        raise
    except InternalError as e:
        print("INTERNAL ERROR:", e)
        sys.exit(2)
    except Exception:
        traceback.print_exc()
        sys.exit(2)
