"""C14 runner — executes ONE history of public QuCumber operations in a fresh interpreter.

stdin : {"ops": [<op>, ...], "workdir": "<dir for saved files>"}
stdout: one JSON line {"records": [<per-op record>, ...], "final_params": [...]}

Per operation it records (nothing here uses numpy's or Python's global generators, except the
explicit foreign operations `ext`):
  * result: kind none|val|err, sha1 of the canonical bytes of the value / the exception class name;
  * sha1 of the parameter bytes of EVERY live state object before and after;
  * sha1 of torch.get_rng_state(), numpy.random.get_state(), random.getstate() before and after;
  * the calls made to torch's random functions (pass-through wrappers): [name, numel];
  * the calls made to torch.manual_seed / torch.seed / torch.set_rng_state.
Run with PYTHONPATH=<qucumber tree>:<verif root>; imports qucumber through harness.qc.
"""
import hashlib
import json
import os
import random
import struct
import sys

import numpy as np

from harness import qc  # sets sys.path for $QV_REPO, scipy stub, torch threads = 1
from harness.qc import torch

import qucumber  # noqa: E402
from qucumber.nn_states import ComplexWaveFunction, DensityMatrix, PositiveWaveFunction  # noqa: E402
from qucumber.observables import SWAP, NeighbourInteraction, SigmaX, SigmaY, SigmaZ, System  # noqa: E402
from qucumber.utils import training_statistics as ts  # noqa: E402
from qucumber.utils import unitaries  # noqa: E402

torch.set_num_threads(1)

# ------------------------------------------------------------------ recorders (pass-through)
CALLS = []
SEEDS = []


def _wrap_numel(name):
    orig = getattr(torch, name)

    def w(*a, **k):
        r = orig(*a, **k)
        CALLS.append([name, int(r.numel())])
        return r

    w.__wrapped__ = orig
    setattr(torch, name, w)


for _n in ("bernoulli", "randn", "randperm", "randint", "rand", "normal", "multinomial", "rand_like", "randn_like",
           "randint_like", "poisson"):
    _wrap_numel(_n)


def _wrap_seed(mod, name, label):
    orig = getattr(mod, name)

    def w(*a, **k):
        SEEDS.append([label] + [int(x) for x in a if isinstance(x, int)])
        return orig(*a, **k)

    setattr(mod, name, w)


_wrap_seed(torch, "manual_seed", "manual_seed")
_wrap_seed(torch, "seed", "seed")
_wrap_seed(torch, "set_rng_state", "set_rng_state")
_wrap_seed(torch.random, "manual_seed", "manual_seed")


# ------------------------------------------------------------------ hashing
def _h(b):
    return hashlib.sha1(b).hexdigest()[:20]


def canon(x):
    """canonical bytes of a result (bit-exact for floats)"""
    if x is None:
        return b"N"
    if isinstance(x, torch.Tensor):
        t = x.detach().cpu().contiguous()
        return b"T" + str(t.dtype).encode() + str(tuple(t.shape)).encode() + t.numpy().tobytes()
    if isinstance(x, np.ndarray):
        return b"A" + str(x.dtype).encode() + str(x.shape).encode() + np.ascontiguousarray(x).tobytes()
    if isinstance(x, (bool, np.bool_)):
        return b"B" + (b"1" if x else b"0")
    if isinstance(x, (int, np.integer)):
        return b"I" + str(int(x)).encode()
    if isinstance(x, (float, np.floating)):
        return b"F" + struct.pack("<d", float(x))
    if isinstance(x, complex):
        return b"C" + struct.pack("<dd", x.real, x.imag)
    if isinstance(x, str):
        return b"S" + x.encode()
    if isinstance(x, dict):
        return b"D" + b"".join(canon(k) + canon(v) for k, v in sorted(x.items(), key=lambda kv: str(kv[0])))
    if isinstance(x, (list, tuple)):
        return b"L" + str(len(x)).encode() + b"".join(canon(v) for v in x)
    raise TypeError(f"cannot canonicalise {type(x)}")


def param_hash(st):
    """everything the model's evaluations depend on: the parameters of every network AND the tensors of the state's unitary
    dictionary (read by every rotation / gradient in another basis, replaced by `load`)"""
    m = hashlib.sha1()
    for net in st.networks:
        rbm = getattr(st, net)
        for name, p in sorted(rbm.named_parameters(), key=lambda kv: kv[0]):
            m.update(name.encode())
            m.update(str(tuple(p.shape)).encode())
            m.update(p.detach().cpu().contiguous().numpy().tobytes())
    ud = getattr(st, "unitary_dict", None)
    if ud is not None:
        for name in sorted(ud):
            t = ud[name]
            m.update(b"U" + str(name).encode())
            m.update(str(tuple(t.shape)).encode() + str(t.dtype).encode())
            m.update(t.detach().cpu().contiguous().numpy().tobytes())
    return m.hexdigest()[:20]


def param_l1(st):
    tot = 0.0
    for net in st.networks:
        for _, p in sorted(getattr(st, net).named_parameters(), key=lambda kv: kv[0]):
            tot += float(p.detach().abs().sum())
    return repr(tot)


def rng_hashes():
    ns = np.random.get_state()
    nb = str(ns[0]).encode() + ns[1].tobytes() + str(ns[2:]).encode()
    return {
        "torch": _h(torch.get_rng_state().numpy().tobytes()),
        "numpy": _h(nb),
        "py": _h(repr(random.getstate()).encode()),
    }


# ------------------------------------------------------------------ operations
OBS = {
    "SigmaX": lambda: SigmaX(), "SigmaY": lambda: SigmaY(), "SigmaZ": lambda: SigmaZ(),
    "SigmaXabs": lambda: SigmaX(absolute=True),
    "SWAP": lambda: SWAP([0]), "Neighbour": lambda: NeighbourInteraction(),
    "NeighbourP": lambda: NeighbourInteraction(periodic_bcs=True),
}
OBS["Composite"] = lambda: 0.5 * SigmaZ() + 2 * SigmaX() - NeighbourInteraction() + 1.5  # composite observable (+, -, scalar *, constant)


class Extra:
    """a value observed on the side of an operation that itself returns None (what an evaluator callback recorded during `fit`)"""

    def __init__(self, v):
        self.v = v
OPT = {"SGD": torch.optim.SGD, "Adam": torch.optim.Adam, "Adadelta": torch.optim.Adadelta}
STATE_CLASSES = (PositiveWaveFunction, ComplexWaveFunction, DensityMatrix)


def public_api():
    """the public callables of the library that take or are a model (derived by introspection, never from a list): methods of
    the three state classes, of every observable class and of System, the functions of training_statistics and unitaries, the
    library's seeding call"""
    import inspect

    import qucumber.observables as obsmod

    names = set()
    for cls in STATE_CLASSES:
        for n, mem in inspect.getmembers(cls):
            if not n.startswith("_") and callable(mem):
                names.add(f"state.{n}")
    for n, cls in inspect.getmembers(obsmod, inspect.isclass):
        if n.startswith("_"):
            continue
        owner = "System" if cls is System else "observable"
        for mn, mem in inspect.getmembers(cls):
            if not mn.startswith("_") and callable(mem):
                names.add(f"{owner}.{mn}")
    for n, f in inspect.getmembers(obsmod, inspect.isfunction):
        if not n.startswith("_"):
            names.add(f"observables.{n}")
    for label, mod in (("training_statistics", ts), ("unitaries", unitaries)):
        for n, f in inspect.getmembers(mod, inspect.isfunction):
            if not n.startswith("_") and f.__module__ == mod.__name__:
                names.add(f"{label}.{n}")
    for n, f in inspect.getmembers(qucumber, inspect.isfunction):
        if not n.startswith("_"):
            names.add(f"qucumber.{n}")
    return sorted(names)


def tens(rows):
    return torch.tensor(rows, dtype=torch.double)


def bases_arr(bs):
    """list of basis strings -> (rows, n) array of single characters, as load_data produces"""
    return np.array([list(b) for b in bs])


def udict(st):
    return getattr(st, "unitary_dict", None) or unitaries.create_dict()


def do_op(op, states, workdir):
    t = op["t"]
    if t == "ext":
        w = op["what"]
        if w == "seedNumpy":
            np.random.seed(op["s"])
        elif w == "perturbNumpy":
            np.random.rand(op["m"])
        elif w == "seedPy":
            random.seed(op["s"])
        elif w == "perturbPy":
            for _ in range(op["m"]):
                random.random()
        else:
            raise KeyError(w)
        return None
    if t == "burn":
        torch.rand(op["m"])
        return None
    if t == "setSeed":
        qucumber.set_random_seed(op["s"], cpu=op["cpu"], gpu=op.get("gpu", False), quiet=True)
        return None
    if t == "construct":
        k = op["kind"]
        if k == "pos":
            st = PositiveWaveFunction(op["n"], num_hidden=op["h"], gpu=False)
        elif k == "cplx":
            st = ComplexWaveFunction(op["n"], num_hidden=op["h"], gpu=False)
        else:
            st = DensityMatrix(op["n"], num_hidden=op["h"], num_aux=op["a"], gpu=False)
        # deterministic (RNG-free) non-zero biases on every network, incl. the phase network's auxiliary bias, so that
        # "evaluation never changes a parameter" is examined away from the all-zero initialisation
        if op.get("fill", True):
            for net in st.networks:
                for name, p_ in getattr(st, net).named_parameters():
                    if "bias" in name:
                        p_.data.add_(0.05 * (1.0 + torch.arange(p_.numel(), dtype=torch.double)) * (-1.0 if "hidden" in name else 1.0))
        states.append(st)
        return None
    st = states[op["slot"]]  # IndexError for a missing slot
    if t == "reinit":
        st.reinitialize_parameters()
        return None
    if t == "sample":
        init = tens(op["init"]) if op.get("init") is not None else None
        r = st.sample(k=op["k"], num_samples=op["num"], initial_state=init, overwrite=bool(op.get("overwrite", False)))
        return [r, init] if op.get("overwrite") else r  # with overwrite the caller's tensor is part of the result
    if t == "obsSample":
        init = tens(op["init"]) if op.get("init") is not None else None
        return OBS[op["obs"]]().sample(st, k=op["k"], num_samples=op["num"], initial_state=init, overwrite=bool(op.get("overwrite", False)))
    if t == "statistics":
        obs = [OBS[o]() for o in op["obs"]]
        init = tens(op["init"]) if op.get("init") is not None else None
        target = obs[0] if len(obs) == 1 else System(*obs)
        r = target.statistics(st, num_samples=op["ns"], num_chains=op["nc"], burn_in=op["bi"], steps=op["steps"],
                              initial_state=init, overwrite=bool(op.get("overwrite", False)))
        return [r, init] if op.get("overwrite") else r
    if t == "fit":
        kw = dict(epochs=op["epochs"], pos_batch_size=op["posB"], neg_batch_size=op["negB"], k=op["k"], lr=op["lr"],
                  starting_epoch=op["start"], optimizer=OPT[op["optimizer"]], progbar=False)
        data = tens(op["data"])
        if op.get("bases") is not None:
            kw["input_bases"] = bases_arr(op["bases"])
        ev = op.get("evaluator")
        cbs = []
        if ev is not None:  # a callback that SAMPLES inside the epoch loop (Observable statistics every `period` epochs)
            from qucumber.callbacks import ObservableEvaluator

            cbs.append(ObservableEvaluator(ev["period"], [OBS[o]() for o in ev["obs"]], verbose=False, num_samples=ev["ns"],
                                           num_chains=ev["nc"], burn_in=ev["bi"], steps=ev["steps"]))
        if cbs:
            kw["callbacks"] = cbs
        if op.get("sched"):
            kw["scheduler"] = torch.optim.lr_scheduler.StepLR
            kw["scheduler_args"] = {"step_size": 1, "gamma": 0.5}
        if op.get("time"):
            kw["time"] = True
        r = st.fit(data, **kw)
        if ev is not None and r is None:  # what the evaluator recorded is an outcome of the training run (compared between runs)
            e = cbs[0]  # read back through the evaluator's public accessors only
            return Extra([[int(ep), {nm: e.get_value(nm, i) for nm in e.names}] for i, ep in enumerate(e.epochs)])
        return r
    if t == "eval":
        w = op["what"]
        v = tens(op["rows"])
        if w == "psi":
            return st.rho(v, v) if isinstance(st, DensityMatrix) else st.psi(v)
        if w == "probability":
            return st.probability(v, Z=op.get("Z", 1.0))
        if w == "normalization":
            return st.normalization(st.generate_hilbert_space())
        if w == "apply":
            return OBS[op["obs"]]().apply(st, v)
        if w == "sfs":
            return OBS[op["obs"]]().statistics_from_samples(st, v)
        if w == "sys_sfs":
            return System(*[OBS[o]() for o in op["obss"]]).statistics_from_samples(st, v)
        if w in ("amplitude", "phase"):  # wavefunctions only
            return getattr(st, w)(v)
        if w == "rho2":  # off-diagonal block rho(v, v') of a density matrix
            return st.rho(v, tens(op["rows2"]))
        if w == "pi":
            return st.pi(v, tens(op["rows2"]), expand=bool(op.get("expand", True)))
        if w == "is_denominator":
            return st.importance_sampling_denominator(v)
        if w in ("is_numerator", "is_weight"):
            vp = tens(op["rows2"])
            f = st.importance_sampling_numerator if w == "is_numerator" else st.importance_sampling_weight
            return f(vp, v)
        if w == "hilbert_space":
            return st.generate_hilbert_space(size=op.get("size"))
        if w == "subspace_vector":
            return st.subspace_vector(op["num"], size=op.get("size"))
        if w == "compute_normalization":
            return st.compute_normalization(st.generate_hilbert_space())
        raise KeyError(w)
    if t == "metric":
        w = op["what"]
        if w == "fidelity":
            return ts.fidelity(st, tens(op["target"]))
        if w == "KL":
            return ts.KL(st, tens(op["target"]), bases=op.get("bases"))
        if w == "NLL":
            sb = bases_arr(op["bases"]) if op.get("bases") is not None else None
            return ts.NLL(st, tens(op["rows"]), sample_bases=sb)
        raise KeyError(w)
    if t == "rotate":
        w = op["what"]
        space = st.generate_hilbert_space()
        ud = None if op.get("default_dict") else udict(st)  # unitaries=None: the state's own / the default dictionary
        extras = bool(op.get("extras", False))
        if w == "rotate_psi":
            psi = st.psi(space) if op.get("given") else None  # psi= : rotate an explicitly given vector
            return unitaries.rotate_psi(st, op["basis"], space, unitaries=ud, psi=psi)
        if w == "rotate_rho":
            rho = st.rho(space, space) if op.get("given") else None
            return unitaries.rotate_rho(st, op["basis"], space, unitaries=ud, rho=rho)
        if w == "inner_prod":
            psi = st.psi(space) if op.get("given") else None
            return unitaries.rotate_psi_inner_prod(st, op["basis"], tens(op["rows"]), unitaries=ud, psi=psi, include_extras=extras)
        if w == "rho_probs":
            rho = st.rho(space, space) if op.get("given") else None
            return unitaries.rotate_rho_probs(st, op["basis"], tens(op["rows"]), unitaries=ud, rho=rho, include_extras=extras)
        raise KeyError(w)
    if t == "gradient":
        w = op["what"]
        v = tens(op["rows"])
        b = bases_arr(op["bases"]) if op.get("bases") is not None else None
        pos = isinstance(st, PositiveWaveFunction)
        if w == "gradient":
            return st.gradient(v) if pos else st.gradient(v, bases=b)
        if w == "positive_phase":
            return st.positive_phase_gradients(v) if pos else st.positive_phase_gradients(v, bases_batch=b)
        if w == "exact":
            space = st.generate_hilbert_space()
            return st.compute_exact_gradients(v, space) if pos else st.compute_exact_gradients(v, space, bases_batch=b)
        if w == "rotated":
            return st.rotated_gradient(np.array(list(op["basis"])), v)
        if w == "exact_grads":  # PositiveWaveFunction's alias
            return st.compute_exact_grads(v, st.generate_hilbert_space())
        if w in ("am_grads", "ph_grads"):
            return getattr(st, w)(v)
        if w == "pi_grad":
            return st.pi_grad(v, tens(op["rows2"]), phase=bool(op.get("phase", False)), expand=bool(op.get("expand", False)))
        raise KeyError(w)
    if t == "batchGradient":
        v = tens(op["rows"])
        neg = tens(op["neg"])
        b = bases_arr(op["bases"]) if op.get("bases") is not None else None
        if isinstance(st, PositiveWaveFunction):
            return st.compute_batch_gradients(op["k"], v, neg)
        return st.compute_batch_gradients(op["k"], v, neg, bases_batch=b)
    if t == "save":
        md = op.get("metadata")
        if md is not None:  # save(path, metadata=...): the file gets extra keys, the model must stay as it is
            return st.save(os.path.join(workdir, f"f{op['path']}.pt"), metadata=dict(md))
        return st.save(os.path.join(workdir, f"f{op['path']}.pt"))
    if t == "load":
        return st.load(os.path.join(workdir, f"f{op['path']}.pt"))
    raise KeyError(t)


def source_fingerprint():
    """sha1 over every .py file of the qucumber tree this process imports from (the three processes of one history
    must have seen the same source; the check is run against a working tree that other people may be editing)"""
    m = hashlib.sha1()
    root = os.path.join(qc.REPO, "qucumber")
    for dp, dn, fs in sorted(os.walk(root)):
        dn.sort()
        for f in sorted(fs):
            if f.endswith(".py"):
                m.update(os.path.relpath(os.path.join(dp, f), root).encode())
                with open(os.path.join(dp, f), "rb") as fh:
                    m.update(fh.read())
    return m.hexdigest()[:20]


def main():
    src_start = source_fingerprint()
    req = json.loads(sys.stdin.read())
    workdir = req["workdir"]
    os.makedirs(workdir, exist_ok=True)
    states = []
    records = []
    for op in req["ops"]:
        del CALLS[:]
        del SEEDS[:]
        before_p = [param_hash(s) for s in states]
        before_r = rng_hashes()
        rec = {"t": op["t"]}
        try:
            val = do_op(op, states, workdir)
            if val is None:
                rec["out"] = {"kind": "none"}
            elif isinstance(val, Extra):
                rec["out"] = {"kind": "none", "extra": _h(canon(val.v))}
            else:
                rec["out"] = {"kind": "val", "hash": _h(canon(val))}
        except Exception as e:  # noqa: BLE001 — error kinds are observations
            rec["out"] = {"kind": "err", "error": type(e).__name__, "msg": str(e)[:200]}
        rec["rng_before"] = before_r
        rec["rng_after"] = rng_hashes()
        rec["params_before"] = before_p
        rec["params_after"] = [param_hash(s) for s in states]
        if op["t"] in ("fit", "reinit", "load", "construct"):
            # diagnostic only (never compared): lets a reader of a replay file see whether a difference is
            # rounding-sized or draw-sized
            rec["params_l1"] = [param_l1(s) for s in states]
        rec["calls"] = [list(c) for c in CALLS]
        rec["seeds"] = [list(s) for s in SEEDS]
        records.append(rec)
    sys.stdout.write("C14RESULT " + json.dumps({"records": records, "final_params": [param_hash(s) for s in states],
                                                "repo": qc.REPO, "module": os.path.dirname(qucumber.__file__), "api": public_api(),
                                                "src": [src_start, source_fingerprint()]}) + "\n")


if __name__ == "__main__":
    main()
