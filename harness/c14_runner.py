"""C14 runner — executes ONE history of public QuCumber operations in a fresh interpreter.

stdin : {"ops": [<op>, ...], "workdir": "<dir for saved files>", "env": <name of a process-global environment of harness/common.py ENVS, or null>}
        (the whole history — constructions included — is executed INSIDE that environment: default dtype float64 / no_grad / another cwd)
stdout: one JSON line {"records": [<per-op record>, ...], "final_params": [...]}

Per operation it records (nothing here uses numpy's or Python's global generators, except the
explicit foreign operations `ext`):
  * result: kind none|val|err, sha1 of the canonical bytes of the value / the exception class name;
  * sha1 of the parameter bytes of EVERY live state object before and after;
  * sha1 of torch.get_rng_state(), numpy.random.get_state(), random.getstate() before and after;
  * the calls made to torch's random functions (pass-through wrappers): [name, numel];
  * the calls made to torch.manual_seed / torch.seed / torch.set_rng_state.
  * `forms` / `layout`: the form in which every boolean / integer option was handed over ([call.option, form, positional?]) and how
    many options of each call went positionally; the objects are rebuilt here from the operation's `fseed` / `iseed` (class Forms).
Run with PYTHONPATH=<qucumber tree>:<verif root>; imports qucumber through harness.qc.
"""
import hashlib
import json
import os
import random
import struct
import sys

import numpy as np

from harness import qc  # sets sys.path for $QV_REPO, scipy stub, torch threads = 1
from harness.qc import torch

import qucumber  # noqa: E402
from qucumber.nn_states import ComplexWaveFunction, DensityMatrix, PositiveWaveFunction  # noqa: E402
from qucumber.observables import SWAP, NeighbourInteraction, SigmaX, SigmaY, SigmaZ, System  # noqa: E402
from qucumber.utils import training_statistics as ts  # noqa: E402
from qucumber.utils import unitaries  # noqa: E402

torch.set_num_threads(1)
START_CWD = os.getcwd()

# ------------------------------------------------------------------ recorders (pass-through)
CALLS = []
SEEDS = []


def _wrap_numel(name):
    orig = getattr(torch, name)

    def w(*a, **k):
        r = orig(*a, **k)
        CALLS.append([name, int(r.numel())])
        return r

    w.__wrapped__ = orig
    setattr(torch, name, w)


for _n in ("bernoulli", "randn", "randperm", "randint", "rand", "normal", "multinomial", "rand_like", "randn_like",
           "randint_like", "poisson"):
    _wrap_numel(_n)


def _wrap_tensor_method(name, inplace):
    """the same generator reached through a Tensor method (`p.bernoulli()`, `x.bernoulli_(0.5)`, `x.normal_()`, `x.random_(2)` …): a
    stream-identical rewrite of `torch.bernoulli(p)` must record the same number of elements (the C++ kernels of the module-level
    functions do not pass through these Python attributes, so nothing is counted twice)"""
    orig = getattr(torch.Tensor, name)

    def w(self, *a, **k):
        r = orig(self, *a, **k)
        CALLS.append(["Tensor." + name, int((self if inplace else r).numel())])
        return r

    w.__wrapped__ = orig
    setattr(torch.Tensor, name, w)


for _n, _ip in (("bernoulli", False), ("multinomial", False), ("bernoulli_", True), ("normal_", True), ("random_", True), ("uniform_", True),
                ("exponential_", True), ("geometric_", True), ("cauchy_", True), ("log_normal_", True)):
    _wrap_tensor_method(_n, _ip)


def _wrap_seed(mod, name, label):
    orig = getattr(mod, name)

    def w(*a, **k):
        SEEDS.append([label] + [int(x) for x in a if isinstance(x, int)])
        return orig(*a, **k)

    setattr(mod, name, w)


_wrap_seed(torch, "manual_seed", "manual_seed")
_wrap_seed(torch, "seed", "seed")
_wrap_seed(torch, "set_rng_state", "set_rng_state")
_wrap_seed(torch.random, "manual_seed", "manual_seed")


# ------------------------------------------------------------------ hashing
def _h(b):
    return hashlib.sha1(b).hexdigest()[:20]


def canon(x):
    """canonical bytes of a result (bit-exact for floats)"""
    if x is None:
        return b"N"
    if isinstance(x, torch.Tensor):
        t = x.detach().cpu().contiguous()
        return b"T" + str(t.dtype).encode() + str(tuple(t.shape)).encode() + t.numpy().tobytes()
    if isinstance(x, np.ndarray):
        return b"A" + str(x.dtype).encode() + str(x.shape).encode() + np.ascontiguousarray(x).tobytes()
    if isinstance(x, (bool, np.bool_)):
        return b"B" + (b"1" if x else b"0")
    if isinstance(x, (int, np.integer)):
        return b"I" + str(int(x)).encode()
    if isinstance(x, (float, np.floating)):
        return b"F" + struct.pack("<d", float(x))
    if isinstance(x, complex):
        return b"C" + struct.pack("<dd", x.real, x.imag)
    if isinstance(x, str):
        return b"S" + x.encode()
    if isinstance(x, dict):
        return b"D" + b"".join(canon(k) + canon(v) for k, v in sorted(x.items(), key=lambda kv: str(kv[0])))
    if isinstance(x, (list, tuple)):
        return b"L" + str(len(x)).encode() + b"".join(canon(v) for v in x)
    raise TypeError(f"cannot canonicalise {type(x)}")


def param_hash(st):
    """everything the model's evaluations depend on: the parameters of every network AND the tensors of the state's unitary
    dictionary (read by every rotation / gradient in another basis, replaced by `load`)"""
    m = hashlib.sha1()
    for net in st.networks:
        rbm = getattr(st, net)
        for name, p in sorted(rbm.named_parameters(), key=lambda kv: kv[0]):
            m.update(name.encode())
            m.update(str(tuple(p.shape)).encode())
            m.update(p.detach().cpu().contiguous().numpy().tobytes())
    ud = getattr(st, "unitary_dict", None)
    if ud is not None:
        for name in sorted(ud):
            t = ud[name]
            m.update(b"U" + str(name).encode())
            m.update(str(tuple(t.shape)).encode() + str(t.dtype).encode())
            m.update(t.detach().cpu().contiguous().numpy().tobytes())
    return m.hexdigest()[:20]


def param_l1(st):
    tot = 0.0
    for net in st.networks:
        for _, p in sorted(getattr(st, net).named_parameters(), key=lambda kv: kv[0]):
            tot += float(p.detach().abs().sum())
    return repr(tot)


def rng_hashes():
    ns = np.random.get_state()
    nb = str(ns[0]).encode() + ns[1].tobytes() + str(ns[2:]).encode()
    return {
        "torch": _h(torch.get_rng_state().numpy().tobytes()),
        "numpy": _h(nb),
        "py": _h(repr(random.getstate()).encode()),
    }


# ------------------------------------------------------------------ argument forms (round 5: "Argument-form sweep" in notes/C14.md)
# Every boolean option of every public call made below is handed over in one of qc.FLAG_FORMS (bool singleton, int 0/1, numpy.bool_,
# result of a numpy comparison, 0-d numpy array, 0-d torch tensor), every integer option in one of qc.INT_FORMS (+ numpy.uint64 for
# the seed), by keyword or -- a random prefix of the documented parameter order -- positionally.  The objects are rebuilt HERE, in the
# runner process, from the two seeds the operation carries ("fseed" -> qc.Flags, "iseed" -> qc.Ints): the same operation therefore
# hands over the same objects in every run and in every replay.  An operation WITHOUT those keys (corpus/C14/*.json, replays stored
# before this round) is executed exactly as it always was: plain Python values, the legacy keyword / positional layout.
# Forms the CLEAN tree rejects or misbehaves on are left out per option (probe: notes/C14.md):
A_ALL = tuple(qc.INT_FORMS)                                 # pure loop counts (k, burn_in, steps) and sizes the library converts with int()
#                                                             at once (num_visible, num_hidden, num_aux, size)
# numpy.uint8 is left out for every count that may enter arithmetic (num_samples, num_chains, batch sizes, epochs, starting_epoch, period,
# num, the seed): in NumPy 2 `-(-N // np.uint8(2))` raises OverflowError and `np.uint8(1) - np.uint8(3)` wraps to 254 inside numpy
# itself, so a HARMLESS rewrite (ceiling idiom, `epochs - starting_epoch`) would raise a false alarm on that form
A_ARITH = tuple(f for f in qc.INT_FORMS if f != "np.uint8")
A_STAT = tuple(f for f in A_ARITH if f != "t0d")            # a 0-d tensor as num_samples / num_chains turns the running statistics into
#                                                             float32 tensors; as subspace_vector(num) it raises ValueError
A_PY = ("py",)


def seed_forms(s):
    """the forms in which the VALUE s can be handed to torch.manual_seed at all (all of them are accepted by the clean tree and leave the
    generator in the state of the plain Python int; established over the whole range [-2^63, 2^64))"""
    a = ["py"]
    if -2 ** 63 <= s < 2 ** 63:
        a += ["np.int64", "np.intp", "np0d", "t0d"]
    if -2 ** 31 <= s < 2 ** 31:
        a.append("np.int32")
    if 2 ** 63 <= s < 2 ** 64:
        a.append("np0d")        # numpy.array(s) is a 0-d uint64 array there
    return a


class Opt:
    """one argument of a call in signature order: `entry` is its record in Forms.used (None for a non-option argument), `omit`: leave
    it out altogether when it is not inside the positional prefix (an optional argument at its default)"""

    def __init__(self, name, value, entry=None, omit=False):
        self.name, self.value, self.entry, self.omit = name, value, entry, omit


class Forms:
    """the argument objects of ONE operation"""

    def __init__(self, op):
        self.fl = qc.Flags(op.get("fseed"))
        self.it = qc.Ints(op.get("iseed"))
        fs = op.get("fseed")
        self.legacy = fs is None
        # never a 0-d numpy array for one option and a 0-d torch tensor for ANOTHER option of the same operation: arithmetic between the two
        # (`np.array(7) - torch.tensor(2)`) raises TypeError inside numpy / torch themselves, whatever the library does with its options
        self.drop = "t0d" if (op.get("iseed") or 0) % 2 else "np0d"
        self.prng = None if fs is None else random.Random((fs * 2654435761 + 17) % 2 ** 32)   # positional prefixes (private generator)
        self.used = []      # [call.option, form, handed over positionally?]
        self.layout = []    # [call, how many of its options went positionally: none / some / all]

    def flag(self, call, name, b, omit=False):
        v, d = self.fl(b)
        e = [f"{call}.{name}", d["form"], False]
        self.used.append(e)
        return Opt(name, v, e, omit)

    def int(self, call, name, n, allowed=A_ALL, omit=False):
        if n is None:                       # "not given" stays None
            return Opt(name, None, None, omit)
        v, d = self.it(n, allowed=tuple(f for f in allowed if f != self.drop))
        e = [f"{call}.{name}", d["form"], False]
        self.used.append(e)
        return Opt(name, v, e, omit)

    def seed(self, call, name, s):
        """the seed: any Python int; values numpy's / torch's 64-bit types cannot hold stay Python ints"""
        if self.it.rng is not None and 0 <= s < 2 ** 64 and self.it.rng.random() < 0.12:
            e = [f"{call}.{name}", "np.uint64", False]
            self.used.append(e)
            return Opt(name, np.uint64(s), e)
        if self.it.rng is None or not (-2 ** 63 <= s < 2 ** 64):
            e = [f"{call}.{name}", "py", False]
            self.used.append(e)
            return Opt(name, s, e)
        other = [f for f in seed_forms(s) if f not in ("py", self.drop)]
        form = "py" if (self.it.rng.random() < 0.2 or not other) else self.it.rng.choice(other)
        v = np.array(s) if form == "np0d" else qc.int_value(form, s)
        e = [f"{call}.{name}", form, False]
        self.used.append(e)
        return Opt(name, v, e)

    def call(self, label, f, lead, opts, legacy_pos=0, **extra_kw):
        """f(*lead, <opts>, **extra_kw): `opts` are the parameters that follow `lead` in the documented order; a prefix of them is
        handed over positionally (legacy: the first `legacy_pos`), the rest by keyword"""
        if self.prng is None:
            p = legacy_pos
        else:
            p = 0 if self.prng.random() < 0.5 else self.prng.randint(1, len(opts))
        args = list(lead)
        kw = {}
        for i, o in enumerate(opts):
            if i < p:
                args.append(o.value)
                if o.entry is not None:
                    o.entry[2] = True
            elif not o.omit:
                kw[o.name] = o.value
        self.layout.append([label, "none" if p == 0 else "all" if p == len(opts) else "some"])
        kw.update(extra_kw)
        return f(*args, **kw)


FORMS = [None]   # the Forms of the operation being executed (read by main() for the record)


# ------------------------------------------------------------------ operations
def make_obs(name, F):
    """the observable `name`; its boolean constructor options in the forms of the operation's stream (legacy: as it always was)"""
    if name == "Composite":   # composite observable (+, -, scalar *, constant)
        return 0.5 * make_obs("SigmaZ", F) + 2 * make_obs("SigmaX", F) - make_obs("Neighbour", F) + 1.5
    if name == "SWAP":
        return SWAP([0])
    if name in ("SigmaX", "SigmaY", "SigmaZ", "SigmaXabs"):
        cls = {"SigmaX": SigmaX, "SigmaY": SigmaY, "SigmaZ": SigmaZ, "SigmaXabs": SigmaX}[name]
        ab = name == "SigmaXabs"
        return F.call(cls.__name__, cls, [], [F.flag(cls.__name__, "absolute", ab, omit=F.legacy and not ab)])
    if name in ("Neighbour", "NeighbourP"):
        pb = name == "NeighbourP"
        return F.call("NeighbourInteraction", NeighbourInteraction, [],
                      [F.flag("NeighbourInteraction", "periodic_bcs", pb, omit=F.legacy and not pb)])
    raise KeyError(name)


OBS = {n: (lambda n=n: make_obs(n, Forms({}))) for n in ("SigmaX", "SigmaY", "SigmaZ", "SigmaXabs", "SWAP", "Neighbour", "NeighbourP", "Composite")}


class Extra:
    """a value observed on the side of an operation that itself returns None (what an evaluator callback recorded during `fit`)"""

    def __init__(self, v):
        self.v = v
OPT = {"SGD": torch.optim.SGD, "Adam": torch.optim.Adam, "Adadelta": torch.optim.Adadelta}
STATE_CLASSES = (PositiveWaveFunction, ComplexWaveFunction, DensityMatrix)


def public_api():
    """the public callables of the library that take or are a model (derived by introspection, never from a list): methods of
    the three state classes, of every observable class and of System, the functions of training_statistics and unitaries, the
    library's seeding call"""
    import inspect

    import qucumber.observables as obsmod

    names = set()
    for cls in STATE_CLASSES:
        for n, mem in inspect.getmembers(cls):
            if not n.startswith("_") and callable(mem):
                names.add(f"state.{n}")
    # ... and the public methods of the anchored RBM classes: `NeuralStateBase.__getattr__` forwards every name a state does not
    # define to `rbm_am`, so `state.gibbs_steps(...)`, `state.initialize_parameters()`, `state.effective_energy(v)` … are public
    # operations on a state too (torch.nn.Module's own members are not the library's)
    import torch.nn as nn
    from qucumber.rbm import BinaryRBM, PurificationRBM

    module_members = {n for n, _ in inspect.getmembers(nn.Module)}
    for cls in (BinaryRBM, PurificationRBM):
        for n, mem in inspect.getmembers(cls):
            if not n.startswith("_") and callable(mem) and n not in module_members:
                names.add(f"rbm.{n}")
    for n, cls in inspect.getmembers(obsmod, inspect.isclass):
        if n.startswith("_"):
            continue
        owner = "System" if cls is System else "observable"
        for mn, mem in inspect.getmembers(cls):
            if not mn.startswith("_") and callable(mem):
                names.add(f"{owner}.{mn}")
    for n, f in inspect.getmembers(obsmod, inspect.isfunction):
        if not n.startswith("_"):
            names.add(f"observables.{n}")
    for label, mod in (("training_statistics", ts), ("unitaries", unitaries)):
        for n, f in inspect.getmembers(mod, inspect.isfunction):
            if not n.startswith("_") and f.__module__ == mod.__name__:
                names.add(f"{label}.{n}")
    for n, f in inspect.getmembers(qucumber, inspect.isfunction):
        if not n.startswith("_"):
            names.add(f"qucumber.{n}")
    return sorted(names)


def resolution_probe():
    """(extension round 2) who answers `state.<name>`: for one small state of every kind and every public method name of the two RBM
    classes, every public name the state class defines and one unknown name -> [kind, name, defined by the state itself?, outcome] with
    outcome in own / forwarded (a bound method of `rbm_am`) / forwarded-elsewhere / attributeError; plus, per kind, whether
    compute_normalization(space), normalization(space) and the forwarded partition(space) return bit-identical values"""
    import inspect
    import torch.nn as nn
    from qucumber.rbm import BinaryRBM, PurificationRBM
    module_members = {n for n, _ in inspect.getmembers(nn.Module)}
    rbm_names = sorted({n for cls in (BinaryRBM, PurificationRBM) for n, mem in inspect.getmembers(cls)
                        if not n.startswith("_") and callable(mem) and n not in module_members})
    rows, alias = [], []
    for kind, cls in zip(("pos", "cplx", "dens"), STATE_CLASSES):
        st = cls(2, 2, 2, gpu=False) if kind == "dens" else cls(2, 2, gpu=False)
        own_names = sorted(n for n, _ in inspect.getmembers(cls) if not n.startswith("_"))
        for name in rbm_names + own_names + ["no_such_attribute"]:
            own = name in vars(st) or any(name in vars(c) for c in type(st).__mro__)
            try:
                v = getattr(st, name)
            except AttributeError:
                rows.append([kind, name, own, "attributeError"])
                continue
            if own:
                rows.append([kind, name, own, "own"])
            else:
                rows.append([kind, name, own, "forwarded" if getattr(v, "__self__", None) is st.rbm_am else "forwarded-elsewhere"])
        sp = st.generate_hilbert_space()
        a, b, c = st.compute_normalization(sp), st.normalization(sp), st.partition(sp)
        alias.append([kind, bool(torch.equal(a, b) and torch.equal(b, c))])
    return {"rows": rows, "alias": alias}


def tens(rows):
    return torch.tensor(rows, dtype=torch.double)


def bases_arr(bs):
    """list of basis strings -> (rows, n) array of single characters, as load_data produces"""
    return np.array([list(b) for b in bs])


def udict(st):
    return getattr(st, "unitary_dict", None) or unitaries.create_dict()


def stat_opts(F, c, ns, nc, bi, steps):
    """num_samples, num_chains, burn_in, steps of Observable/System.statistics (and of the evaluator's sampling_kwargs).  Left out on the
    clean tree: a 0-d tensor as num_samples / num_chains (the running mean / variance become float32 tensors); num_samples = 0 is the
    ZeroDivisionError case of the model (a numpy zero gives NaN and a ValueError instead), so 0 is only handed over as a Python int"""
    return [F.int(c, "num_samples", ns, allowed=A_STAT if ns else A_PY), F.int(c, "num_chains", nc, allowed=A_STAT if ns else A_PY),
            F.int(c, "burn_in", bi), F.int(c, "steps", steps)]



def _fill_biases(st):
    """deterministic (RNG-free) non-zero biases on every network, a function of the parameter shapes only"""
    for net in st.networks:
        for name, p_ in getattr(st, net).named_parameters():
            if "bias" in name:
                p_.data.add_(0.05 * (1.0 + torch.arange(p_.numel(), dtype=torch.double)) * (-1.0 if "hidden" in name else 1.0))


def do_op(op, states, workdir):
    t = op["t"]
    F = FORMS[0] = Forms(op)
    if t == "ext":
        w = op["what"]
        if w == "seedNumpy":
            np.random.seed(op["s"])
        elif w == "perturbNumpy":
            np.random.rand(op["m"])
        elif w == "seedPy":
            random.seed(op["s"])
        elif w == "perturbPy":
            for _ in range(op["m"]):
                random.random()
        else:
            raise KeyError(w)
        return None
    if t == "burn":
        torch.rand(op["m"])
        return None
    if t == "setSeed":
        c = "set_random_seed"
        F.call(c, qucumber.set_random_seed, [], [F.seed(c, "seed", op["s"]), F.flag(c, "cpu", op["cpu"]), F.flag(c, "gpu", op.get("gpu", False)),
                                                 F.flag(c, "quiet", True)], legacy_pos=1)
        return None
    if t == "construct":
        k = op["kind"]
        cls = {"pos": PositiveWaveFunction, "cplx": ComplexWaveFunction, "dens": DensityMatrix}[k]
        c = cls.__name__
        opts = [F.int(c, "num_visible", op["n"]), F.int(c, "num_hidden", op["h"])]
        if k == "dens":
            opts.append(F.int(c, "num_aux", op["a"]))
        if k != "pos":
            opts.append(Opt("unitary_dict", None, omit=True))
        opts.append(F.flag(c, "gpu", op.get("gpu", False)))   # gpu=True on a CUDA-less process: a warning, then the CPU
        st = F.call(c, cls, [], opts, legacy_pos=1)
        # deterministic (RNG-free) non-zero biases on every network, incl. the phase network's auxiliary bias, so that
        # "evaluation never changes a parameter" is examined away from the all-zero initialisation
        if op.get("fill", True):
            _fill_biases(st)
        states.append(st)
        return None
    st = states[op["slot"]]  # IndexError for a missing slot
    if t == "reinit":
        st.reinitialize_parameters()
        # the same RNG-free fill as after construction: "parameters after an initialisation" is then ONE function of (architecture,
        # draws) for both operations, which is what the token model assumes.  (Without it a history in which two seeds equal modulo
        # 2^32 are each followed by the same number of draws and an initialisation of the same architecture made the model predict
        # equal parameters where the recorded ones differed by the fill: clean-tree alarm at VERIF_SEED=52, notes/C14.md.)
        if op.get("fill", True):
            _fill_biases(st)
        return None
    if t == "sample":
        init = tens(op["init"]) if op.get("init") is not None else None
        c = "state.sample"
        r = F.call(c, st.sample, [], [F.int(c, "k", op["k"]), F.int(c, "num_samples", op["num"], allowed=A_ARITH), Opt("initial_state", init),
                                      F.flag(c, "overwrite", op.get("overwrite", False))])
        return [r, init] if op.get("overwrite") else r  # with overwrite the caller's tensor is part of the result
    if t == "obsSample":
        init = tens(op["init"]) if op.get("init") is not None else None
        c = "observable.sample"
        return F.call(c, make_obs(op["obs"], F).sample, [st], [F.int(c, "k", op["k"]), F.int(c, "num_samples", op["num"], allowed=A_ARITH), Opt("initial_state", init),
                                                               F.flag(c, "overwrite", op.get("overwrite", False))])
    if t == "statistics":
        obs = [make_obs(o, F) for o in op["obs"]]
        init = tens(op["init"]) if op.get("init") is not None else None
        target = obs[0] if len(obs) == 1 else System(*obs)
        c = "observable.statistics" if len(obs) == 1 else "System.statistics"
        r = F.call(c, target.statistics, [st], stat_opts(F, c, op["ns"], op["nc"], op["bi"], op["steps"])
                   + [Opt("initial_state", init), F.flag(c, "overwrite", op.get("overwrite", False))])
        return [r, init] if op.get("overwrite") else r
    if t == "fit":
        c = "state.fit"
        kw = {}
        data = tens(op["data"])
        if op.get("np_data"):  # the DOCUMENTED type of `data` is numpy.ndarray (branch `torch.tensor(data, …)` of fit)
            data = np.array(op["data"], dtype=np.float64)
        ev = op.get("evaluator")
        cbs = []
        if ev is not None:  # a callback that SAMPLES inside the epoch loop (Observable statistics every `period` epochs)
            from qucumber.callbacks import ObservableEvaluator

            ce = "ObservableEvaluator"
            so = stat_opts(F, ce, ev["ns"], ev["nc"], ev["bi"], ev["steps"])   # **sampling_kwargs: keyword only
            cbs.append(F.call(ce, ObservableEvaluator, [], [F.int(ce, "period", ev["period"], allowed=A_ARITH), Opt("observables", [make_obs(o, F) for o in ev["obs"]]),
                                                            F.flag(ce, "verbose", False)], legacy_pos=2, **{o.name: o.value for o in so}))
        if op.get("sched"):
            kw["scheduler"] = torch.optim.lr_scheduler.StepLR
            kw["scheduler_args"] = {"step_size": 1, "gamma": 0.5}
        # pos_batch_size = 0 is the ZeroDivisionError case of the model (a numpy zero gives inf and an OverflowError instead)
        opts = [F.int(c, "epochs", op["epochs"], allowed=A_ARITH), F.int(c, "pos_batch_size", op["posB"], allowed=A_ARITH if op["posB"] else A_PY),
                F.int(c, "neg_batch_size", op["negB"], allowed=A_ARITH), F.int(c, "k", op["k"]), Opt("lr", op["lr"])]
        if not isinstance(st, PositiveWaveFunction):   # (PositiveWaveFunction.fit has no `input_bases` parameter)
            opts.append(Opt("input_bases", bases_arr(op["bases"]) if op.get("bases") is not None else None, omit=op.get("bases") is None))
        elif op.get("bases") is not None:
            kw["input_bases"] = bases_arr(op["bases"])
        opts += [F.flag(c, "progbar", False),   # tested with `is False` by the library: a falsy non-singleton shows the bar (stderr only)
                F.int(c, "starting_epoch", op["start"], allowed=A_ARITH), F.flag(c, "time", op.get("time", False), omit=F.legacy and not op.get("time")),
                Opt("callbacks", cbs if cbs else None, omit=not cbs), Opt("optimizer", OPT[op["optimizer"]])]
        r = F.call(c, st.fit, [data], opts, **kw)
        if ev is not None and r is None:  # what the evaluator recorded is an outcome of the training run (compared between runs)
            e = cbs[0]  # read back through the evaluator's public accessors only
            return Extra([[int(ep), {nm: e.get_value(nm, i) for nm in e.names}] for i, ep in enumerate(e.epochs)])
        return r
    if t == "eval":
        w = op["what"]
        v = tens(op["rows"])
        if w == "psi":
            return st.rho(v, v) if isinstance(st, DensityMatrix) else st.psi(v)
        if w == "probability":
            return st.probability(v, Z=op.get("Z", 1.0))
        if w == "normalization":
            return st.normalization(st.generate_hilbert_space())
        if w == "apply":
            return make_obs(op["obs"], F).apply(st, v)
        if w == "sfs":
            return make_obs(op["obs"], F).statistics_from_samples(st, v)
        if w == "sys_sfs":
            return System(*[make_obs(o, F) for o in op["obss"]]).statistics_from_samples(st, v)
        if w in ("amplitude", "phase"):  # wavefunctions only
            return getattr(st, w)(v)
        if w == "rho2":  # off-diagonal block rho(v, v') of a density matrix
            return st.rho(v, tens(op["rows2"]))
        if w == "pi":
            return F.call("state.pi", st.pi, [v, tens(op["rows2"])], [F.flag("state.pi", "expand", op.get("expand", True))])
        if w == "is_denominator":
            return st.importance_sampling_denominator(v)
        if w in ("is_numerator", "is_weight"):
            vp = tens(op["rows2"])
            f = st.importance_sampling_numerator if w == "is_numerator" else st.importance_sampling_weight
            return f(vp, v)
        if w == "hilbert_space":
            return F.call("state.generate_hilbert_space", st.generate_hilbert_space, [], [F.int("state.generate_hilbert_space", "size", op.get("size"))])
        if w == "subspace_vector":
            c = "state.subspace_vector"   # num: a 0-d tensor raises ValueError ("step must be greater than zero") on the clean tree
            return F.call(c, st.subspace_vector, [], [F.int(c, "num", op["num"], allowed=A_STAT), F.int(c, "size", op.get("size"))], legacy_pos=1)
        if w == "compute_normalization":
            return st.compute_normalization(st.generate_hilbert_space())
        if w.startswith("fwd_"):
            # a public method of the anchored RBM class, called ON THE STATE: `NeuralStateBase.__getattr__` forwards every name the
            # state does not define to `rbm_am`, so these are public operations on a state as well (read-only evaluators, no draws)
            name = w[4:]
            if name in vars(type(st)) or any(name in vars(c) for c in type(st).__mro__[:-1]):
                raise KeyError(f"{name} is defined on the state class: not a forwarded call")
            f = getattr(st, name)
            rbm = st.rbm_am
            hid = lambda m: torch.tensor([[float((3 * i + 5 * j + len(op["rows"])) % 2) for j in range(m)] for i in range(len(op["rows"]))],  # noqa: E731
                                         dtype=torch.double)
            if name in ("effective_energy", "effective_energy_gradient", "prob_h_given_v", "prob_a_given_v", "mixing_term"):
                return f(v)
            if name == "partition":
                return f(st.generate_hilbert_space())
            if name == "prob_v_given_h":
                return f(hid(rbm.num_hidden))
            if name == "prob_v_given_ha":
                return f(hid(rbm.num_hidden), hid(rbm.num_aux))
            if name in ("gamma", "gamma_grad"):
                return f(v, tens(op["rows2"]))
            raise KeyError(w)
        raise KeyError(w)
    if t == "metric":
        w = op["what"]
        if w == "fidelity":
            return ts.fidelity(st, tens(op["target"]))
        if w == "KL":
            return ts.KL(st, tens(op["target"]), bases=op.get("bases"))
        if w == "NLL":
            sb = bases_arr(op["bases"]) if op.get("bases") is not None else None
            return ts.NLL(st, tens(op["rows"]), sample_bases=sb)
        raise KeyError(w)
    if t == "rotate":
        w = op["what"]
        space = st.generate_hilbert_space()
        ud = None if op.get("default_dict") else udict(st)  # unitaries=None: the state's own / the default dictionary
        extras = lambda c: F.flag(c, "include_extras", op.get("extras", False))  # noqa: E731
        if w == "rotate_psi":
            psi = st.psi(space) if op.get("given") else None  # psi= : rotate an explicitly given vector
            return unitaries.rotate_psi(st, op["basis"], space, unitaries=ud, psi=psi)
        if w == "rotate_rho":
            rho = st.rho(space, space) if op.get("given") else None
            return unitaries.rotate_rho(st, op["basis"], space, unitaries=ud, rho=rho)
        if w == "inner_prod":
            psi = st.psi(space) if op.get("given") else None
            c = "unitaries.rotate_psi_inner_prod"
            return F.call(c, unitaries.rotate_psi_inner_prod, [st, op["basis"], tens(op["rows"])], [Opt("unitaries", ud), Opt("psi", psi), extras(c)])
        if w == "rho_probs":
            rho = st.rho(space, space) if op.get("given") else None
            c = "unitaries.rotate_rho_probs"
            return F.call(c, unitaries.rotate_rho_probs, [st, op["basis"], tens(op["rows"])], [Opt("unitaries", ud), Opt("rho", rho), extras(c)])
        raise KeyError(w)
    if t == "gradient":
        w = op["what"]
        v = tens(op["rows"])
        b = bases_arr(op["bases"]) if op.get("bases") is not None else None
        pos = isinstance(st, PositiveWaveFunction)
        if w == "gradient":
            return st.gradient(v) if pos else st.gradient(v, bases=b)
        if w == "positive_phase":
            return st.positive_phase_gradients(v) if pos else st.positive_phase_gradients(v, bases_batch=b)
        if w == "exact":
            space = st.generate_hilbert_space()
            return st.compute_exact_gradients(v, space) if pos else st.compute_exact_gradients(v, space, bases_batch=b)
        if w == "rotated":
            return st.rotated_gradient(np.array(list(op["basis"])), v)
        if w == "exact_grads":  # PositiveWaveFunction's alias
            return st.compute_exact_grads(v, st.generate_hilbert_space())
        if w in ("am_grads", "ph_grads"):
            return getattr(st, w)(v)
        if w == "pi_grad":
            c = "state.pi_grad"
            return F.call(c, st.pi_grad, [v, tens(op["rows2"])], [F.flag(c, "phase", op.get("phase", False)), F.flag(c, "expand", op.get("expand", False))])
        raise KeyError(w)
    if t == "batchGradient":
        if op.get("fwd"):  # `state.gibbs_steps(k, chains)`: the RBM's method reached through the state's attribute forwarding
            return st.gibbs_steps(op["k"], tens(op["neg"]))
        v = tens(op["rows"])
        neg = tens(op["neg"])
        b = bases_arr(op["bases"]) if op.get("bases") is not None else None
        c = "state.compute_batch_gradients"
        opts = [F.int(c, "k", op["k"]), Opt("samples_batch", v), Opt("neg_batch", neg)]
        if not isinstance(st, PositiveWaveFunction):
            opts.append(Opt("bases_batch", b))
        return F.call(c, st.compute_batch_gradients, [], opts, legacy_pos=3)
    if t == "save":
        md = op.get("metadata")
        if md is not None:  # save(path, metadata=...): the file gets extra keys, the model must stay as it is
            return st.save(os.path.join(workdir, f"f{op['path']}.pt"), metadata=dict(md))
        return st.save(os.path.join(workdir, f"f{op['path']}.pt"))
    if t == "load":
        return st.load(os.path.join(workdir, f"f{op['path']}.pt"))
    raise KeyError(t)


def source_fingerprint():
    """sha1 over every .py file of the qucumber tree this process imports from (the three processes of one history
    must have seen the same source; the check is run against a working tree that other people may be editing)"""
    m = hashlib.sha1()
    root = os.path.join(qc.REPO, "qucumber")
    for dp, dn, fs in sorted(os.walk(root)):
        dn.sort()
        for f in sorted(fs):
            if f.endswith(".py"):
                m.update(os.path.relpath(os.path.join(dp, f), root).encode())
                with open(os.path.join(dp, f), "rb") as fh:
                    m.update(fh.read())
    return m.hexdigest()[:20]


def main():
    req = json.loads(sys.stdin.read())
    from harness import common

    with common.environment(req.get("env")):
        _main(req)


def _main(req):
    src_start = source_fingerprint()
    workdir = os.path.abspath(req["workdir"])
    os.makedirs(workdir, exist_ok=True)
    states = []
    records = []
    for op in req["ops"]:
        del CALLS[:]
        del SEEDS[:]
        before_p = [param_hash(s) for s in states]
        before_r = rng_hashes()
        rec = {"t": op["t"]}
        FORMS[0] = None
        try:
            val = do_op(op, states, workdir)
            if val is None:
                rec["out"] = {"kind": "none"}
            elif isinstance(val, Extra):
                rec["out"] = {"kind": "none", "extra": _h(canon(val.v))}
            else:
                rec["out"] = {"kind": "val", "hash": _h(canon(val))}
        except Exception as e:  # noqa: BLE001 — error kinds are observations
            rec["out"] = {"kind": "err", "error": type(e).__name__, "msg": str(e)[:200]}
        rec["rng_before"] = before_r
        rec["rng_after"] = rng_hashes()
        rec["params_before"] = before_p
        rec["params_after"] = [param_hash(s) for s in states]
        if op["t"] in ("fit", "reinit", "load", "construct"):
            # diagnostic only (never compared): lets a reader of a replay file see whether a difference is
            # rounding-sized or draw-sized
            rec["params_l1"] = [param_l1(s) for s in states]
        if FORMS[0] is not None and FORMS[0].used:
            rec["forms"] = FORMS[0].used      # [call.option, form, positional] of every boolean / integer option handed over
            rec["layout"] = FORMS[0].layout   # [call, none / some / all of its options positionally]
        rec["calls"] = [list(c) for c in CALLS]
        rec["seeds"] = [list(s) for s in SEEDS]
        records.append(rec)
    sys.stdout.write("C14RESULT " + json.dumps({"records": records, "final_params": [param_hash(s) for s in states],
                                                "env": [req.get("env"), str(torch.get_default_dtype()), bool(torch.is_grad_enabled()), os.getcwd() != START_CWD],
                                                "repo": qc.REPO, "module": os.path.dirname(qucumber.__file__), "api": public_api(), "fwd": resolution_probe(),
                                                "src": [src_start, source_fingerprint()]}) + "\n")


if __name__ == "__main__":
    main()
